import sys, time, json
sys.path.insert(0,'/verif')
import vlib
from props import c15_sampler_vs_density as m
tier = sys.argv[1] if len(sys.argv)>1 else 'quick'
sel = sys.argv[2] if len(sys.argv)>2 else ''
tot=0
for c in m.enumerate_cases(tier):
    if sel and sel not in json.dumps(c): continue
    t=time.time()
    try:
        o=m.run_case(c)
    except Exception as e:
        import traceback; traceback.print_exc(); print("CASE", c); continue
    dt=time.time()-t; tot+=dt
    name = c.get('cls', c['t'])
    pr = {k:(float.fromhex(v) if isinstance(v,str) else v) for k,v in c.get('p',{}).items()}
    flag = "FAIL" if o.disc else "ok"
    print("%-4s %-20s %-60s %.2fs nt=%s %s" % (flag, name, pr, dt, o.nontrivial, {k:v for k,v in (o.info or {}).items() if k!='dist'}))
    for d in o.disc: print("      ", d['kind'], d['detail'][:400])
print("total", tot)
