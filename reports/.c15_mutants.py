import subprocess, sys, json, os, re, glob, shutil
WT='/tmp/wt-c15'
D=WT+'/src/pydsol/core/distributions.py'
U=WT+'/src/pydsol/core/utils.py'
def rep(path, old, new, nth=0):
    data=open(path,'rb').read()
    o=old.replace('\n','\r\n').encode(); n=new.replace('\n','\r\n').encode()
    idx=-1
    for _ in range(nth+1):
        idx=data.index(o, idx+1)
    open(path,'wb').write(data[:idx]+n+data[idx+len(o):])
M=[
 ("erlang-loop-k-1", D, "for _ in range(self._k):", "for _ in range(self._k - 1):"),
 ("gamma-theta-2.5(equivalent?)", D, "theta: float = 4.5", "theta: float = 2.5"),
 ("gamma-b-log2", D, "b: float = self._shape - math.log(4.0)", "b: float = self._shape - math.log(2.0)"),
 ("gamma-a-2shape+1", D, "a: float = 1.0 / math.sqrt(2.0 * self._shape - 1.0)", "a: float = 1.0 / math.sqrt(2.0 * self._shape + 1.0)"),
 ("gamma<1-step3-exponent", D, "if u2 <= y ** (self._shape - 1.0):", "if u2 <= y ** (self._shape):"),
 ("triangular-pdf-no-factor-2", D, "return (2.0 * (x - self._lo) / ((self._hi - self._lo)", "return ((x - self._lo) / ((self._hi - self._lo)"),
 ("exponential-rate", D, "return -self._mean * math.log(self._stream.next_float())", "return -1.0 / self._mean * math.log(self._stream.next_float())"),
 ("weibull-exponent", D, "1.0 / self._alpha))", "self._alpha))"),
 ("binomial-pmf-n-k+1", D, "* (1.0 - self._p) ** (self._n - observation))", "* (1.0 - self._p) ** (self._n - observation + 1))"),
 ("geometric-draw+1", D, "        u = self._stream.next_float()\n        return math.floor(math.log(u) / self._lnp)", "        u = self._stream.next_float()\n        return math.floor(math.log(u) / self._lnp) + 1"),
 ("normal-cdf-sqrt2", D, "/ (math.sqrt(2.0) * self._sigma)))", "/ (2.0 * self._sigma)))"),
 ("erf_inv-middle-coeff", U, "1.0688059574", "1.0688159574"),
 ("erf_inv-tail-coeff", U, ".680544246825", ".690544246825"),
 ("lognormal-pdf-no-1/x", D, "/ (x * self._c2pisigma2))", "/ (self._c2pisigma2))"),
 ("normaltrunc-ignores-hi", D, "+self._cum_prob_diff * self._stream.next_float()))", "+(1.0 - self._cum_prob_lo) * self._stream.next_float()))"),
 ("beta-swapped", D, "return y1 / (y1 + y2)", "return y2 / (y1 + y2)"),
 ("pearson5-scale", D, "self._dist = DistGamma(stream, self._alpha, 1.0 / self._beta)", "self._dist = DistGamma(stream, self._alpha, self._beta)"),
 ("negbin-pmf-comb", D, "math.comb(self._s + observation - 1, observation)", "math.comb(self._s + observation, observation)"),
 ("poisson-draw-off-by-one", D, "        s = 1.0\n        x = -1\n", "        s = 1.0\n        x = 0\n"),
 ("discreteuniform-pmf", D, "return 1.0 / (self._hi - self._lo + 1.0)", "return 1.0 / (self._hi - self._lo)"),
 ("erlang-gamma-args-swapped", D, "self._dist_gamma = DistGamma(stream, self._k, self._scale)", "self._dist_gamma = DistGamma(stream, self._scale, self._k)"),
 ("normaltrunc-pdf-factor", D, "self._prob_dens_factor = 1.0 / self._cum_prob_diff", "self._prob_dens_factor = 1.0"),
 ("lognormal-cdf-no-log", D, "return super().cumulative_probability(math.log(x)) ", "return super().cumulative_probability(x) "),
 ("gamma-pdf-scale", D, "return ((self._scale ** -self._shape) * (x ** (self._shape - 1))", "return ((self._scale ** -self._shape) * (x ** (self._shape))"),
]
only = sys.argv[1:]
res=[]
def reset():
    subprocess.run(['git','-C',WT,'checkout','-q','--','.'],check=True)
    subprocess.run(['/venv/bin/python','/verif/reports/.c15_fixes.py','1','2','3'],check=True)
for name,path,old,new in M:
    if only and name not in only: continue
    reset()
    rep(path,old,new)
    shutil.rmtree('/verif/replays/C15', ignore_errors=True)
    env=dict(os.environ, VERIF_REPO=WT, VERIF_SEED='1')
    r=subprocess.run(['timeout','1200','./check','C15'],cwd='/verif',env=env,capture_output=True,text=True)
    kinds={}
    for f in glob.glob('/verif/replays/C15/*.json'):
        p=json.load(open(f))
        for d in p.get('disc',[]):
            k=d['kind']
            if k.endswith('rate>700'): continue
            m=re.search(r'"(D|chi2|integral|sum|relative_error)": ([-0-9.e+]+)', d['detail'])
            kinds.setdefault(k, (m.group(1)+'='+m.group(2)[:9]) if m else '')
    line=r.stdout.splitlines()[0] if r.stdout else r.stderr[-300:]
    print("MUTANT %-32s exit=%d  %s" % (name, r.returncode, line), flush=True)
    for k,v in sorted(kinds.items()): print("      %-50s %s" % (k,v), flush=True)
    res.append({"mutant":name,"exit":r.returncode,"kinds":kinds})
reset()
json.dump(res, open('/verif/reports/.c15_mutants.json','w'), indent=1)
