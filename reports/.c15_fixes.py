import sys
sys.path.insert(0,'/verif/tools')
from crlf_edit import edit
p='/tmp/wt-c15/src/pydsol/core/distributions.py'
def fix1():
    edit(p, '''        if x >= self._lo and x <= self._mode:
            return (2.0 * (x - self._lo) / ((self._hi - self._lo) 
                    * (self._mode - self._lo)))
        if x >= self._mode and x <= self._hi:
            return (2.0 * (self._hi - x) / ((self._hi - self._lo) 
                    * (self._hi - self._mode)))
        return 0.0
''', '''        if x == self._mode:
            # the peak; also covers a mode equal to lo or hi (one leg of
            # the triangle has length 0, which made the leg formula 0/0)
            return 2.0 / (self._hi - self._lo)
        if x >= self._lo and x < self._mode:
            return (2.0 * (x - self._lo) / ((self._hi - self._lo) 
                    * (self._mode - self._lo)))
        if x > self._mode and x <= self._hi:
            return (2.0 * (self._hi - x) / ((self._hi - self._lo) 
                    * (self._hi - self._mode)))
        return 0.0
''')
def fix2():
    edit(p, '''        if isinstance(observation, int) and observation >= 0:
            return (math.exp(-self._rate) * (self._rate ** observation)
                    / math.factorial(observation))
        return 0.0;
''', '''        if isinstance(observation, int) and observation >= 0:
            # evaluated on the log scale: rate ** observation and 
            # factorial(observation) overflow for larger observations
            return math.exp(-self._rate + observation * math.log(self._rate)
                            - math.lgamma(observation + 1.0))
        return 0.0;
''')
def fix3():
    edit(p, '''        if x > 0:
            return (math.pow(x / self._beta, self._alpha1 - 1) 
                   / (self._beta * beta(self._alpha1, self._alpha2)
                   * math.pow(1 + x / self._beta, self._alpha1 + self._alpha2))) 
        return 0.0
''', '''        if x > 0:
            # (x/b)^(a1-1) / (1+x/b)^(a1+a2) regrouped so that no factor can
            # overflow for large x: (xb/(1+xb))^(a1-1) * (1+xb)^-(a2+1) 
            xb = x / self._beta
            return (math.pow(xb / (1 + xb), self._alpha1 - 1) 
                   * math.pow(1 + xb, -(self._alpha2 + 1))
                   / (self._beta * beta(self._alpha1, self._alpha2)))
        return 0.0
''')
for a in sys.argv[1:]:
    globals()['fix'+a]()
