"""Simulator harness shared by C02-C07, C11: model programs (plain data), a generic DSOLModel
that interprets them, a recording listener, structural quiescence detection, deterministic
pauses, and the reference DEVS interpreter (the oracle).

Time encoding in JSON cases: int -> int, float -> float.hex() string, Duration -> [hex, unit].
"""
import itertools
import math
import threading
import time as _time

from vlib.runner import Inconclusive

DUR_FACTORS = {"s": 1.0, "min": 60.0, "h": 3600.0, "ms": 0.001, "day": 86400.0}
_counter = itertools.count(1)
LIVENESS_S = 10.0

# uncaught exceptions of simulator worker threads (a listener raising inside END_REPLICATION kills the thread)
THREAD_ERRORS = {}
_prev_excepthook = threading.excepthook


def _excepthook(args):
    name = getattr(args.thread, "name", "?")
    if name.startswith("vsim-"):
        THREAD_ERRORS.setdefault(name, []).append("%s: %s" % (args.exc_type.__name__, str(args.exc_value)[:200]))
        return
    _prev_excepthook(args)


threading.excepthook = _excepthook


# ------------------------------------------------------------------ time helpers
def dec_sut(t):
    """JSON time -> object handed to pydsol."""
    if isinstance(t, list):
        from pydsol.core.units import Duration
        return Duration(float.fromhex(t[0]), t[1])
    if isinstance(t, str):
        return float.fromhex(t)
    return t


def dec_ref(t):
    """JSON time -> number used by the reference interpreter (Duration -> SI float)."""
    if isinstance(t, list):
        return float.fromhex(t[0]) * DUR_FACTORS[t[1]]
    if isinstance(t, str):
        return float.fromhex(t)
    return t


def enc_obs(t):
    """observed pydsol time -> comparable/JSON-able value (Duration -> SI float hex)."""
    if t is None:
        return None
    if isinstance(t, bool):
        return repr(t)
    if isinstance(t, int):
        return t
    if isinstance(t, float):
        return float(t).hex()
    return repr(t)


def enc_ref(t):
    if isinstance(t, float):
        return t.hex()
    return t


def is_nan(x):
    return isinstance(x, float) and x != x


# ------------------------------------------------------------------ recorder
class Recorder:
    """EventListener recording the eight simulator/replication notifications."""

    def __init__(self):
        from pydsol.core.pubsub import EventListener

        outer = self

        class _L(EventListener):
            def notify(self, event):
                outer._notify(event)

        self.listener = _L()
        self.log = []
        self.hooks = {}          # name -> callable(entry) executed inside notify
        self.names = None
        self.tc_seen = []        # [announced time, simulator clock read inside the notification] per TIME_CHANGED
        self.sim = None
        self.skip = set()        # notification names NOT to subscribe to (see C04: listeners removed by initialize)

    def _types(self):
        from pydsol.core.interfaces import SimulatorInterface as S, ReplicationInterface as R
        return {S.STARTING_EVENT: "STARTING", S.START_EVENT: "START", S.STOPPING_EVENT: "STOPPING",
                S.STOP_EVENT: "STOP", S.TIME_CHANGED_EVENT: "TIME_CHANGED",
                R.START_REPLICATION_EVENT: "START_REPLICATION", R.END_REPLICATION_EVENT: "END_REPLICATION",
                R.WARMUP_EVENT: "WARMUP"}

    def subscribe(self, sim):
        self.sim = sim
        self.names = self._types()
        for et, name in self.names.items():
            if name not in self.skip:
                sim.add_listener(et, self.listener)

    def _notify(self, event):
        name = self.names.get(event.event_type, str(event.event_type))
        ts = getattr(event, "timestamp", None)
        entry = [name, enc_obs(ts), enc_obs(event.content) if isinstance(event.content, (int, float)) else
                 (None if event.content is None else repr(event.content))]
        self.log.append(entry)
        if name == "TIME_CHANGED":
            # what a listener of the notification sees when it looks at the clock
            self.tc_seen.append([entry[1], enc_obs(self.sim.simulator_time)])
        h = self.hooks.get(name)
        if h is not None:
            h(entry)


# ------------------------------------------------------------------ the program model (SUT side)
class Fault(Exception):
    """injected handler fault"""


# every event carries a text argument with characters that are special for %-, {}- and \-formatting: they end up in
# the library's own description of the event (error messages, logging) and must not disturb anything
TAG = "100% {0} {x} %s %d \\n \u20ac"


class HandlerAbort(BaseException):
    """injected handler fault that is not derived from Exception (like SystemExit / KeyboardInterrupt)"""


class OddError(Exception):
    """injected handler fault whose str() and repr() are unusual"""

    def __str__(self):
        return "{self.x} %s %d {0} \u20ac\n\x00"


def make_fault(kind, seq):
    """the exception a failing handler raises; kind selects its class / arguments"""
    if kind == "noargs":
        return RuntimeError()
    if kind == "stopiteration":
        return StopIteration()
    if kind == "assert":
        return AssertionError()
    if kind == "keyerror":
        return KeyError(seq)
    if kind == "odd-message":
        return OddError()
    if kind == "non-str-arg":
        return ValueError(("tuple", seq), None)
    if kind == "base":
        return HandlerAbort("injected abort in event %d" % seq)
    return Fault("injected fault in event %d" % seq)


def make_model_class():
    from pydsol.core.model import DSOLModel
    from pydsol.core.simevent import SimEvent

    class DirectEvent(SimEvent):
        """another SimEvent implementation: calls the target without converting failures to DSOLError"""

        def execute(self):
            self._method(**self._kwargs)

    class _Entity:
        """a short-lived object of the model (a customer, a job): its events are the only references to it"""

        def __init__(self, model):
            self.model = model

        def __len__(self):
            return 0            # (a container-like component that is empty right now: a falsy target)

        def h(self, **kwargs):
            self.model.h(**kwargs)

    class ProgModel(DSOLModel):
        def __init__(self, simulator, program):
            super().__init__(simulator)
            self.prog = program
            self.direct = bool(program.get("direct_events"))   # schedule DirectEvent instances (C05)
            self.faults = set(program.get("faults", []))
            self.cap = program.get("cap", 300)
            self.trace = []
            self.events = []
            self.reqlog = []
            self.seq = 0
            self.gate_at = None
            self.gate = None
            self.reached = None
            self.constructed = 0
            self.extra_construct = None    # callable(model) for C06/C11 (statistics, streams)
            self.extra_action = None       # callable(model, action) for domain actions
            self.on_exec = None            # callable(model, seq, node) before the actions
            self.on_done = None            # callable(model, seq, node) after the actions
            self.fault_idx = set()         # trace indices whose handler fails (after its actions)
            self.runaway = False

        def construct_model(self):
            self.constructed += 1
            self.trace = []
            # handles of events of earlier replications that the model still holds (action "cancel_old")
            self.old_events = (getattr(self, "old_events", []) + self.events)[-40:]
            self.events = []
            self.reqlog = []
            self.seq = 0
            self.again_done = set()
            if self.extra_construct is not None:
                self.extra_construct(self)
            self._actions(self.prog["root"], -1)

        # target of Simulator.add_initial_method: runs a block of root-like actions
        def initial(self, idx):
            self._actions(self.prog.get("initial", [[]])[idx], -3 - idx)

        # the single generic handler
        def h(self, seq, node, tag=None):
            sim = self.simulator
            self.trace.append([seq, node, enc_obs(sim.simulator_time)])
            if len(self.trace) > 4 * self.cap + 200:
                # runaway guard: far more executions than events can exist (e.g. an event that is re-queued for
                # ever).  Empty the event list through the public API so that the run ends; the trace comparison
                # of the property module reports the discrepancy.
                self.runaway = True
                sim.eventlist().clear()
                return
            if self.on_exec is not None:
                self.on_exec(self, seq, node)
            self._actions(self.prog["nodes"][node], seq)
            if self.on_done is not None:
                self.on_done(self, seq, node)
            if self.gate_at is not None and len(self.trace) - 1 == self.gate_at:
                self.reached.set()
                self.gate.wait(LIVENESS_S)
            if seq in self.faults or (len(self.trace) - 1) in self.fault_idx:
                kind = self.prog.get("fault_kind", "msg")
                if kind == "bad-command":
                    # the handler fails because it issues a run command while the run is in progress (refused
                    # with DSOLError, which the handler does not catch); a refused command changes nothing
                    kind = "msg"
                    if sim.is_starting_or_running():
                        sim.run_up_to_including(sim.simulator_time)
                if kind == "bad-request":
                    # the handler fails because the library refuses an illegal scheduling request of it (a time of
                    # the wrong type) and the handler does not catch that error
                    from pydsol.core.units import Duration
                    now = sim.simulator_time
                    bad = float(now) + 1.0 if isinstance(now, Duration) else "soon"
                    sim.schedule_event(SimEvent(bad, self, "h", 5, seq=-1, node=0))
                    kind = "msg"          # (accepted?! the handler fails all the same)
                raise make_fault(kind, seq)

        def _sched(self, how, arg, node, prio):
            sim = self.simulator
            seq = self.seq
            kw = {"seq": seq, "node": node, "tag": TAG}
            if seq in self.faults and self.prog.get("fault_kind") == "bad-kwargs":
                # the event that will fail is one whose keyword arguments do not fit the handler: the call fails when
                # the event is carried out (not a moment earlier), the handler body never runs
                kw["unexpected_argument"] = seq
            # every fourth event is an event of a short-lived entity (nobody but the event refers to it) that hands
            # over to the model's handler; an event of normal priority is in half of the cases scheduled without
            # naming the priority (the documented default is the normal priority)
            tgt = self if seq % 4 != 3 else _Entity(self)
            pr = (prio,) if not (prio == 5 and seq % 2 and type(prio) is int) else ()
            if self.direct:
                t = sim.simulator_time if how == "now" else (sim.simulator_time + arg if how == "rel" else arg)
                ev = sim.schedule_event(DirectEvent(t, tgt, "h", prio, **kw))
            elif how == "now":
                ev = sim.schedule_event_now(tgt, "h", *pr, **kw)
            elif how == "rel":
                ev = sim.schedule_event_rel(arg, tgt, "h", *pr, **kw)
            elif how == "abs":
                ev = sim.schedule_event_abs(arg, tgt, "h", *pr, **kw)
            else:
                ev = sim.schedule_event(SimEvent(arg, tgt, "h", *pr, **kw))
            self.seq += 1
            self.events.append(ev)

        def _actions(self, actions, cur):
            sim = self.simulator
            nnodes = len(self.prog["nodes"])
            for ai, a in enumerate(actions):
                kind = a[0]
                if kind in ("now", "rel", "abs_off", "abs_t", "ev_off", "ev_t"):
                    if self.seq >= self.cap or nnodes == 0:
                        continue
                    el = sim.eventlist()
                    before = el.size()
                    try:
                        if kind == "now":
                            self._sched("now", None, a[1] % nnodes, a[2])
                        elif kind == "rel":
                            self._sched("rel", dec_sut(a[1]), a[2] % nnodes, a[3])
                        elif kind == "abs_off":
                            self._sched("abs", sim.simulator_time + dec_sut(a[1]), a[2] % nnodes, a[3])
                        elif kind == "abs_t":
                            self._sched("abs", dec_sut(a[1]), a[2] % nnodes, a[3])
                        elif kind == "ev_off":
                            self._sched("ev", sim.simulator_time + dec_sut(a[1]), a[2] % nnodes, a[3])
                        else:
                            self._sched("ev", dec_sut(a[1]), a[2] % nnodes, a[3])
                        res = "ok"
                    except Exception as e:  # a refusal: any exception counts
                        res = "refused"
                        self.reqlog.append([cur, ai, res, before, el.size(), type(e).__name__])
                        continue
                    self.reqlog.append([cur, ai, res, before, el.size(), None])
                elif kind == "bad":
                    el = sim.eventlist()
                    before = el.size()
                    which = a[1]
                    try:
                        if which == "nan_abs":
                            sim.schedule_event_abs(_nan_like(sim), self, "h", 5, seq=-1, node=0)
                        elif which == "nan_rel":
                            sim.schedule_event_rel(_nan_like(sim), self, "h", 5, seq=-1, node=0)
                        elif which == "nan_ev":
                            sim.schedule_event(SimEvent(_nan_like(sim), self, "h", 5, seq=-1, node=0))
                        elif which == "none_abs":
                            sim.schedule_event_abs(None, self, "h", 5, seq=-1, node=0)
                        elif which == "str_abs":
                            sim.schedule_event_abs("soon", self, "h", 5, seq=-1, node=0)
                        elif which == "str_rel":
                            sim.schedule_event_rel("1.0", self, "h", 5, seq=-1, node=0)
                        elif which == "none_rel":
                            sim.schedule_event_rel(None, self, "h", 5, seq=-1, node=0)
                        res = "ok"
                        exc = None
                    except Exception as e:
                        res = "refused"
                        exc = type(e).__name__
                    self.reqlog.append([cur, ai, res, before, el.size(), exc])
                elif kind == "cancel":
                    if self.events:
                        sim.cancel_event(self.events[a[1] % len(self.events)])
                elif kind == "again":
                    # the handler hands the very event object that is being carried out to schedule_event once more
                    # (its time is the current time): it is carried out a second time
                    if 0 <= cur < len(self.events) and cur not in self.again_done:
                        self.again_done.add(cur)
                        sim.schedule_event(self.events[cur])
                elif self.extra_action is not None:
                    self.extra_action(self, a)

    return ProgModel


def _nan_like(sim):
    from pydsol.core.units import Duration
    if isinstance(sim.simulator_time, Duration):
        return Duration(float("nan"), "s")
    return float("nan")


_MODEL_CLASS = None


_CONTAINER_MODEL_CLASS = None


def model_class(container=False):
    """container=True: a model class that is also a (currently empty) container - len(model) == 0, so the model
    object is falsy, like a model that counts its entities with __len__"""
    global _MODEL_CLASS, _CONTAINER_MODEL_CLASS
    if _MODEL_CLASS is None:
        _MODEL_CLASS = make_model_class()
    if container:
        if _CONTAINER_MODEL_CLASS is None:
            class ContainerProgModel(_MODEL_CLASS):
                def __len__(self):
                    return 0
            _CONTAINER_MODEL_CLASS = ContainerProgModel
        return _CONTAINER_MODEL_CLASS
    return _MODEL_CLASS


# ------------------------------------------------------------------ harness
class Harness:
    """One simulator + one program model, with structural quiescence detection."""

    def __init__(self, program, sim=None, model=None):
        from pydsol.core.simulator import (DEVSSimulatorFloat, DEVSSimulatorInt, DEVSSimulatorDuration)
        self.program = program
        clock = program["clock"]
        self.name = "vsim-%d" % next(_counter)
        if sim is not None:
            self.sim = sim
            self.name = sim.name
        elif clock == "float":
            self.sim = DEVSSimulatorFloat(self.name)
        elif clock == "int":
            self.sim = DEVSSimulatorInt(self.name)
        else:
            self.sim = DEVSSimulatorDuration(self.name, program.get("display_unit", "s"))
        self.model = model if model is not None else \
            model_class(bool(program.get("container_model")))(self.sim, program)
        self.rec = Recorder()
        self.replication = None
        self._threads_before = set(threading.enumerate())

    # -- lifecycle helpers
    def make_replication(self, rep=None):
        from pydsol.core.experiment import SingleReplication
        rep = rep or self.program["rep"]
        return SingleReplication("rep", dec_sut(rep["start"]), dec_sut(rep["warmup"]), dec_sut(rep["length"]))

    def initialize(self, rep=None, same_object=False):
        """same_object: initialize again with the very replication object of the previous initialize"""
        if not (same_object and self.replication is not None and rep is None):
            self.replication = self.make_replication(rep)
        self.sim.initialize(self.model, self.replication)
        self.rec.subscribe(self.sim)      # initialize()/cleanup() remove all listeners by design
        model = self.model
        self.rec.hooks["WARMUP"] = lambda entry: model.trace.append(["W", None, entry[1]])

    def worker(self):
        from pydsol.core.simulator import SimulatorWorkerThread
        best = None
        for t in threading.enumerate():
            if isinstance(t, SimulatorWorkerThread) and t.name == self.name and not t.is_finalized():
                best = t
        return best

    def workers_all(self):
        from pydsol.core.simulator import SimulatorWorkerThread
        return [t for t in threading.enumerate()
                if isinstance(t, SimulatorWorkerThread) and t.name == self.name]

    def status(self):
        """'quiet' | 'busy' | 'limbo:<what>' - decided structurally, no timing."""
        from pydsol.core.simulator import RunState
        rs = self.sim.run_state
        ws = self.workers_all()
        live = [w for w in ws if w.is_alive() and not w.is_finalized()]
        if rs == RunState.NOT_INITIALIZED:
            return "quiet" if not any(w.is_alive() for w in ws) else "busy"
        if rs == RunState.ENDED:
            return "quiet" if not any(w.is_alive() for w in ws) else "busy"
        if rs in (RunState.INITIALIZED, RunState.STOPPED):
            if live and all(w.is_waiting() for w in live):
                return "quiet"
            if not live:
                return "limbo:%s-without-worker" % rs.name
            return "busy"
        if rs == RunState.STOPPING:
            if not live:
                return "limbo:STOPPING-worker-gone"
            if all(w.is_waiting() for w in live) and not any(w.is_running() for w in live):
                return "limbo:STOPPING-but-worker-waiting"     # parked worker: nobody will write STOPPED
            return "busy"
        if rs in (RunState.STARTING, RunState.STARTED):
            if not live:
                return "limbo:%s-worker-gone" % rs.name
            if all(w.is_waiting() for w in live) and not any(w.is_running() for w in live):
                # 'running' state but the worker is parked and nothing woke it: nobody will ever change the state
                return "limbo:%s-but-worker-waiting" % rs.name
            return "busy"
        return "busy"

    def settle(self, timeout=LIVENESS_S, allow_limbo=False):
        deadline = _time.monotonic() + timeout
        spins = 0
        limbo_since = None
        while True:
            s = self.status()
            if s == "quiet":
                return s
            if s.startswith("limbo"):
                # a limbo state is permanent by construction; confirm it over a few ms
                if limbo_since is None:
                    limbo_since = _time.monotonic()
                elif _time.monotonic() - limbo_since > (0.05 if "worker-waiting" not in s else 0.3):
                    if allow_limbo:
                        return s
                    raise Inconclusive("simulator stuck: " + s)
            else:
                limbo_since = None
            if _time.monotonic() > deadline:
                raise Inconclusive("no quiescence within %.0fs (state %s)" % (timeout, self.sim.run_state))
            spins += 1
            _time.sleep(0 if spins < 50 else 0.0002)

    def run_piece(self, piece):
        """Execute one drive piece and wait for quiescence.  Returns None or an exception."""
        sim = self.sim
        kind = piece[0]
        try:
            if kind == "start":
                sim.start()
            elif kind == "run_up_to":
                sim.run_up_to(dec_sut(piece[1]))
            elif kind == "run_up_to_incl":
                sim.run_up_to_including(dec_sut(piece[1]))
            elif kind == "step":
                sim.step()
            elif kind == "pause_after":
                return self.start_pause_after(piece[1], piece[2] if len(piece) > 2 else ["start"])
            else:
                raise ValueError(kind)
        except Exception as e:
            self.last_status = self.settle(allow_limbo=True)
            return e
        self.last_status = self.settle(allow_limbo=True)
        return None

    def start_pause_after(self, k, starter=("start",), hold_until_stop_returned=False, while_held=None):
        """start (or a bounded run) and stop() exactly after the handler with trace index k.
        hold_until_stop_returned: the handler stays inside its event until stop() has given up waiting for the run
        thread (pydsol waits 1 s) and returned; while_held() is then called with the handler still inside."""
        from pydsol.core.simulator import RunState
        m = self.model
        m.gate_at = k
        m.gate = threading.Event()
        m.reached = threading.Event()
        sim = self.sim
        err = None
        try:
            if starter[0] == "start":
                sim.start()
            elif starter[0] == "run_up_to":
                sim.run_up_to(dec_sut(starter[1]))
            else:
                sim.run_up_to_including(dec_sut(starter[1]))
        except Exception as e:
            m.gate_at = None
            self.settle()
            return e
        deadline = _time.monotonic() + LIVENESS_S
        while not m.reached.is_set():
            if self.status() == "quiet":
                break                       # run finished before reaching event k: no pause
            if _time.monotonic() > deadline:
                m.gate.set()
                raise Inconclusive("pause point not reached")
            _time.sleep(0)
        if m.reached.is_set():
            box = {}

            def stopper():
                try:
                    sim.stop()
                except Exception as e:       # pragma: no cover
                    box["e"] = e

            th = threading.Thread(target=stopper, name="verif-stopper")
            th.start()
            while sim.run_state != RunState.STOPPING and th.is_alive():
                if _time.monotonic() > deadline:
                    break
                _time.sleep(0)
            if hold_until_stop_returned:
                th.join(LIVENESS_S / 2)
                if while_held is not None and not th.is_alive():
                    while_held()
            m.gate.set()
            th.join(LIVENESS_S)
            err = box.get("e")
            m.paused = True
        m.gate_at = None
        self.settle()
        return err

    def start_eager_resume(self, hold_s=0.25):
        """start(); when the run pauses (a fault under WARN_AND_PAUSE), a STOP listener is still busy for hold_s
        seconds while this thread resumes with start() as soon as it reads run_state == STOPPED - what a user
        interface thread does.  Returns the error of the second start() (None when it was accepted / not needed)."""
        from pydsol.core.simulator import RunState
        sim = self.sim
        seen, resumed = threading.Event(), threading.Event()
        prev = self.rec.hooks.get("STOP")

        def hook(entry):
            if prev is not None:
                prev(entry)
            if not seen.is_set():
                seen.set()
                resumed.wait(hold_s)
        self.rec.hooks["STOP"] = hook
        err2 = None
        try:
            sim.start()
            deadline = _time.monotonic() + LIVENESS_S
            while not seen.is_set() and _time.monotonic() < deadline:
                if self.status() == "quiet":
                    break
                _time.sleep(0)
            if seen.is_set():
                while sim.run_state != RunState.STOPPED and sim.run_state != RunState.ENDED \
                        and _time.monotonic() < deadline:
                    _time.sleep(0)
                if sim.run_state == RunState.STOPPED:
                    try:
                        sim.start()
                    except Exception as e:
                        err2 = e
                resumed.set()
        finally:
            resumed.set()
            if prev is None:
                self.rec.hooks.pop("STOP", None)
            else:
                self.rec.hooks["STOP"] = prev
        self.last_status = self.settle(allow_limbo=True)
        return err2

    def start_stop_at_time_change(self, n, starter=("start",)):
        """start (or a bounded run); a TIME_CHANGED listener calls stop() at the n-th time change from now (the
        'pause when the clock reaches ...' control of a user interface).  Returns the error of either command."""
        sim = self.sim
        box = {"n": 0}
        prev = self.rec.hooks.get("TIME_CHANGED")

        def hook(entry):
            if prev is not None:
                prev(entry)
            box["n"] += 1
            if box["n"] == n:
                try:
                    sim.stop()
                except Exception as e:
                    box["e"] = e
        self.rec.hooks["TIME_CHANGED"] = hook
        try:
            err = self.run_piece(list(starter))
        finally:
            if prev is None:
                self.rec.hooks.pop("TIME_CHANGED", None)
            else:
                self.rec.hooks["TIME_CHANGED"] = prev
        self.settle()
        return err or box.get("e")

    def finish(self):
        """cleanup and make sure no simulator thread outlives the case."""
        leaked = []

        def _cleanup():
            try:
                self.sim.cleanup()
            except Exception:
                pass
        # (in a helper thread: a cleanup() that does not come back - pydsol waits at most a second for its run
        # thread - must not hang the check; it is reported like a thread that outlives the case)
        th = threading.Thread(target=_cleanup, name="verif-cleanup", daemon=True)
        th.start()
        th.join(8.0)
        if th.is_alive():
            leaked.append("cleanup() did not return within 8 s")
        for w in self.workers_all():
            w.join(2.0)
            if w.is_alive():
                leaked.append(w.name)
        for err in THREAD_ERRORS.pop(self.name, []):
            leaked.append("worker thread died with an uncaught exception: " + err)
        return leaked


# ------------------------------------------------------------------ reference DEVS interpreter
class RefSim:
    """Pure-Python reference semantics of a program on a DEVS simulator.

    pending entries: [time, -priority, order, seq, node]   (node == 'W' for the warm-up event)
    """

    def __init__(self, program, rep=None):
        self.p = program
        rep = rep or program["rep"]
        self.start = dec_ref(rep["start"])
        self.warm = self.start + dec_ref(rep["warmup"])
        self.end = self.start + dec_ref(rep["length"])
        self.cap = program.get("cap", 300)
        self.faults = set(program.get("faults", []))
        self.clock = self.start
        self.pending = []
        self.trace = []           # [seq, node, time]
        self.reqlog = []          # [cur, ai, "ok"/"refused"]
        self.events = []          # seq -> entry (or None)
        self.seq = 0
        self.order = 0
        self.ended = False
        self.warmups = []
        self.labels = set()
        self.extra_action = None  # callable(ref, action)
        self.on_exec = None
        self.on_warmup = None
        self.executed_faults = 0
        self.strategy = None      # current error strategy (1, 2, 3) when the program may change it at run time

    # -- scheduling
    def _legal_time(self, t):
        return not is_nan(t) and not (t < self.clock)

    def _push(self, t, prio, node):
        e = [t, -prio, self.order, self.seq, node]
        self.order += 1
        self.seq += 1
        self.pending.append(e)
        self.events.append(e)
        return e

    def initialize(self):
        self.clock = self.start
        self.pending = []
        self.trace = []
        self.reqlog = []
        self.events = []
        self.seq = 0
        self.order = 0
        self.ended = False
        self.warmups = []
        self.again_done = set()
        self._actions(self.p["root"], -1)
        # initial methods (Simulator.add_initial_method): one call per registration, in registration order, after
        # construct_model and before the warm-up is scheduled (only cases that carry "initial_calls")
        for idx in self.p.get("initial_calls", []):
            self._actions(self.p["initial"][idx], -3 - idx)
        # the warm-up event: scheduled after construct_model with MAX priority
        w = [self.warm, -10, self.order, None, "W"]
        self.order += 1
        self.pending.append(w)

    def _actions(self, actions, cur):
        nn = len(self.p["nodes"])
        for ai, a in enumerate(actions):
            k = a[0]
            if k in ("now", "rel", "abs_off", "abs_t", "ev_off", "ev_t"):
                if self.seq >= self.cap or nn == 0:
                    continue
                if k == "now":
                    t, node, prio, legal = self.clock, a[1] % nn, a[2], True
                elif k == "rel":
                    d = dec_ref(a[1])
                    t, node, prio = self.clock + d, a[2] % nn, a[3]
                    legal = not is_nan(d) and not (d < 0) and self._legal_time(t)
                    if d == 0:
                        self.labels.add("zero-delay")
                elif k in ("abs_off", "ev_off"):
                    d = dec_ref(a[1])
                    t, node, prio = self.clock + d, a[2] % nn, a[3]
                    legal = self._legal_time(t)
                else:
                    t, node, prio = dec_ref(a[1]), a[2] % nn, a[3]
                    legal = self._legal_time(t)
                if legal:
                    self._push(t, prio, node)
                    self.reqlog.append([cur, ai, "ok"])
                    if t > self.end:
                        self.labels.add("beyond-horizon")
                    if t == self.end:
                        self.labels.add("at-horizon")
                else:
                    self.reqlog.append([cur, ai, "refused"])
                    self.labels.add("illegal-request")
            elif k == "bad":
                self.reqlog.append([cur, ai, "refused"])
                self.labels.add("illegal-request")
                self.labels.add("bad:" + a[1])
            elif k == "cancel":
                if self.events:
                    e = self.events[a[1] % len(self.events)]
                    if any(x is e for x in self.pending):
                        self.pending = [x for x in self.pending if x is not e]
                        self.labels.add("cancel-pending")
                    else:
                        self.labels.add("cancel-not-pending")
            elif k == "again":
                if 0 <= cur < len(self.events) and cur not in self.again_done:
                    self.again_done.add(cur)
                    self.pending.append(self.events[cur])
                    self.labels.add("event-object-scheduled-again")
            elif self.extra_action is not None:
                self.extra_action(self, a)

    def _first(self):
        if not self.pending:
            return None
        return min(self.pending, key=lambda e: (e[0], e[1], e[2]))

    def _exec(self, e):
        self.pending = [x for x in self.pending if x is not e]
        # tie bookkeeping (labels only)
        for x in self.pending:
            if x[0] == e[0]:
                self.labels.add("tie-prio" if x[1] != e[1] else "tie-order")
                break
        self.clock = e[0]
        if e[4] == "W":
            self.warmups.append(e[0])
            self.trace.append(["W", None, enc_ref(e[0])])
            if self.on_warmup is not None:
                self.on_warmup(self)
            return
        if e[3] in self.faults and self.p.get("fault_kind") == "bad-kwargs":
            self.executed_faults += 1          # the call itself fails: no handler body, no trace entry
            return "fault"
        self.trace.append([e[3], e[4], enc_ref(e[0])])
        if self.on_exec is not None:
            self.on_exec(self, e[3], e[4])
        self._actions(self.p["nodes"][e[4]], e[3])
        if e[3] in self.faults:
            self.executed_faults += 1
            return "fault"

    def run(self, bound=None, inclusive=True, max_events=None, pause_on_fault=False, stop_at_time_change=None):
        """Run to the bound (None = replication end, inclusive).  Returns 'bound', 'count' or 'fault'.
        stop_at_time_change=n: a stop is requested when the clock changes for the n-th time (the event that
        changes it - possibly the warm-up - is still carried out, then the run pauses: 'count')."""
        if bound is None or bound > self.end:
            bound, inclusive = self.end, True
        n = 0
        tc = 0
        while True:
            e = self._first()
            if e is None or e[0] > bound or (e[0] == bound and not inclusive):
                self.clock = bound
                if bound >= self.end:
                    self.ended = True
                    self.pending = []
                return "bound"
            changes = e[0] != self.clock
            r = self._exec(e)
            if stop_at_time_change is not None and changes:
                tc += 1
                if tc == stop_at_time_change:
                    return "count"
            if e[4] != "W":
                n += 1                      # max_events counts model events only
            if r == "fault" and (pause_on_fault if self.strategy is None else self.strategy == 3):
                return "fault"
            if max_events is not None and n >= max_events:
                return "count"

    def step(self):
        e = self._first()
        if e is None or e[0] > self.end:
            return None
        return self._exec(e) or "ok"

    def model_trace(self):
        return [t for t in self.trace if t[0] != "W"]


def run_plain(program, rep=None):
    """SUT: initialize + start to the end.  Returns (harness, error)."""
    h = Harness(program)
    h.initialize(rep)
    err = h.run_piece(["start"])
    return h, err
