"""Stochastic / statistics extension of the model programs (used by C06, C07, C11).

Extra actions (interpreted by hooks installed on ProgModel):
  ["rel_rand", stream, scale, node, prio]   delay = stream.next_float() * scale (clock units)
  ["draw", stream, "f" | "b" | "i"]         consume one number from a stream (logged)
  ["draw_dist", stream, d]                  one draw of distribution d (Normal, Exponential, LogNormal, Uniform,
                                            Triangular) on that stream (logged)
  ["rel_dist", stream, d, scale, node, prio] delay = |draw of distribution d| * scale
  ["obs_c", k]                              counter observation  (int)
  ["obs_t", v] / ["obs_t_rand", stream]     tally observation    (float)
  ["obs_w", w, v]                           weighted tally observation (weight, value)
  ["obs_p", v] / ["obs_p_rand", stream]     persistent observation (value at the current time)
  ["reinit"]                                try to initialize the running simulator (must be refused)
  ["cancel_old", k]                         cancel_event on a handle kept from an earlier replication (no effect)
Streams and the four simulation statistics are created in construct_model, as the docs instruct.
"""
import math

from hypothesis import strategies as st

from vlib.progs import PRIO, fx
from vlib.simharness import dec_sut

TALLY_GETTERS = [("n", ()), ("min", ()), ("max", ()), ("sum", ()), ("mean", ()),
                 ("variance", (True,)), ("variance", (False,)), ("stdev", (True,)), ("stdev", (False,)),
                 ("skewness", (True,)), ("skewness", (False,)), ("kurtosis", (True,)), ("kurtosis", (False,)),
                 ("excess_kurtosis", (True,)), ("excess_kurtosis", (False,)),
                 ("confidence_interval", (0.05,))]
WEIGHTED_GETTERS = [("n", ()), ("min", ()), ("max", ()), ("weighted_sum", ()), ("weighted_mean", ()),
                    ("weighted_variance", (True,)), ("weighted_variance", (False,)),
                    ("weighted_stdev", (True,)), ("weighted_stdev", (False,))]
COUNTER_GETTERS = [("n", ()), ("count", ())]


def enc_val(v):
    if isinstance(v, tuple):
        return [enc_val(x) for x in v]
    if isinstance(v, bool):
        return repr(v)
    if isinstance(v, int):
        return v
    if isinstance(v, float):
        return "nan" if v != v else float(v).hex()
    return repr(v)


def getters_of(stat):
    from pydsol.core.statistics import Counter, Tally, WeightedTally
    if isinstance(stat, Counter):
        return COUNTER_GETTERS
    if isinstance(stat, Tally):
        return TALLY_GETTERS
    if isinstance(stat, WeightedTally):
        return WEIGHTED_GETTERS
    return []


def stat_digest(stat):
    out = {}
    for name, args in getters_of(stat):
        key = name + (repr(args) if args else "")
        try:
            out[key] = enc_val(getattr(stat, name)(*args))
        except Exception as e:       # totality is judged by C09/C10, not here
            out[key] = "raises:" + type(e).__name__
    return out


_ALT = {}


def alt_types():
    """a second EventType per statistic (one per process: EventType names are global)"""
    if not _ALT:
        from pydsol.core.pubsub import EventType
        for k in "ctwp":
            _ALT[k] = EventType("VERIF_ALT_DATA_" + k)
    return _ALT


def install(model, seeds, with_stats=True, reuse_streams=False, long_lived_producers=False, two_types=False,
            default_info=False):
    """install the construct/action hooks on a ProgModel.  reuse_streams: the stream objects are created once per
    model and re-seeded with set_seed() for every replication (what a StreamSeedUpdater does in an experiment).
    two_types: every statistic listens to TWO event types of its producer; observations alternate between them.
    default_info: stream 0 is the "default" stream of a StreamInformation() that the model creates (seed 10)."""
    model.seeds = list(seeds)
    model.stream_objects = None
    model.producer_objects = None

    def construct(m):
        from pydsol.core.pubsub import EventProducer
        from pydsol.core.streams import MersenneTwister
        if reuse_streams:
            if m.stream_objects is None or len(m.stream_objects) != len(m.seeds):
                m.stream_objects = [MersenneTwister(s) for s in m.seeds]
                if reuse_streams == "updater":
                    from pydsol.core.streams import StreamSeedUpdater
                    named = {"s%d" % i: so for i, so in enumerate(m.stream_objects)}
                    StreamSeedUpdater({"s%d" % i: [sd] for i, sd in enumerate(m.seeds)}).update_seeds(named, 0)
                elif reuse_streams == "simple":
                    from pydsol.core.streams import SimpleStreamUpdater
                    SimpleStreamUpdater().update_seeds({"s%d" % i: so for i, so in enumerate(m.stream_objects)}, 2)
            elif reuse_streams == "simple":
                # the streams keep their ORIGINAL seeds; every replication is prepared with the library's default
                # updater for replication number 2 (seed = f(name, original seed, 2), whatever happened before)
                from pydsol.core.streams import SimpleStreamUpdater
                if [so.original_seed() for so in m.stream_objects] != list(m.seeds):
                    m.stream_objects = [MersenneTwister(s) for s in m.seeds]
                SimpleStreamUpdater().update_seeds({"s%d" % i: so for i, so in enumerate(m.stream_objects)}, 2)
            elif reuse_streams == "updater":
                # the experiment idiom: long-lived named streams, seeded for the replication by a StreamSeedUpdater
                from pydsol.core.streams import StreamSeedUpdater
                named = {"s%d" % i: so for i, so in enumerate(m.stream_objects)}
                StreamSeedUpdater({"s%d" % i: [sd] for i, sd in enumerate(m.seeds)}).update_seeds(named, 0)
            else:
                for so, sd in zip(m.stream_objects, m.seeds):
                    so.set_seed(sd)
            m.streams = m.stream_objects
        else:
            m.streams = [MersenneTwister(s) for s in m.seeds]
        if default_info:
            from pydsol.core.streams import StreamInformation
            if m.seeds and m.seeds[0] % 2 == 0:
                m.stream_info = StreamInformation()
                m.streams = [m.stream_info.get_stream("default")] + list(m.streams[1:])
            else:
                # the model keeps ONE StreamInformation for its whole life and registers the streams of the
                # replication under the same ids every time it is constructed
                if getattr(m, "stream_info_kept", None) is None:
                    m.stream_info_kept = StreamInformation()
                m.stream_info = m.stream_info_kept
                for i_, so_ in enumerate(m.streams):
                    m.stream_info.add_stream("default" if i_ == 0 else "s%d" % i_,
                                             MersenneTwister(10) if i_ == 0 else so_)
                m.streams = [m.stream_info.get_stream("default" if i_ == 0 else "s%d" % i_)
                             for i_ in range(len(m.streams))]
        # distributions on the streams: created per replication, or (with reuse_streams) long-lived objects whose
        # stream is assigned again after the re-seeding - the way a model re-uses its distributions in an experiment
        from pydsol.core.distributions import DistNormal, DistExponential, DistLogNormal, DistUniform, DistTriangular
        ns_ = len(m.streams)
        if reuse_streams and getattr(m, "dist_objects", None) and len(m.dist_objects[0]) == ns_:
            for per_stream, st_obj in zip(zip(*m.dist_objects), m.streams):
                for d_ in per_stream:
                    d_.stream = st_obj
        else:
            m.dist_objects = [[DistNormal(so, 1.0, 0.5) for so in m.streams],
                              [DistExponential(so, 1.0) for so in m.streams],
                              [DistLogNormal(so, 0.0, 0.25) for so in m.streams],
                              [DistUniform(so, 0.0, 2.0) for so in m.streams],
                              [DistTriangular(so, 0.0, 1.0, 3.0) for so in m.streams]]
        m.draws = []
        m.reinit_log = []
        if with_stats:
            from pydsol.core.statistics import SimCounter, SimTally, SimWeightedTally, SimPersistent
            sim = m.simulator
            if long_lived_producers:
                # the data producers outlive a replication (e.g. the model itself is the EventProducer, as in the
                # repository's own StatisticsModel test); the statistics are still rebuilt by construct_model
                if m.producer_objects is None:
                    m.producer_objects = {k: EventProducer() for k in "ctwp"}
                    # two ordinary listeners of the tally's data (a logger and a monitor) that live as long as
                    # the producer; they are notified in subscription order and each takes a number from stream 0
                    from pydsol.core.pubsub import EventListener
                    from pydsol.core.interfaces import StatEvents as _SE

                    class Ordinary(EventListener):
                        def __init__(self, tag):
                            self.tag = tag

                        def notify(self, event):
                            if m.streams:
                                m.draws.append([self.tag, float(m.streams[0].next_float()).hex()])
                    m.ordinary = [Ordinary("A"), Ordinary("B")]
                    m.pending_ordinary = True
                m.prod = m.producer_objects
            else:
                m.prod = {k: EventProducer() for k in "ctwp"}
            m.stats = {
                "c": SimCounter("cnt", "counter", sim),
                "t": SimTally("tal", "tally", sim),
                "w": SimWeightedTally("wt", "weighted", sim),
                "p": SimPersistent("per", "persistent", sim),
            }
            # (passing producer= without event_type= to the constructor raises TypeError in pydsol:
            #  it forwards event_type=None to listen_to; listen_to with its default works)
            for k, s_ in m.stats.items():
                s_.listen_to(m.prod[k])
                if two_types:
                    s_.listen_to(m.prod[k], alt_types()[k])
            if long_lived_producers and getattr(m, "pending_ordinary", False):
                from pydsol.core.interfaces import StatEvents as _SE2
                m.pending_ordinary = False
                for o in m.ordinary:            # subscribed once, AFTER the statistic of the first replication
                    m.prod["t"].add_listener(_SE2.DATA_EVENT, o)
            m.obs_n = 0

    def action(m, a):
        from pydsol.core.interfaces import StatEvents
        sim = m.simulator
        k = a[0]
        ns = len(m.streams)
        ET = {"c": StatEvents.DATA_EVENT, "t": StatEvents.DATA_EVENT, "w": StatEvents.WEIGHT_DATA_EVENT,
              "p": StatEvents.TIMESTAMP_DATA_EVENT}
        if with_stats and k.startswith("obs_"):
            m.obs_n += 1
            if two_types and m.obs_n % 2:
                ET = alt_types()
        if k == "rel_rand":
            if m.seq >= m.cap or not m.prog["nodes"] or not ns:
                return
            u = m.streams[a[1] % ns].next_float()
            m.draws.append(float(u).hex())
            scale = dec_sut(a[2])
            if isinstance(scale, int) and not isinstance(scale, bool):
                d = int(u * scale)
            else:
                d = scale * u           # float * float, or Duration * float -> Duration
            m._sched("rel", d, a[3] % len(m.prog["nodes"]), a[4])
        elif k == "draw_dist":
            if not ns:
                return
            x = m.dist_objects[a[2] % len(m.dist_objects)][a[1] % ns].draw()
            m.draws.append(float(x).hex())
        elif k == "rel_dist":
            if m.seq >= m.cap or not m.prog["nodes"] or not ns:
                return
            x = abs(float(m.dist_objects[a[2] % len(m.dist_objects)][a[1] % ns].draw()))
            m.draws.append(x.hex())
            scale = dec_sut(a[3])
            if isinstance(scale, int) and not isinstance(scale, bool):
                d = int(x * scale)
            else:
                d = scale * x
            m._sched("rel", d, a[4] % len(m.prog["nodes"]), a[5])
        elif k == "draw":
            if not ns:
                return
            s = m.streams[a[1] % ns]
            if a[2] == "f":
                m.draws.append(float(s.next_float()).hex())
            elif a[2] == "b":
                m.draws.append(repr(s.next_bool()))
            else:
                m.draws.append(s.next_int(-3, 12))
        elif k == "obs_c" and with_stats:
            m.prod["c"].fire(ET["c"], a[1])
        elif k == "obs_t" and with_stats:
            m.prod["t"].fire(ET["t"], float.fromhex(a[1]))
        elif k == "obs_t_rand" and with_stats and ns:
            m.prod["t"].fire(ET["t"], m.streams[a[1] % ns].next_float() * 10.0)
        elif k == "obs_w" and with_stats:
            m.prod["w"].fire(ET["w"], (float.fromhex(a[1]), float.fromhex(a[2])))
        elif k == "obs_p" and with_stats:
            m.prod["p"].fire_timed(sim.simulator_time, ET["p"], float.fromhex(a[1]))
        elif k == "obs_p_rand" and with_stats and ns:
            m.prod["p"].fire_timed(sim.simulator_time, ET["p"],
                                   float(m.streams[a[1] % ns].next_int(0, 5)))
        elif k == "cancel_old":
            # cancel an event of an EARLIER replication (a handle the model kept): nothing to cancel, no effect
            if m.old_events:
                sim.cancel_event(m.old_events[a[1] % len(m.old_events)])
        elif k == "reinit":
            if not sim.is_starting_or_running():
                return                   # only 'initialising while running' is specified (not from construct_model)
            try:
                sim.initialize(m, sim.replication)
                m.reinit_log.append("accepted")
            except Exception as e:
                m.reinit_log.append(type(e).__name__)

    model.extra_construct = construct
    model.extra_action = action


def stoch_actions(with_stats=True, reinit=False, cancel_old=False):
    """factory for program_strategy(extra_actions=...)"""
    def make(clock):
        node = st.integers(0, 999)
        stream = st.integers(0, 5)
        if clock == "float":
            scale = st.sampled_from([1.0, 2.0, 3.0, 0.5, 10.0]).map(fx)
        elif clock == "int":
            scale = st.sampled_from([2, 3, 5, 10])
        else:
            scale = st.sampled_from([[fx(1.0), "min"], [fx(30.0), "s"], [fx(2.0), "min"], [fx(0.01), "h"]])
        val = st.one_of(st.sampled_from([0.0, 1.0, 2.0, 2.0, 5.5, -1.0, 100.0]), st.floats(-50, 50)).map(fx)
        wgt = st.one_of(st.sampled_from([0.0, 1.0, 1.0, 2.0, 0.5]), st.floats(0, 10)).map(fx)
        acts = [
            (30, st.tuples(st.just("rel_rand"), stream, scale, node, PRIO)),
            (8, st.tuples(st.just("draw"), stream, st.sampled_from(["f", "b", "i"]))),
            (6, st.tuples(st.just("draw_dist"), stream, st.integers(0, 4))),
            (8, st.tuples(st.just("rel_dist"), stream, st.integers(0, 4), scale, node, PRIO)),
        ]
        if with_stats:
            acts += [
                (8, st.tuples(st.just("obs_c"), st.integers(-3, 5))),
                (8, st.tuples(st.just("obs_t"), val)),
                (6, st.tuples(st.just("obs_t_rand"), stream)),
                (8, st.tuples(st.just("obs_w"), wgt, val)),
                (8, st.tuples(st.just("obs_p"), val)),
                (6, st.tuples(st.just("obs_p_rand"), stream)),
            ]
        if reinit:
            acts.append((2, st.tuples(st.just("reinit"))))
        if cancel_old:
            acts.append((4, st.tuples(st.just("cancel_old"), st.integers(0, 39))))
        return acts
    return make


def full_digest(h):
    """everything observable about a finished replication"""
    m = h.model
    d = {"trace": m.trace, "clock": enc_val(float(h.sim.simulator_time)) if isinstance(h.sim.simulator_time, float)
         else h.sim.simulator_time,
         "notifications": h.rec.log, "draws": getattr(m, "draws", None),
         "state": [h.sim.run_state.name, h.sim.replication_state.name]}
    if getattr(m, "stats", None):
        d["stats"] = {k: stat_digest(s) for k, s in m.stats.items()}
    return d
