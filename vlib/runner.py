"""Runner: drives one property module with Hypothesis over N shards, collects
measurements, shrinks failures, writes evidence and replay files.

A property module exposes
    ID, RULE, ASSUMPTIONS, NONTRIVIAL_FLOOR
    budget(tier)            -> {"examples": int, "shards": int}
    strategy(tier)          -> Hypothesis strategy of JSON-serialisable cases
    run_case(case)          -> Outcome          (pure interpreter, no Hypothesis)
    enumerate_cases(tier)   -> list of cases    (optional, exhaustive sub-domain)
    parent_checks(tier, seed) -> (list[Outcome-like dict], extra_evidence) (optional)

Exit codes: 0 held, 1 violation (VIOLATION line printed), 2 harness error.
"""
import collections
import fnmatch
import hashlib
import importlib
import json
import os
import sys
import time
import traceback

from vlib import VERIF_DIR

KNOWN_FILE = os.path.join(VERIF_DIR, "known_findings.json")


MAX_FAILING_CASES = 25      # per shard: after that many failing cases the search stops (the tree is broken)


class Inconclusive(Exception):
    """A case could not be decided (liveness guard, budget) - never a violation."""


def sut_raised(exc):
    """True when the innermost frame of the exception lies in the code under test (and not in the harness):
    an exception that a valid operation of the library lets escape, as opposed to a bug of the check"""
    import vlib
    tb = exc.__traceback__
    last = None
    while tb is not None:
        last = tb.tb_frame.f_code.co_filename
        tb = tb.tb_next
    return bool(last) and os.path.abspath(last).startswith(os.path.abspath(vlib.SRC))


class Outcome:
    __slots__ = ("disc", "labels", "nontrivial", "info", "digest_extra")

    def __init__(self):
        self.disc = []
        self.labels = set()
        self.nontrivial = False
        self.info = None
        self.digest_extra = None

    def fail(self, kind, detail=None):
        if len(self.disc) < 20:
            self.disc.append({"kind": str(kind), "detail": _short(detail)})

    def label(self, *names):
        for n in names:
            self.labels.add(n)

    @property
    def ok(self):
        return not self.disc


def _short(x, limit=600):
    try:
        s = x if isinstance(x, str) else json.dumps(x, default=repr, sort_keys=True)
    except Exception:
        s = repr(x)
    return s if len(s) <= limit else s[:limit] + "...(%d chars)" % len(s)


def canon(case):
    return json.dumps(case, sort_keys=True, separators=(",", ":"), default=repr)


def digest(case):
    return hashlib.blake2b(canon(case).encode(), digest_size=8).digest()


# ----------------------------------------------------------------------------
# known findings
# ----------------------------------------------------------------------------

def load_findings(prop_id):
    if not os.path.exists(KNOWN_FILE):
        return [], []
    with open(KNOWN_FILE) as f:
        data = json.load(f)
    entries = [e for e in data.get("findings", []) if e.get("property") == prop_id]
    open_ = [e for e in entries if e.get("status") == "open"]
    fixed = [e for e in entries if e.get("status") == "fixed"]
    return open_, fixed


def known_match(open_findings, kind):
    for e in open_findings:
        for pat in e.get("kinds", []):
            if fnmatch.fnmatchcase(kind, pat):
                return e["id"]
    return None


# ----------------------------------------------------------------------------
# statistics of a run
# ----------------------------------------------------------------------------

class Stats:
    def __init__(self):
        self.evaluations = 0
        self.generated = 0
        self.nontrivial = set()
        self.nontrivial_generated = 0
        self.labels = collections.Counter()
        self.samples = []
        self.known_hits = collections.Counter()
        self.inconclusive = 0
        self.failures = {}      # kind -> {"case":..., "disc":[...]}
        self.errors = []

    def to_dict(self):
        return {"evaluations": self.evaluations, "generated": self.generated,
                "nontrivial": list(self.nontrivial),
                "nontrivial_generated": self.nontrivial_generated,
                "labels": dict(self.labels), "samples": self.samples,
                "known_hits": dict(self.known_hits),
                "inconclusive": self.inconclusive, "failures": self.failures,
                "errors": self.errors}

    def merge(self, d):
        self.evaluations += d["evaluations"]
        self.generated += d["generated"]
        self.nontrivial.update(d["nontrivial"])
        self.nontrivial_generated += d["nontrivial_generated"]
        self.labels.update(d["labels"])
        for s in d["samples"]:
            if len(self.samples) < 4:
                self.samples.append(s)
        self.known_hits.update(d["known_hits"])
        self.inconclusive += d["inconclusive"]
        for k, v in d["failures"].items():
            old = self.failures.get(k)
            if old is None or len(canon(v["case"])) < len(canon(old["case"])):
                self.failures[k] = v
        self.errors.extend(d["errors"])


class Executor:
    """Runs cases through mod.run_case and books the measurements."""

    def __init__(self, mod, open_findings):
        self.mod = mod
        self.open = open_findings
        self.stats = Stats()
        self.failing_cases = 0

    def execute(self, case, generated=True, count=True):
        """Return the list of (unknown) discrepancy kinds of this case."""
        st = self.stats
        try:
            out = self.mod.run_case(case)
        except Inconclusive:
            if count:
                st.inconclusive += 1
            return [], None
        except Exception as e:
            # every case a module generates consists of operations the module expects the library to carry out (or
            # to refuse in a way the module handles itself): an exception whose innermost frame lies in the library
            # and that the module did not anticipate is a failure of the library, not of the harness
            if not sut_raised(e):
                raise
            import traceback
            out = Outcome()
            out.fail("unexpected-exception-from-library:" + type(e).__name__, traceback.format_exc()[-700:])
        if count:
            st.evaluations += 1
            if generated:
                st.generated += 1
            for lb in out.labels:
                st.labels[lb] += 1
            if out.nontrivial:
                st.nontrivial.add(digest(case).hex())
                if generated:
                    st.nontrivial_generated += 1
                if len(st.samples) < 3:
                    st.samples.append({"case": _shrink_sample(case),
                                       "labels": sorted(out.labels),
                                       "info": out.info})
        kinds = []
        for d in out.disc:
            kid = known_match(self.open, d["kind"])
            if kid is not None:
                if count:
                    st.known_hits[kid] += 1
            else:
                kinds.append(d["kind"])
        if kinds and count:
            self.failing_cases += 1
        return kinds, out


def _shrink_sample(case):
    s = canon(case)
    if len(s) <= 3000:
        return case
    return {"truncated_json": s[:3000] + "...", "length": len(s)}


# ----------------------------------------------------------------------------
# one shard (runs in a worker process)
# ----------------------------------------------------------------------------

def shard_seed(seed, shard, salt=0):
    h = hashlib.blake2b(("%d/%d/%d" % (seed, shard, salt)).encode(), digest_size=8)
    return int.from_bytes(h.digest(), "big")


def _quiet_process():
    devnull = open(os.devnull, "w")
    sys.stdout = devnull
    sys.stderr = devnull
    import logging
    logging.disable(logging.CRITICAL)


def run_shard(args):
    modname, tier, seed, shard, nshards, n_examples, shrink_seconds = args
    _quiet_process()
    try:
        return _run_shard(modname, tier, seed, shard, nshards, n_examples, shrink_seconds)
    except BaseException:
        st = Stats()
        st.errors.append("shard %d: %s" % (shard, traceback.format_exc()))
        return st.to_dict()


def _run_shard(modname, tier, seed, shard, nshards, n_examples, shrink_seconds):
    import hypothesis
    from hypothesis import given, settings, HealthCheck, Phase, Verbosity
    import hypothesis.internal.conjecture.engine as engine
    engine.MAX_SHRINKING_SECONDS = shrink_seconds

    mod = importlib.import_module(modname)
    open_f, _ = load_findings(mod.ID)
    ex = Executor(mod, open_f)
    st = ex.stats

    # exhaustive sub-domain, sliced over the shards
    enum = getattr(mod, "enumerate_cases", None)
    if enum is not None:
        for i, case in enumerate(enum(tier)):
            if i % nshards != shard:
                continue
            if ex.failing_cases + ex.stats.inconclusive >= MAX_FAILING_CASES:
                break                  # a broken tree: enough evidence, do not grind through the rest
            kinds, out = ex.execute(case, generated=False)
            for k in kinds:
                if k not in st.failures:
                    st.failures[k] = {"case": case, "disc": out.disc, "origin": "enumerated"}

    if n_examples > 0:
        strat = mod.strategy(tier)
        hseed = shard_seed(seed, shard)
        common = dict(database=None, deadline=None, derandomize=False,
                      report_multiple_bugs=False,
                      suppress_health_check=list(HealthCheck),
                      verbosity=Verbosity.quiet)

        first = {}

        class _Enough(Exception):
            pass

        @hypothesis.seed(hseed)
        @settings(max_examples=n_examples, phases=[Phase.generate], **common)
        @given(strat)
        def collect(case):
            if ex.failing_cases + ex.stats.inconclusive >= MAX_FAILING_CASES:
                raise _Enough()
            kinds, out = ex.execute(case)
            for k in kinds:
                if k not in first:
                    first[k] = {"case": case, "disc": out.disc, "origin": "generated"}

        try:
            collect()
        except _Enough:
            pass

        # collect-then-shrink: one pass per distinct failure kind (at most 3)
        def shrink_kind(k):
            best = {"v": first[k]}

            class _Hit(Exception):
                pass

            @hypothesis.seed(hseed)
            @settings(max_examples=n_examples, phases=[Phase.generate, Phase.shrink], **common)
            @given(strat)
            def hunt(case):
                kinds, out = ex.execute(case, count=False)
                if k in kinds:
                    best["v"] = {"case": case, "disc": out.disc, "origin": "shrunk"}
                    raise _Hit()

            try:
                hunt()
            except _Hit:
                pass
            except Exception as e:
                # e.g. Flaky: keep the best case seen so far, but say so
                best["v"] = dict(best["v"], shrink_note="%s: %s" % (type(e).__name__, str(e)[:200]))
            return best["v"]

        for k in list(first)[:3]:
            first[k] = shrink_kind(k)
        for k, v in first.items():
            if k not in st.failures:
                st.failures[k] = v
    return st.to_dict()


# ----------------------------------------------------------------------------
# the check (parent process)
# ----------------------------------------------------------------------------

def _san(s):
    return "".join(c if c.isalnum() or c in "-_." else "_" for c in s)[:80]


def write_replay(prop_id, kind, payload):
    d = os.path.join(VERIF_DIR, "replays", prop_id)
    os.makedirs(d, exist_ok=True)
    h = hashlib.blake2b(canon(payload.get("case")).encode(), digest_size=4).hexdigest()
    path = os.path.join(d, "%s-%s.json" % (_san(kind), h))
    with open(path, "w") as f:
        json.dump(payload, f, indent=1, sort_keys=True, default=repr)
    return path


def load_corpus(prop_id):
    d = os.path.join(VERIF_DIR, "corpus", prop_id)
    out = []
    if os.path.isdir(d):
        for name in sorted(os.listdir(d)):
            if name.endswith(".json"):
                with open(os.path.join(d, name)) as f:
                    out.append((name, json.load(f)))
    return out


def run_check(modname, tier, seed):
    t0 = time.time()
    import contextlib
    import io
    mod = importlib.import_module(modname)
    pid = mod.ID
    open_f, fixed_f = load_findings(pid)
    ex = Executor(mod, open_f)
    st = ex.stats
    violations = []          # (kind, payload)
    known_lines = []
    notes = []

    sink = io.StringIO()

    def quiet_exec(case, **kw):
        with contextlib.redirect_stdout(sink), contextlib.redirect_stderr(sink):
            r = ex.execute(case, **kw)
        sink.seek(0)
        sink.truncate()
        return r

    # the worker pool is forked first (before any case runs in this process)
    b = mod.budget(tier)
    nshards = max(1, int(b.get("shards", 1)))
    total = int(b.get("examples", 0))
    per = (total + nshards - 1) // nshards if total else 0
    shrink_seconds = b.get("shrink_seconds", 20 if tier == "quick" else 120)
    jobs = [(modname, tier, seed, s, nshards, per, shrink_seconds) for s in range(nshards)]
    import multiprocessing as mp
    pool = mp.get_context("fork").Pool(min(nshards, os.cpu_count() or 1))
    async_res = pool.map_async(run_shard, jobs, chunksize=1)

    # 1. regression corpus (every shrunk failure ever found, fixed-finding repros)
    for name, entry in load_corpus(pid):
        kinds, out = quiet_exec(entry["case"], generated=False)
        for k in kinds:
            violations.append((k, {"case": entry["case"], "disc": out.disc,
                                   "origin": "corpus/" + name}))
    for e in fixed_f:
        if "repro" in e:
            kinds, out = quiet_exec(e["repro"], generated=False)
            for k in kinds:
                violations.append((k, {"case": e["repro"], "disc": out.disc,
                                       "origin": "fixed-finding " + e.get("commit", "?")}))

    # 2. open known findings: replay the reproducer
    for e in open_f:
        if "repro" not in e:
            known_lines.append("KNOWN-FINDING: property=%s %s: %s" % (pid, e["id"], e["what"]))
            continue
        with contextlib.redirect_stdout(sink), contextlib.redirect_stderr(sink):
            try:
                out = mod.run_case(e["repro"])
            except Inconclusive:
                out = None
        sink.seek(0)
        sink.truncate()
        hit = out is not None and any(known_match([e], d["kind"]) for d in out.disc)
        if hit:
            known_lines.append("KNOWN-FINDING: property=%s %s: %s" % (pid, e["id"], e["what"]))
            st.known_hits[e["id"]] += 1
        else:
            notes.append("note: known finding %s no longer reproduces" % e["id"])
        if out is not None:
            for d in out.disc:
                if known_match(open_f, d["kind"]) is None:
                    violations.append((d["kind"], {"case": e["repro"], "disc": out.disc,
                                                   "origin": "known-finding repro " + e["id"]}))

    # 3. generated + enumerated cases over the shards
    results = async_res.get()
    # terminate (not close/join): on a broken tree a case may leak a non-daemon simulator thread, and a worker
    # process that exits normally would wait for it for ever
    pool.terminate()
    pool.join()
    for r in results:
        st.merge(r)
    for k, v in st.failures.items():
        violations.append((k, v))

    # 4. checks that need the parent (child interpreters etc.)
    extra_ev = {}
    pc = getattr(mod, "parent_checks", None)
    if pc is not None and not st.errors:
        try:
            res = pc(tier, seed)
        except Inconclusive as e:
            st.errors.append("parent_checks inconclusive: %s" % e)
            res = None
        if res:
            for item in res.get("violations", []):
                kid = known_match(open_f, item["kind"])
                if kid is not None:
                    st.known_hits[kid] += 1
                else:
                    violations.append((item["kind"], item))
            st.evaluations += res.get("evaluations", 0)
            st.nontrivial.update(res.get("nontrivial", []))
            st.labels.update(res.get("labels", {}))
            for s in res.get("samples", []):
                if len(st.samples) < 5:
                    st.samples.append(s)
            extra_ev = res.get("evidence", {})

    # 5. verdict
    wall = time.time() - t0
    seen = set()
    vio_lines = []
    for k, payload in violations:
        if k in seen:
            continue
        seen.add(k)
        payload = dict(payload)
        payload.update({"property": pid, "kind": k, "seed": seed, "tier": tier})
        path = write_replay(pid, k, payload)
        vio_lines.append("VIOLATION property=%s replay=%s" % (pid, path))
        vio_lines.append("  kind=%s detail=%s" % (k, _short(payload.get("disc", payload.get("detail")), 300)))

    floor = getattr(mod, "NONTRIVIAL_FLOOR", 0.0)
    harness_error = None
    if st.errors:
        harness_error = "harness errors (%d): " % len(st.errors) + st.errors[0][-1500:]
    elif st.generated and st.nontrivial_generated / st.generated < floor:
        harness_error = ("non-trivial fraction %.3f below floor %.3f - generator broken"
                         % (st.nontrivial_generated / st.generated, floor))
    elif st.evaluations and st.inconclusive > max(5, 0.02 * st.evaluations):
        harness_error = "too many inconclusive cases: %d of %d" % (st.inconclusive, st.evaluations)

    coverage = {
        "evaluations": st.evaluations,
        "distinct_nontrivial": len(st.nontrivial),
        "rule": mod.RULE,
        "samples": st.samples,
        "generated_by_hypothesis": st.generated,
        "nontrivial_fraction_generated": round(st.nontrivial_generated / st.generated, 4) if st.generated else None,
        "labels": dict(sorted(st.labels.items())),
        "known_finding_hits": dict(st.known_hits),
        "inconclusive": st.inconclusive,
        "shards": nshards,
    }
    coverage.update(extra_ev)
    exh = getattr(mod, "EXHAUSTIVE_NOTE", None)
    if exh:
        coverage["exhaustive_subdomain"] = exh
    evidence = {
        "property_id": pid, "tier": tier, "seed": seed, "level": "exploration",
        "coverage": coverage, "assumptions": list(mod.ASSUMPTIONS),
        "wall_s": round(wall, 2), "violations": len(seen),
    }
    if harness_error:
        evidence["coverage"]["harness_error"] = harness_error
    # runs against a scratch copy (mutants, seeded changes: VERIF_REPO != /repo) never touch the real evidence
    import vlib as _vlib
    ev_dir = os.path.join(VERIF_DIR, "evidence") if os.path.abspath(_vlib.REPO) == "/repo" else \
        os.path.join(VERIF_DIR, "evidence", "scratch")
    os.makedirs(ev_dir, exist_ok=True)
    with open(os.path.join(ev_dir, pid + ".json"), "w") as f:
        json.dump(evidence, f, indent=1, sort_keys=True, default=repr)

    for line in known_lines:
        print(line)
    for line in notes:
        print(line)
    print("%s tier=%s seed=%d evaluations=%d nontrivial=%d known_hits=%s wall=%.1fs"
          % (pid, tier, seed, st.evaluations, len(st.nontrivial), dict(st.known_hits), wall))
    if vio_lines:
        for line in vio_lines:
            print(line)
        return 1
    if harness_error:
        print("HARNESS-ERROR property=%s %s" % (pid, harness_error))
        return 2
    return 0


def run_replay(modname, path):
    mod = importlib.import_module(modname)
    with open(path) as f:
        payload = json.load(f)
    case = payload["case"] if isinstance(payload, dict) and "case" in payload else payload
    open_f, _ = load_findings(mod.ID)
    try:
        out = mod.run_case(case)
    except Inconclusive as e:
        print("inconclusive: %s" % e)
        return 2
    except Exception as e:
        if not sut_raised(e):
            raise
        import traceback
        out = Outcome()
        out.fail("unexpected-exception-from-library:" + type(e).__name__, traceback.format_exc()[-700:])
    bad = [d for d in out.disc if known_match(open_f, d["kind"]) is None]
    known = [d for d in out.disc if known_match(open_f, d["kind"]) is not None]
    for d in known:
        print("KNOWN-FINDING: property=%s %s" % (mod.ID, d["kind"]))
    print("labels:", sorted(out.labels), "nontrivial:", out.nontrivial)
    if bad:
        for d in bad:
            print("  discrepancy kind=%s detail=%s" % (d["kind"], d["detail"]))
        print("VIOLATION property=%s replay=%s" % (mod.ID, os.path.abspath(path)))
        return 1
    print("replay holds")
    return 0
