"""Hypothesis strategies for model programs (see vlib/simharness.py for the format)."""
from hypothesis import strategies as st


def fx(x):
    return float(x).hex()


PRIO = st.one_of(st.sampled_from([1, 5, 5, 5, 5, 10, 10, 4, 6, 11, 0, -1]), st.integers(-100, 100))

_F_DELAY = [0.0, 0.0, 0.5, 1.0, 1.0, 2.0, 0.25, 3.0, 10.0, 0.1, 0.2, 0.30000000000000004]
_F_ABS = [0.0, 1.0, 2.0, 2.5, 5.0, 10.0, 7.0, 20.0]
_I_DELAY = [0, 0, 1, 1, 2, 3, 5, 10]
_I_BIG = [2 ** 60, 2 ** 60 + 1, 2 ** 60 + 2, 2 ** 60 + 3, 2 ** 53, 2 ** 53 + 1]   # distinct ints, same float
_I_ABS = [0, 1, 2, 3, 5, 10, 7, 20]
_D_DELAY = [[fx(0.0), "s"], [fx(1.0), "s"], [fx(60.0), "s"], [fx(1.0), "min"], [fx(0.5), "min"],
            [fx(30.0), "s"], [fx(1000.0), "ms"], [fx(2.0), "min"], [fx(0.0), "h"], [fx(120.0), "s"],
            [fx(0.1), "s"], [fx(100.0), "ms"]]
_D_ABS = [[fx(0.0), "s"], [fx(60.0), "s"], [fx(1.0), "min"], [fx(5.0), "min"], [fx(300.0), "s"],
          [fx(10.0), "min"], [fx(0.1), "h"], [fx(360.0), "s"], [fx(600.0), "s"]]


def delay_strategy(clock, legal=True):
    if clock == "float":
        if legal:
            return st.one_of(st.sampled_from(_F_DELAY).map(fx),
                             st.floats(0.0, 30.0).map(fx),
                             st.sampled_from([5e-324, 1e-9, 1e300, float("inf")]).map(fx))
        return st.one_of(st.sampled_from([-1.0, -0.5, -5e-324, -1e300, float("-inf"), -1e-10, -1e-12, -4e-16]).map(fx),
                         st.floats(-30.0, -1e-9).map(fx))
    if clock == "int":
        if legal:
            return st.one_of(st.sampled_from(_I_DELAY), st.integers(0, 30), st.integers(0, 2 ** 100),
                             st.sampled_from(_I_BIG))
        # (a fractional negative delay on an integer clock is a negative delay like any other)
        return st.one_of(st.sampled_from([-1, -2, -10]), st.integers(-2 ** 100, -1),
                         st.sampled_from([-0.5, -0.25, -1e-9]).map(fx))
    if legal:
        return st.one_of(st.sampled_from(_D_DELAY),
                         st.tuples(st.floats(0.0, 30.0).map(fx), st.sampled_from(["s", "min", "ms"])).map(list))
    return st.tuples(st.floats(-30.0, -1e-9).map(fx), st.sampled_from(["s", "min", "ms"])).map(list)


def abs_strategy(clock):
    if clock == "float":
        return st.one_of(st.sampled_from(_F_ABS).map(fx), st.floats(-5.0, 40.0).map(fx),
                         st.sampled_from([float("inf"), float("-inf"), -0.0]).map(fx))
    if clock == "int":
        return st.one_of(st.sampled_from(_I_ABS), st.integers(-5, 40))
    return st.one_of(st.sampled_from(_D_ABS),
                     st.tuples(st.floats(-60.0, 1200.0).map(fx), st.just("s")).map(list))


def rep_strategy(clock):
    if clock == "float":
        # (an int start time with float lengths is common: SingleReplication("rep", 0, 0.0, 10.5))
        start = st.one_of(st.sampled_from([0.0, 0.0, 0.0, 5.0, -3.0, 100.0, 0.1]).map(fx), st.sampled_from([0, 0, 5, -3]))
        length = st.one_of(st.sampled_from([10.0, 10.0, 5.0, 1.0, 20.0, 0.5, 7.0, 10.5, 2.25]), st.floats(0.1, 40.0)).map(fx)
        warm = st.one_of(st.sampled_from([0.0, 0.0, 1.0, 2.0, 2.5, 5.0, 10.0, 50.0]), st.floats(0.0, 12.0)).map(fx)
    elif clock == "int":
        start = st.sampled_from([0, 0, 0, 5, -3, 100])
        length = st.one_of(st.sampled_from([10, 10, 5, 1, 20, 7, 2 ** 62]), st.integers(1, 40))
        warm = st.one_of(st.sampled_from([0, 0, 1, 2, 5, 10, 50]), st.integers(0, 12))
    else:
        start = st.sampled_from([[fx(0.0), "s"], [fx(0.0), "s"], [fx(1.0), "min"], [fx(30.0), "s"]])
        length = st.sampled_from([[fx(10.0), "min"], [fx(600.0), "s"], [fx(5.0), "min"], [fx(0.1), "h"],
                                  [fx(1.0), "min"], [fx(20.0), "min"]])
        warm = st.sampled_from([[fx(0.0), "s"], [fx(1.0), "min"], [fx(60.0), "s"], [fx(2.0), "min"],
                                [fx(5.0), "min"], [fx(1.0), "h"]])
    return st.fixed_dictionaries({"start": start, "warmup": warm, "length": length})


def action_strategy(clock, illegal=True, cancel=True, extra=None, prio=None):
    PRIO = prio if prio is not None else globals()['PRIO']
    node = st.integers(0, 999)
    d = delay_strategy(clock)
    acts = [
        (18, st.tuples(st.just("now"), node, PRIO)),
        (40, st.tuples(st.just("rel"), d, node, PRIO)),
        (10, st.tuples(st.just("abs_off"), d, node, PRIO)),
        (8, st.tuples(st.just("abs_t"), abs_strategy(clock), node, PRIO)),
        (4, st.tuples(st.just("ev_off"), d, node, PRIO)),
        (3, st.tuples(st.just("ev_t"), abs_strategy(clock), node, PRIO)),
    ]
    if cancel:
        acts.append((12, st.tuples(st.just("cancel"), st.integers(0, 999))))
        acts.append((2, st.tuples(st.just("again"))))
    if illegal:
        acts.append((4, st.tuples(st.just("rel"), delay_strategy(clock, legal=False), node, PRIO)))
        # a time (slightly or clearly) before the clock through schedule_event_abs and schedule_event(SimEvent(..))
        acts.append((2, st.tuples(st.just("abs_off"), delay_strategy(clock, legal=False), node, PRIO)))
        acts.append((3, st.tuples(st.just("ev_off"), delay_strategy(clock, legal=False), node, PRIO)))
        bad = ["none_abs", "str_abs", "str_rel", "none_rel"]
        if clock != "int":
            bad += ["nan_abs", "nan_rel", "nan_ev", "nan_abs", "nan_rel"]
        acts.append((4, st.tuples(st.just("bad"), st.sampled_from(bad))))
    if extra:
        acts.extend(extra)
    total = sum(w for w, _ in acts)

    @st.composite
    def one(draw):
        r = draw(st.integers(0, total - 1))
        for w, s in acts:
            if r < w:
                return list(draw(s))
            r -= w
    return one()


def program_strategy(clocks=("float", "int", "duration"), max_nodes=24, illegal=True, cancel=True,
                     extra_actions=None, max_actions=4, cap=300, prio=None):
    @st.composite
    def prog(draw):
        clock = draw(st.sampled_from(list(clocks)))
        act = action_strategy(clock, illegal, cancel, extra_actions(clock) if extra_actions else None, prio)
        nn = draw(st.integers(1, max_nodes))
        nodes = [draw(st.lists(act, min_size=0, max_size=max_actions)) for _ in range(nn)]
        root = draw(st.lists(act, min_size=1, max_size=6))
        p = {"clock": clock, "rep": draw(rep_strategy(clock)), "root": root, "nodes": nodes, "cap": cap}
        if clock == "duration":
            p["display_unit"] = draw(st.sampled_from(["s", "min", "h"]))
        return p
    return prog()
