"""Common environment for the /verif machinery.

Importing this package puts the code under test (``$VERIF_REPO/src``, default
``/repo/src``) first on ``sys.path`` so that every check runs against the
*current working tree* of the repository (pure Python: the import is the
rebuild), and the offline third-party directory ``/verif/.deps`` last.
"""
import os
import sys

sys.dont_write_bytecode = True

VERIF_DIR = os.path.dirname(os.path.dirname(os.path.abspath(__file__)))
REPO = os.environ.get("VERIF_REPO", "/repo")
SRC = os.path.join(REPO, "src")
DEPS = os.path.join(VERIF_DIR, ".deps")

if SRC not in sys.path:
    sys.path.insert(0, SRC)
if DEPS not in sys.path:
    sys.path.append(DEPS)
if VERIF_DIR not in sys.path:
    sys.path.insert(1, VERIF_DIR)


def ensure_deps():
    """Install mpmath offline into /verif/.deps when it is missing."""
    try:
        import mpmath  # noqa: F401
        return True
    except ImportError:
        pass
    import subprocess
    cmd = [sys.executable, "-m", "pip", "install", "--quiet", "--no-index",
           "--find-links", "/opt/veriftools/wheels", "--target", DEPS,
           "mpmath"]
    subprocess.run(cmd, stdout=subprocess.DEVNULL, stderr=subprocess.DEVNULL)
    import importlib
    importlib.invalidate_caches()
    try:
        import mpmath  # noqa: F401
        return True
    except ImportError:
        return False


def check_sut_location():
    """Return the path pydsol was imported from (must be under SRC)."""
    import pydsol.core
    p = os.path.abspath(pydsol.core.__file__)
    return p
