#!/venv/bin/python
"""Markdown table of seeded changes for DESIGN.md section 11.
usage: tools/seeded_table.py 7 8      (suffixes; notes about first-time misses come from seeded/NOTES.json)"""
import glob
import json
import os
import re
import sys

HERE = os.path.dirname(os.path.dirname(os.path.abspath(__file__)))


def main():
    sufs = sys.argv[1:]
    notes = {}
    np_ = os.path.join(HERE, "seeded", "NOTES.json")
    if os.path.exists(np_):
        notes = json.load(open(np_))
    print("| change | what it needs to manifest | caught by (kinds) | note |\n|---|---|---|---|")
    for d in sorted(glob.glob(os.path.join(HERE, "seeded", "C*-*"))):
        name = os.path.basename(d)
        if name.split("-")[1] not in sufs:
            continue
        m = json.load(open(os.path.join(d, "meta.json")))
        ev = m.get("evaluation", {})
        prop = m.get("decided_by", m["property"])
        kinds = ", ".join(ev.get("checks", {}).get(prop, {}).get("kinds", []))
        clean = lambda s, n: re.sub(r"\s+", " ", s).replace("|", "/")[:n]
        status = "" if ev.get("caught") else "**NOT CAUGHT** "
        if not ev.get("caught") and ev.get("demo_patched_exit") == 0:
            status = "(equivalent on the repaired tree) "
        print("| %s %s | %s | %s%s %s | %s |" % (name, clean(m["summary"], 115), clean(m["needs_to_manifest"], 115),
                                               status, prop, clean(kinds, 95), notes.get(name, "")))


if __name__ == "__main__":
    main()
