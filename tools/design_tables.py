#!/venv/bin/python
"""Regenerate the block of DESIGN.md section 11 between the markers <!-- seeded:begin --> and <!-- seeded:end -->:
one table per later seeding round (6, 7, ...) plus a summary computed from seeded/*/meta.json.
usage: tools/design_tables.py            (rewrites DESIGN.md in place)"""
import glob
import json
import os
import re
import subprocess

HERE = os.path.dirname(os.path.dirname(os.path.abspath(__file__)))
FIRST_ROUND = 6          # rounds 1-5 are described by hand in DESIGN.md

ROUND_TEXT = {
    6: "the seeders were given the ten earlier changes per property and asked for an inventory of untouched functions first",
    7: "as round 6; additionally asked to think about what a downstream user does that the library's tests never do",
    8: "as round 7",
    9: "as round 8 (the C15 seeder failed to deliver, so there is no C15-17 / C15-18)",
    10: "as round 8; changes that only show for a user subclass overriding internals, that only make a getter return a copy or that only alias two names were declared unacceptable",
    11: "as round 10",
    12: "as round 10",
    13: "as round 10",
    14: "as round 10; changes whose effect only shows after printing a library object were declared unacceptable too",
    15: "as round 14",
    16: "as round 14; the seeders were asked to prefer code that the property itself is about",
    17: "as round 16",
    18: "as round 16",
    19: "as round 16",
    20: "as round 16, with a 15-minute limit per seeder (C07 delivered nothing; C02, C05, C11, C12 and C15 one change each)",
    21: "a last mini-round: ONE change each for C02, C06, C08, C13, C15 and C18 with a 12-minute limit per seeder (so there is no `-42`)",
}


def table(sufs):
    p = subprocess.run([os.path.join(HERE, "tools", "seeded_table.py")] + sufs, capture_output=True, text=True, check=True)
    return p.stdout


def main():
    metas = {}
    for d in sorted(glob.glob(os.path.join(HERE, "seeded", "C*-*"))):
        if os.path.isdir(d):
            metas[os.path.basename(d)] = json.load(open(os.path.join(d, "meta.json")))
    notes = json.load(open(os.path.join(HERE, "seeded", "NOTES.json")))
    maxsuf = max(int(n.split("-")[1]) for n in metas)
    out = []
    r = FIRST_ROUND
    while 2 * r - 1 <= maxsuf:
        sufs = [str(2 * r - 1), str(2 * r)]
        names = [n for n in metas if n.split("-")[1] in sufs]
        missed = [n for n in names if "**missed**" in notes.get(n, "")]
        out.append("**Round %d** (%d changes, `seeded/<ID>-%s` and `-%s`; %s).  %d of them were missed by the checks as they "
                   "stood when the round arrived; the note column says what was added.\n" %
                   (r, len(names), sufs[0], sufs[1], ROUND_TEXT.get(r, "as the round before"), len(missed)))
        out.append(table(sufs))
        r += 1
    total = len(metas)
    caught = [n for n, m in metas.items() if m.get("evaluation", {}).get("caught")]
    equiv = [n for n, m in metas.items() if not m.get("evaluation", {}).get("caught")
             and m.get("evaluation", {}).get("demo_patched_exit") == 0]
    other = sorted(set(metas) - set(caught) - set(equiv))
    late = [n for n in metas if int(n.split("-")[1]) >= 2 * FIRST_ROUND - 1]
    first_missed = [n for n in late if "**missed**" in notes.get(n, "")]
    out.append("**Totals on the final tree** (`tools/seeded.py --jobs=5`, every change re-applied to a scratch worktree of "
               "the final /repo HEAD, its demo run on the clean and on the changed tree, the 111 repository tests run "
               "on the changed tree, then the quick tier of the deciding check): %d seeded changes are kept, %d are caught "
               "by the quick tier%s%s.  %d of the %d were missed when they arrived (rounds 1-5: see above) - every such miss was closed by "
               "extending a generator or an oracle, never by special-casing the change.\n" % (
                   total, len(caught),
                   ("; %d became equivalent after a repair of the library (%s: its own demo passes on the repaired tree)"
                    % (len(equiv), ", ".join(equiv))) if equiv else "",
                   ("; **not caught: %s**" % ", ".join(other)) if other else "",
                   len(first_missed), len(late)))
    out.append("Changes delivered by seeders and **rejected** after review (removed, not counted): C13-14 and C13-17 (a getter "
               "returning a copy: no listed clause is broken, the demos compared object identity), C14-18 (manifests only for a "
               "user-written subclass that overrides a private hook), C12-18 (aliases two names for one object; no observable "
               "change inside the property's domain), C18-34 (needs one parameter object registered in two maps: the property "
               "quantifies over parameter trees), C01-40 (a size counter that is wrong only after an add() that raised inside the heap "
               "sift because the new time cannot be compared with the pending ones - mixed Duration / number lists are outside the "
               "property's domain, see C01's ASSUMPTIONS, and on the unchanged tree such a failed add leaves the entry on the list "
               "as well), C14-40 (a NegBinomial draw one lower at uniforms that are exactly (1-p)**k: still an integer in the "
               "support and a pure function of parameters and stream, so no clause of C14 is broken), C16-39 ('kg/s-2', a negative "
               "exponent behind the division sign: not one of the eight documented forms the property quantifies over, and the "
               "library's own docstring examples read it the other way than the unchanged parser does).  One change (C10-21) was written for C10 but alters SimPersistent's "
               "warm-up handling, which is C11's statement; it is decided by C11 (`decided_by` in its meta.json) and C10 "
               "stays green on it by design.\n")
    block = "<!-- seeded:begin -->\n" + "\n".join(out) + "<!-- seeded:end -->"
    p = os.path.join(HERE, "DESIGN.md")
    s = open(p).read()
    assert "<!-- seeded:begin -->" in s
    s = re.sub(r"<!-- seeded:begin -->.*<!-- seeded:end -->", lambda m: block, s, flags=re.S)
    open(p, "w").write(s)
    print("rounds %d-%d, %d changes, caught %d, equivalent %s, other %s" % (FIRST_ROUND, r - 1, total, len(caught), equiv, other))


if __name__ == "__main__":
    main()
