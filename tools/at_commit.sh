#!/bin/sh
# usage: tools/at_commit.sh <commit> <check args...>   - run ./check against a scratch worktree of /repo at <commit>
set -e
C="$1"; shift
D="/tmp/verif-wt-$$"
git -C /repo worktree add --detach -q "$D" "$C"
VERIF_REPO="$D" /verif/check "$@" || rc=$?
git -C /repo worktree remove --force "$D"
exit ${rc:-0}
