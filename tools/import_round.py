#!/venv/bin/python
"""Import the deliverables of one seeding round into /verif/seeded.
usage: tools/import_round.py /tmp/seed12-out 23 24 [C01 C02 ...]
<out>/<ID>/{patch,demo,meta}{1,2}.* -> seeded/<ID>-<a>/ and seeded/<ID>-<b>/ (patch.diff copied as bytes: CRLF sources)."""
import json
import os
import shutil
import sys

HERE = os.path.dirname(os.path.dirname(os.path.abspath(__file__)))


def main():
    out, a, b = sys.argv[1], sys.argv[2], sys.argv[3]
    ids = sys.argv[4:] or sorted(d for d in os.listdir(out) if os.path.isdir(os.path.join(out, d)))
    for c in ids:
        for i, suf in ((1, a), (2, b)):
            src = os.path.join(out, c)
            need = ["patch%d.diff" % i, "demo%d.py" % i, "meta%d.json" % i]
            if not all(os.path.exists(os.path.join(src, n)) and os.path.getsize(os.path.join(src, n)) for n in need):
                print("%s change %d: incomplete, skipped" % (c, i))
                continue
            dst = os.path.join(HERE, "seeded", "%s-%s" % (c, suf))
            os.makedirs(dst, exist_ok=True)
            shutil.copyfile(os.path.join(src, need[0]), os.path.join(dst, "patch.diff"))
            shutil.copyfile(os.path.join(src, need[1]), os.path.join(dst, "demo.py"))
            try:
                m = json.load(open(os.path.join(src, need[2])))
            except Exception as ex:
                print("%s change %d: meta unreadable (%s)" % (c, i, ex))
                m = {"summary": "?", "needs_to_manifest": "?", "why_tests_pass": "?", "commands_run": []}
            m["property"] = c
            json.dump(m, open(os.path.join(dst, "meta.json"), "w"), indent=1)
            print("%s-%s imported" % (c, suf))


if __name__ == "__main__":
    main()
