#!/venv/bin/python
"""tools/add_finding.py fixed|open <property> <commit-or-id> <corpus-or-replay-json|-> "<what>" [kinds...]"""
import json, sys
status, prop, ref, path, what = sys.argv[1:6]
kinds = sys.argv[6:]
kf = json.load(open('/verif/known_findings.json'))
e = {"status": status, "property": prop}
if status == "fixed":
    e["commit"] = ref
    e["what"] = "fixed: property=%s %s %s" % (prop, ref, what)
else:
    e["id"] = ref
    e["what"] = what
    e["kinds"] = kinds
if path != "-":
    d = json.load(open(path))
    e["repro"] = d["case"] if isinstance(d, dict) and "case" in d else d
kf["findings"].append(e)
json.dump(kf, open('/verif/known_findings.json', 'w'), indent=1)
print("added", status, prop, ref)
