"""Replace text in a CRLF source file without touching other line endings.
usage (from python): from crlf_edit import edit; edit(path, old, new)   (old/new use \n)
"""
import sys


def edit(path, old, new, count=1):
    data = open(path, "rb").read()
    crlf = b"\r\n" in data
    o = old.encode("utf-8")
    n = new.encode("utf-8")
    if crlf:
        o = o.replace(b"\r\n", b"\n").replace(b"\n", b"\r\n")
        n = n.replace(b"\r\n", b"\n").replace(b"\n", b"\r\n")
    if data.count(o) != count:
        raise SystemExit("expected %d occurrence(s) of old text in %s, found %d" % (count, path, data.count(o)))
    open(path, "wb").write(data.replace(o, n))
