#!/venv/bin/python
"""Sensitivity runs: apply each mutant of /verif/mutants/mutants.json to a scratch worktree of /repo, run the
quick tier of the property's check against it (VERIF_REPO), optionally the repository's own tests, revert.

usage: tools/mutants.py [--only C01,C02] [--ids m1,m2] [--tests] [--jobs 4]
Writes /verif/mutants/RESULTS.md (and prints one line per mutant).  Scratch worktrees live under /tmp and are removed.
"""
import argparse
import json
import os
import re
import subprocess
import sys
import concurrent.futures as cf

HERE = os.path.dirname(os.path.dirname(os.path.abspath(__file__)))
sys.path.insert(0, os.path.join(HERE, "tools"))
from crlf_edit import edit  # noqa: E402


def run_one(m, do_tests):
    wt = "/tmp/verif-mut-%d-%s" % (os.getpid(), re.sub(r"\W", "_", m["id"]))
    subprocess.run(["git", "-C", "/repo", "worktree", "add", "--detach", "-q", wt, "HEAD"], check=True)
    res = {"id": m["id"], "property": m["property"], "note": m.get("note", "")}
    try:
        try:
            for e in m["edits"]:
                edit(os.path.join(wt, e["file"]), e["old"], e["new"], e.get("count", 1))
        except SystemExit as ex:
            res["status"] = "PATCH-FAILED: %s" % ex
            return res
        env = dict(os.environ, VERIF_REPO=wt)
        try:
            p = subprocess.run([os.path.join(HERE, "check"), m["property"], "--tier", "quick"], env=env,
                               capture_output=True, text=True, timeout=900)
        except subprocess.TimeoutExpired:
            res["status"] = "TIMEOUT(900s)"
            res["kinds"] = []
            return res
        kinds = re.findall(r"^  kind=(\S+)", p.stdout, re.M)
        res["exit"] = p.returncode
        res["kinds"] = sorted(set(kinds))[:6]
        res["status"] = "CAUGHT" if p.returncode == 1 else ("MISSED" if p.returncode == 0 else "HARNESS-ERROR")
        if p.returncode == 2:
            res["kinds"] = [p.stdout[-300:]]
        if do_tests:
            t = subprocess.run(["/venv/bin/python", "-m", "pytest", "-q", "-p", "no:cacheprovider", "--timeout=900",
                                "-x", "tests"], cwd=wt, env=dict(os.environ, PYTHONPATH=os.path.join(wt, "src")),
                               capture_output=True, text=True, timeout=1800)
            tail = t.stdout.strip().splitlines()[-1] if t.stdout.strip() else ""
            res["repo_tests"] = "pass" if t.returncode == 0 else "FAIL (%s)" % tail
    finally:
        subprocess.run(["git", "-C", "/repo", "worktree", "remove", "--force", wt])
    return res


def main():
    ap = argparse.ArgumentParser()
    ap.add_argument("--only", default="")
    ap.add_argument("--ids", default="")
    ap.add_argument("--tests", action="store_true")
    ap.add_argument("--jobs", type=int, default=2)
    a = ap.parse_args()
    muts = json.load(open(os.path.join(HERE, "mutants", "mutants.json")))["mutants"]
    if a.only:
        muts = [m for m in muts if m["property"] in a.only.split(",")]
    if a.ids:
        muts = [m for m in muts if m["id"] in a.ids.split(",")]
    results = []
    with cf.ThreadPoolExecutor(a.jobs) as ex:
        for r in ex.map(lambda m: run_one(m, a.tests), muts):
            results.append(r)
            print("%-8s %-34s %-14s %s %s" % (r["property"], r["id"], r.get("status"), r.get("repo_tests", ""),
                                              ",".join(r.get("kinds", []))[:150]), flush=True)
    path = os.path.join(HERE, "mutants", "RESULTS.md")
    old = {}
    if os.path.exists(path):
        for line in open(path):
            mm = re.match(r"\| (\S+) \| (\S+) \|", line)
            if mm:
                old[mm.group(2)] = line
    for r in results:
        old[r["id"]] = "| %s | %s | %s | %s | %s | %s |\n" % (
            r["property"], r["id"], r.get("status"), r.get("repo_tests", "n/a"),
            ", ".join(r.get("kinds", []))[:200].replace("|", "/"), r["note"].replace("|", "/"))
    with open(path, "w") as f:
        f.write("# Sensitivity: mutants of pydsol-core vs the quick tier of each check\n\n"
                "Produced by tools/mutants.py (mutants/mutants.json). CAUGHT = the check printed VIOLATION and exited 1.\n\n"
                "| property | mutant | result | repo tests with mutant | discrepancy kinds | what the mutant does |\n|---|---|---|---|---|---|\n")
        for k in sorted(old, key=lambda k: (old[k].split("|")[1], k)):
            f.write(old[k])
    missed = [r for r in results if r.get("status") != "CAUGHT"]
    return 1 if missed else 0


if __name__ == "__main__":
    sys.exit(main())
