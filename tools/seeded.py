#!/venv/bin/python
"""Evaluate the seeded changes under /verif/seeded/<name>/ (patch.diff, demo.py, meta.json):
in a scratch worktree of /repo: demo passes on the clean tree, patch applies, the repository's tests still pass,
demo fails with the patch, and the property's quick check reports a VIOLATION.  Results are written into meta.json.
usage: tools/seeded.py [name ...] [--jobs N] [--no-tests]"""
import json
import os
import re
import subprocess
import sys
import concurrent.futures as cf

HERE = os.path.dirname(os.path.dirname(os.path.abspath(__file__)))


def sh(cmd, **kw):
    return subprocess.run(cmd, capture_output=True, text=True, **kw)


def evaluate(name, do_tests=True):
    d = os.path.join(HERE, "seeded", name)
    meta = json.load(open(os.path.join(d, "meta.json")))
    prop = meta["property"]
    wt = "/tmp/verif-seed-%d-%s" % (os.getpid(), name)
    sh(["git", "-C", "/repo", "worktree", "add", "--detach", "-q", wt, "HEAD"])
    res = {}
    try:
        env = dict(os.environ, PYTHONPATH=os.path.join(wt, "src"))
        r = sh(["timeout", "300", "/venv/bin/python", "-W", "ignore", os.path.join(d, "demo.py")], env=env, cwd=wt)
        res["demo_clean_exit"] = r.returncode
        a = sh(["git", "-C", wt, "apply", "--whitespace=nowarn", os.path.join(d, "patch.diff")])
        if a.returncode != 0:      # the tree has moved on since the change was written: three-way merge
            a = sh(["git", "-C", wt, "apply", "-3", "--whitespace=nowarn", os.path.join(d, "patch.diff")])
        res["patch_applies"] = a.returncode == 0
        if a.returncode != 0:
            res["apply_error"] = a.stderr[-300:]
            return name, res
        r = sh(["timeout", "300", "/venv/bin/python", "-W", "ignore", os.path.join(d, "demo.py")], env=env, cwd=wt)
        res["demo_patched_exit"] = r.returncode
        if do_tests:
            t = sh(["timeout", "1500", "/venv/bin/python", "-m", "pytest", "-q", "-p", "no:cacheprovider",
                    "--timeout=900", "tests"], env=env, cwd=wt)
            res["repo_tests"] = (t.stdout.strip().splitlines() or ["?"])[-1]
        # "decided_by": the change was written for `prop` but touches behaviour another listed property states
        dec = meta.get("decided_by", prop)
        checks = meta.get("also_check", []) + ([dec] if dec != prop else [])
        out = {}
        for p in [prop] + checks:
            c = sh([os.path.join(HERE, "check"), p, "--tier", "quick"], env=dict(os.environ, VERIF_REPO=wt))
            out[p] = {"exit": c.returncode, "kinds": sorted(set(re.findall(r"^  kind=(\S+)", c.stdout, re.M)))[:8]}
        res["checks"] = out
        res["caught"] = out[dec]["exit"] == 1
    finally:
        sh(["git", "-C", "/repo", "worktree", "remove", "--force", wt])
    meta["evaluation"] = res
    meta["what_was_run"] = ("tools/seeded.py: scratch worktree of /repo HEAD; demo.py on the clean tree, git apply patch.diff, "
                            "demo.py again, the repository's pytest suite, then ./check %s --tier quick with VERIF_REPO=<worktree>" % prop)
    json.dump(meta, open(os.path.join(d, "meta.json"), "w"), indent=1)
    return name, res


def main():
    args = [a for a in sys.argv[1:] if not a.startswith("--")]
    jobs = 3
    for a in sys.argv[1:]:
        if a.startswith("--jobs="):
            jobs = int(a.split("=")[1])
    names = args or sorted(n for n in os.listdir(os.path.join(HERE, "seeded"))
                           if os.path.isdir(os.path.join(HERE, "seeded", n)))
    bad = 0
    with cf.ThreadPoolExecutor(jobs) as ex:
        for name, res in ex.map(lambda n: evaluate(n, "--no-tests" not in sys.argv), names):
            ok = res.get("caught")
            bad += 0 if ok else 1
            print("%-10s clean=%s patched=%s tests=%s caught=%s %s" % (
                name, res.get("demo_clean_exit"), res.get("demo_patched_exit"), res.get("repo_tests", "-")[:40], ok,
                json.dumps(res.get("checks", res.get("apply_error")))[:300]), flush=True)
    return 1 if bad else 0


if __name__ == "__main__":
    sys.exit(main())
