#!/venv/bin/python
"""Regenerate /verif/MANIFEST.json from the property modules that exist (keeps it valid at all times)."""
import glob
import importlib
import json
import os
import sys

HERE = os.path.dirname(os.path.dirname(os.path.abspath(__file__)))
sys.path.insert(0, HERE)
import vlib  # noqa

props = [json.loads(l) for l in open(os.path.join(HERE, "properties.jsonl"))]
accepted = set(open(os.path.join(HERE, "tools", "accepted.txt")).read().split())
mods = {}
for p in sorted(glob.glob(os.path.join(HERE, "props", "c*_*.py"))):
    name = os.path.basename(p)[:-3]
    if name.split("_")[0].upper() not in accepted:
        continue                       # module still being built / reviewed
    m = importlib.import_module("props." + name)
    mods[m.ID] = m

checks = []
na = []
for p in props:
    pid = p["id"]
    m = mods.get(pid)
    if m is None or getattr(m, "NOT_READY", False):
        na.append({"property_id": pid, "reason": "check not built yet (work in progress; see DESIGN.md section 3)"})
        continue
    checks.append({
        "property_id": pid,
        "quick_cmd": "./check %s --tier quick" % pid,
        "thorough_cmd": "./check %s --tier thorough" % pid,
        "evidence_file": "/verif/evidence/%s.json" % pid,
        "replay_cmd_template": "./check %s --replay {path}" % pid,
        "engine": "pbt-runner",
        "level_claimed": {
            "category": "exploration",
            "text": getattr(m, "LEVEL_TEXT", "Generated-input search (Hypothesis) against an explicit oracle; "
                                              "holds on every generated case, no claim of absence."),
            "design_ref": "DESIGN.md section 3, " + pid,
        },
        "level_note": getattr(m, "LEVEL_NOTE", "Trusts the reference model / oracle in props/%s and CPython." % pid.lower()),
        "technique": getattr(m, "TECHNIQUE", "property-based testing (Hypothesis) against a reference model"),
    })

manifest = {
    "version": 1,
    "setup_cmd": "/venv/bin/python -m pip install --quiet --no-index --find-links /opt/veriftools/wheels "
                 "--target /verif/.deps mpmath || true",
    "hooks": {
        "guard": "PYDSOL_CORE_VERIF",
        "enable": "no hooks are needed: the checks drive the public API of /repo/src directly "
                  "(imported from the working tree, pure Python, nothing to build)",
        "baseline_off_cmd": "cd /repo && /venv/bin/python -m pytest -ra -q -p no:cacheprovider --timeout=900 "
                            "--continue-on-collection-errors",
        "source_commits": [],
        "add_only": True,
    },
    "engines": [{
        "name": "pbt-runner",
        "path": "/verif/vlib/runner.py",
        "serves_properties": [c["property_id"] for c in checks],
        "kind_free_text": "Hypothesis-driven generated-input search, sharded over processes, with "
                          "collect-then-shrink, corpus replay, known-findings registry and evidence writer",
    }],
    "checks": checks,
    "not_applicable": na,
    "notes": "All checks: ./check <ID> [--tier quick|thorough]; VERIF_SEED selects the Hypothesis seed; "
             "VERIF_REPO (default /repo) selects the tree under test. Exit 0 held / 1 VIOLATION / 2 harness error.",
}
with open(os.path.join(HERE, "MANIFEST.json"), "w") as f:
    json.dump(manifest, f, indent=1)
print("MANIFEST.json: %d checks, %d not_applicable" % (len(checks), len(na)))
