#!/venv/bin/python
"""Regenerate /verif/MANIFEST.json from the property modules that exist (keeps it valid at all times)."""
import glob
import importlib
import json
import os
import sys

HERE = os.path.dirname(os.path.dirname(os.path.abspath(__file__)))
sys.path.insert(0, HERE)
import vlib  # noqa

props = [json.loads(l) for l in open(os.path.join(HERE, "properties.jsonl"))]
accepted = set(open(os.path.join(HERE, "tools", "accepted.txt")).read().split())
mods = {}
for p in sorted(glob.glob(os.path.join(HERE, "props", "c*_*.py"))):
    name = os.path.basename(p)[:-3]
    if name.split("_")[0].upper() not in accepted:
        continue                       # module still being built / reviewed
    m = importlib.import_module("props." + name)
    mods[m.ID] = m


TEXTS = {
 "C01": ("model-based property testing: Hypothesis op-list histories against a sorted-list reference model",
         "Every generated add/remove/pop/peek/contains/clear history over 4 time types (events of SimEvent and of user subclasses, big-int ties beyond 2**53) is compared op by op with a sorted-list model, including the drain order of a replayed copy after every mutation and all six comparison operators on all pool pairs; an exception escaping from a valid operation is a failure. Exploration is the right level: the property quantifies over unbounded histories; the check searches them with thousands (quick) to hundreds of thousands (thorough) of shrinking, tie-rich cases and catches every seeded change and mutant tried, but proves nothing beyond the cases run.",
         "Trusts the 30-line reference model in props/c01_eventlist.py and CPython's tuple/float ordering; NaN times and re-adding a pending event are excluded."),
 "C02": ("model-based property testing: generated model programs against a reference DEVS interpreter",
         "Generated handler programs (schedule now/rel/abs/pre-built, cancel, illegal requests; float, int and Duration clocks; the horizon run by start() or by one bounded command at/beyond the end) are executed by the real simulator and by an independent reference interpreter; executed trace, clock inside handlers, per-request acceptance/refusal and event-list size must agree, plus independent exactly-once / monotone invariants. Exploration: thousands of programs per run, no proof.",
         "Trusts RefSim in vlib/simharness.py (sorted pending list, same float additions) as the oracle; structural quiescence detection uses SimulatorWorkerThread.is_waiting()."),
 "C03": ("model-based + metamorphic property testing: generated programs x generated segmentations",
         "Each generated program is run under a generated segmentation (bounded runs with cuts on / between / before / beyond event times, steps, stop-start pauses placed deterministically after event k; optionally bounds of the other numeric type and an earlier replication of another length on the same simulator); per piece the reference semantics must hold and the whole must equal one uninterrupted run on a fresh simulator. Exploration of the segmentation space by generation; the pause mechanism owns the schedule, so results are deterministic.",
         "Trusts RefSim; a bound before the clock may be refused or ignored (the property does not say which)."),
 "C04": ("bounded-exhaustive enumeration of command sequences + enumerated rendezvous schedules + Hypothesis sequences, against a protocol model and a notification grammar",
         "ALL command sequences over a 14-letter alphabet up to length 4 (quick) / 6 (thorough) and Hypothesis sequences up to length 10 are compared with a protocol model written from the docstrings and a notification grammar; 115 enumerated overlaps of a command with the run thread's transitions (the harness owns the schedule through listener/handler rendezvous) and rapid start/stop alternation must end in a consistent quiescent state, without limbo, with every event executed exactly once. Exhaustive only up to the stated bounds and rendezvous points.",
         "Interleavings are forced only at notification/handler rendezvous points; races whose window contains no such point are not explored (DESIGN.md section 7). Trusts the protocol model in props/c04_lifecycle.py."),
 "C05": ("metamorphic property testing with fault injection: every single fault index for small programs, generated subsets otherwise",
         "Handlers chosen by the generator (for programs with <= 16 executed events: EVERY single index in turn) raise after performing their actions (eleven kinds of failure incl. BaseException, keyword arguments that do not fit the handler, a refused command or scheduling request inside the handler; plain SimEvents or a user event class that does not wrap failures); under the three non-terminating strategies (set with/without log level, before or after (re-)initialize, changed by handlers), under start, bounded runs and steps, trace, clock, state and pending count must equal the fault-free reference run after every command. Fault enumeration is exhaustive per small program, generated otherwise.",
         "Faulty handlers raise after their actions (an exception before them would legitimately drop them). Trusts RefSim."),
 "C06": ("differential property testing: replication after a generated prior history vs. the same replication on a brand-new simulator and model",
         "Stochastic programs with seeded streams, the four simulation statistics (one or two event types per producer, producers living for a replication or for the model), initial methods, re-seeded stream objects and initialize attempts from handlers and listeners are run after a generated prior history (initialised only, steps, stop, bounded, ended, fault pause, cleanup, other seeds/settings) and must be indistinguishable (trace, notifications, draws, every statistics getter bit-identical) from a fresh simulator. Exploration by generation.",
         "Differential oracle: a defect that affects fresh and re-initialised runs identically is invisible here (C02/C09-C11 cover those)."),
 "C07": ("differential property testing across interpreter processes and pause points",
         "Generated stochastic fan-out programs (seeds direct, through a StreamSeedUpdater with user or default fallback, or the default stream of a StreamInformation) are executed in-process in eight to eleven variants (pauses by stop(), by a TIME_CHANGED listener, bounded inclusive / exclusive runs, single steps, fast vs slow listeners, second replication on the same objects, after an abandoned replication) and, in batches, by child interpreters with different PYTHONHASHSEED, prior activity and pause/bounded drives; digests (events, normalised notifications, draws, deliveries, statistics as hex floats) must be identical and deliveries must follow subscription order. Exploration; wall-clock independence only through pauses and CPU contention.",
         "START/STOP notifications depend on pause points by design and are excluded from the digest."),
 "C11": ("differential + exact-oracle property testing of simulation statistics",
         "Generated observation schedules around warm-up and end (three clocks, pauses, optional subscribers, earlier replications, a second model alive in the process, a model class with __len__) are run in the simulator; every getter of the four Sim statistics must be bit-identical to an ordinary statistic fed the observations that the reference interpreter places after the warm-up reset, the persistent's mean must equal the exact (Fraction) time integral, and every published value must equal its getter inside notify. Exploration by generation.",
         "The ordinary statistics share code with the Sim statistics (their arithmetic is judged by C09/C10); priorities restricted to 1..9."),
}
GENERIC = ("Generated-input search against an explicit oracle: holds on every generated (and, where stated, exhaustively "
           "enumerated) case of this run; shrunk counterexamples become replay files. This is the level the technique "
           "can give: it never establishes absence. ")

checks = []
na = []
for p in props:
    pid = p["id"]
    m = mods.get(pid)
    if m is None or getattr(m, "NOT_READY", False):
        na.append({"property_id": pid, "reason": "check not built yet (work in progress; see DESIGN.md section 3)"})
        continue
    checks.append({
        "property_id": pid,
        "quick_cmd": "./check %s --tier quick" % pid,
        "thorough_cmd": "./check %s --tier thorough" % pid,
        "evidence_file": "/verif/evidence/%s.json" % pid,
        "replay_cmd_template": "./check %s --replay {path}" % pid,
        "engine": "pbt-runner",
        "level_claimed": {
            "category": "exploration",
            "text": (TEXTS[pid][1] if pid in TEXTS else
                     (GENERIC + (m.RULE[:700] if getattr(m, "LEVEL_TEXT", "exploration") in ("exploration", "") else m.LEVEL_TEXT))),
            "design_ref": "DESIGN.md section 3, " + pid,
        },
        "level_note": TEXTS[pid][2] if pid in TEXTS else getattr(
            m, "LEVEL_NOTE", "Trusts the reference model / oracle in props/%s and CPython; assumptions: %s" % (
                pid.lower(), "; ".join(m.ASSUMPTIONS)[:500])),
        "technique": TEXTS[pid][0] if pid in TEXTS else getattr(
            m, "TECHNIQUE", "property-based testing (Hypothesis) against a reference model"),
    })

manifest = {
    "version": 1,
    "setup_cmd": "/venv/bin/python -m pip install --quiet --no-index --find-links /opt/veriftools/wheels "
                 "--target /verif/.deps mpmath || true",
    "hooks": {
        "guard": "PYDSOL_CORE_VERIF",
        "enable": "no hooks are needed: the checks drive the public API of /repo/src directly "
                  "(imported from the working tree, pure Python, nothing to build)",
        "baseline_off_cmd": "cd /repo && /venv/bin/python -m pytest -ra -q -p no:cacheprovider --timeout=900 "
                            "--continue-on-collection-errors",
        "source_commits": [],
        "add_only": True,
    },
    "engines": [{
        "name": "pbt-runner",
        "path": "/verif/vlib/runner.py",
        "serves_properties": [c["property_id"] for c in checks],
        "kind_free_text": "Hypothesis-driven generated-input search, sharded over processes, with "
                          "collect-then-shrink, corpus replay, known-findings registry and evidence writer",
    }],
    "checks": checks,
    "not_applicable": na,
    "notes": "All checks: ./check <ID> [--tier quick|thorough]; VERIF_SEED selects the Hypothesis seed; "
             "VERIF_REPO (default /repo) selects the tree under test. Exit 0 held / 1 VIOLATION / 2 harness error.",
}
with open(os.path.join(HERE, "MANIFEST.json"), "w") as f:
    json.dump(manifest, f, indent=1)
print("MANIFEST.json: %d checks, %d not_applicable" % (len(checks), len(na)))
