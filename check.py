#!/venv/bin/python
"""CLI of the verification machinery:  check <ID> [--tier quick|thorough] [--seed N] [--replay FILE]"""
import argparse
import glob
import os
import sys

sys.dont_write_bytecode = True
HERE = os.path.dirname(os.path.abspath(__file__))
sys.path.insert(0, HERE)

import vlib  # noqa: E402  (sets up sys.path for the code under test)

if os.environ.get("VERIF_DEBUG_SIGUSR1"):      # debugging aid: kill -USR1 <pid> dumps all thread stacks (forks inherit it)
    import faulthandler
    import signal
    faulthandler.register(signal.SIGUSR1, all_threads=True)


def find_module(pid):
    hits = glob.glob(os.path.join(HERE, "props", pid.lower() + "_*.py"))
    if not hits:
        return None
    return "props." + os.path.basename(hits[0])[:-3]


def main():
    ap = argparse.ArgumentParser()
    ap.add_argument("id", nargs="?")
    ap.add_argument("--tier", default=os.environ.get("VERIF_TIER") or "quick",
                    choices=["quick", "thorough"])
    ap.add_argument("--seed", type=int, default=None)
    ap.add_argument("--replay", default=None)
    ap.add_argument("--list", action="store_true")
    a = ap.parse_args()
    if a.list or not a.id:
        for p in sorted(glob.glob(os.path.join(HERE, "props", "c*_*.py"))):
            print(os.path.basename(p)[:-3])
        return 0
    seed = a.seed
    if seed is None:
        try:
            seed = int(os.environ.get("VERIF_SEED", "1"))
        except ValueError:
            seed = 1
    modname = find_module(a.id)
    if modname is None:
        print("HARNESS-ERROR no module for property %s" % a.id)
        return 2
    from vlib import runner
    try:
        loc = vlib.check_sut_location()
        if not loc.startswith(os.path.abspath(vlib.SRC)):
            print("HARNESS-ERROR pydsol imported from %s, expected under %s" % (loc, vlib.SRC))
            return 2
        if a.replay:
            return runner.run_replay(modname, a.replay)
        return runner.run_check(modname, a.tier, seed)
    except SystemExit:
        raise
    except BaseException:
        import traceback
        traceback.print_exc()
        print("HARNESS-ERROR property=%s unexpected exception in the harness" % a.id)
        return 2


if __name__ == "__main__":
    rc = main()
    # a broken tree can leave non-daemon simulator threads behind (reported as 'thread-leak'): they must not keep the
    # check process alive after the verdict is printed and the evidence is written
    sys.stdout.flush()
    sys.stderr.flush()
    os._exit(rc if isinstance(rc, int) else 2)
