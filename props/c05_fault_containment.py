"""C05 - fault containment: a failing handler never loses, duplicates or reorders events."""
import copy

from hypothesis import strategies as st

from vlib import progs
from vlib.runner import Inconclusive, Outcome
from vlib.simharness import Harness, RefSim, enc_ref, enc_obs

ID = "C05"
RULE = ("Hypothesis (program, fault choice, strategy, drive) tuples: program as in C02 without illegal requests; "
        "handlers in the fault set perform all their actions and then raise (an exception with a message, without arguments, StopIteration, AssertionError, KeyError, one with format characters in its text, one with non-string arguments, a BaseException that is no Exception, or the uncaught error of an illegal scheduling request made by the handler); fault choice = Hypothesis subset of "
        "the executed events (indices into the fault-free run) or, for programs with <=16 executed events, EVERY "
        "single fault index in turn ('all-singles'); strategy in {LOG_AND_CONTINUE, WARN_AND_CONTINUE, "
        "WARN_AND_PAUSE}, set with or without an explicit log level, possibly after another strategy, before the first initialize / after it / before a re-initialization (or cleanup + initialize) of the same simulator, and possibly changed by a handler during the run; events are plain SimEvents or instances of a SimEvent subclass whose execute() lets the handler's own exception through; drive in {start, bounded runs at fractions of the horizon, steps, mixed}. Oracle: "
        "metamorphic against the fault-free reference run - continue strategies: identical trace/final clock/ENDED; "
        "pause strategy: STOPPED/STARTED exactly after each failing event, nothing later ran, start() resumes, "
        "concatenated trace identical; step(): returns or raises DSOLError only, simulator STOPPED, event consumed "
        "once, further commands work. Non-trivial = a fault on an event that is neither the first nor the last "
        "executed one and whose handler scheduled at least one event.")
ASSUMPTIONS = [
    "faulty handlers raise after performing their actions (an exception before the actions would legitimately drop them)",
    "WARN_AND_END / WARN_AND_EXIT terminate the run and are outside the property (non-terminating strategies only)",
    "the reference interpreter RefSim is the trusted oracle",
]
NONTRIVIAL_FLOOR = 0.10


def budget(tier):
    if tier == "quick":
        return {"examples": 2400, "shards": 16}
    return {"examples": 100000, "shards": 16}


def _strategy_actions(clock):
    # the error strategy "can be set and changed, even during the execution of the simulation run"
    return [(5, st.tuples(st.just("set_strategy"), st.sampled_from([1, 2, 3, 3])))]


def strategy(tier):
    prog = progs.program_strategy(max_nodes=12 if tier == "quick" else 24, illegal=False, cap=80,
                                  extra_actions=_strategy_actions)
    return st.fixed_dictionaries({
        "prog": prog,
        "mode": st.sampled_from(["subset", "subset", "all-singles"]),
        "fault_idx": st.lists(st.integers(0, 999), min_size=1, max_size=6),
        "strategy": st.sampled_from([1, 2, 3, 3]),
        "log_level": st.sampled_from([None, None, 50, 10, 0]),
        "prev_strategy": st.sampled_from([None, 1, 2, 3]),
        "when": st.sampled_from(["after-init", "after-init", "before-init", "before-reinit", "before-cleanup-init",
                                 "after-abandoned-pilot"]),
        "direct": st.booleans(),
        "fault_kind": st.sampled_from(["msg", "msg", "msg", "bad-kwargs", "bad-command", "noargs", "stopiteration", "assert", "keyerror",
                                       "odd-message", "non-str-arg", "base", "bad-request", "bad-request"]),
        "drive": st.sampled_from(["start", "bounded", "step", "mixed"]),
        # (cut 10 is the replication end itself; "runx" is the exclusive bounded run)
        "cuts": st.lists(st.integers(0, 12), min_size=1, max_size=4),           # (11, 12: beyond the end)
        "mix": st.lists(st.sampled_from(["step", "run", "step", "start", "runx"]), min_size=1, max_size=10),
    })


def _bound(ref, frac, ck):
    span = ref.end - ref.clock
    if ck == "int":
        return ref.clock + (span * frac) // 10
    return ref.clock + span * (frac / 10.0)


def _jt(b, ck):
    if ck == "duration":
        return [float(b).hex(), "s"]
    if ck == "float":
        return float(b).hex()
    return b


def _one_run(out, prog, strat, drive, cuts, mix, tag, log_level=None, prev=None, when="after-init"):
    """run one (program with faults, strategy, drive) on SUT and reference and compare"""
    from pydsol.core.simulator import RunState
    from pydsol.core.utils import DSOLError
    ck = prog["clock"]
    pause = strat == 3
    ref = RefSim(prog)
    ref.strategy = strat

    def ref_action(r, a):
        if a[0] == "set_strategy":
            r.strategy = a[1]
    ref.extra_action = ref_action
    ref.initialize()
    if ref.strategy != strat:
        return ref          # (a strategy change inside construct_model would be overwritten below: not generated)
    h = Harness(prog)
    import json
    import zlib
    # (costs a quarter of a second: in ~4% of the warn-and-pause cases, chosen by a hash of the case)
    resume_at_clock = zlib.crc32(json.dumps([prog, cuts], sort_keys=True).encode()) % 2 == 0
    eager = pause and zlib.crc32(json.dumps([prog, drive, cuts, mix], sort_keys=True).encode()) % 24 == 5

    def sut_action(m, a):
        if a[0] == "set_strategy":
            m.simulator.set_error_strategy(a[1])
    h.model.extra_action = sut_action
    try:
        if when == "after-abandoned-pilot":
            # an earlier replication of the same model was abandoned half-way (paused, then cleanup()): none of its
            # events belongs to the replication that follows
            h.initialize()
            r0 = RefSim(prog)
            r0.initialize()
            h.run_piece(["run_up_to", _jt(_bound(r0, 4, ck), ck)])
            h.sim.cleanup()
            from vlib.simharness import Recorder
            h.rec = Recorder()
            when = "after-init"
        if when != "before-init":
            h.initialize()
        if prev is not None:
            h.sim.set_error_strategy(prev)          # the strategy may be changed at any time
        if log_level is None:
            h.sim.set_error_strategy(strat)
        else:
            h.sim.set_error_strategy(strat, log_level)
        # the strategy is a setting of the simulator: it holds for the replications initialized after it too
        if when == "before-cleanup-init":
            h.sim.cleanup()
        if when != "after-init":
            h.initialize()
        # build the command list
        cmds = []
        if drive == "start":
            cmds = []
        elif drive == "bounded":
            cmds = [["runx" if resume_at_clock and len(cuts) > 1 else "run", c] for c in sorted(cuts)]
        elif drive == "step":
            cmds = [["step"]] * 40
        else:
            cmds = [[m] if m not in ("run", "runx") else [m, cuts[i % len(cuts)]] for i, m in enumerate(mix)]
        cmds = cmds + [["start"]] * (2 + len(prog.get("faults", [])))
        guard = 0
        i = 0
        while i < len(cmds):
            c = cmds[i]
            i += 1
            guard += 1
            if ref.ended or guard > 200:
                break
            if c[0] == "step":
                if ref.clock > ref.end:
                    continue
                r = ref.step()
                err = h.run_piece(["step"])
                if err is not None:
                    if not (isinstance(err, DSOLError) and r == "fault"):
                        out.fail("step-raised-" + type(err).__name__,
                                 {"tag": tag, "err": repr(err), "ref_result": r})
            else:
                if c[0] in ("run", "runx"):
                    b = _bound(ref, c[1], ck)
                    r = ref.run(b, c[0] == "run")
                    err = h.run_piece(["run_up_to_incl" if c[0] == "run" else "run_up_to", _jt(b, ck)])
                    if c[0] == "runx":
                        out.label("exclusive-bounded-run")
                else:
                    r = ref.run()
                    if r == "fault" and eager:
                        # the user's thread resumes the moment it reads STOPPED, a STOP listener is still busy
                        out.label("eager-resume-after-fault-pause")
                        eager = False
                        r = ref.run()
                        err = h.start_eager_resume()
                    else:
                        err = h.run_piece(["start"])
                if err is not None:
                    out.fail("run-raised-" + type(err).__name__, {"tag": tag, "err": repr(err)})
                if r == "fault":
                    out.label("paused-by-fault")
                    if c[0] == "start":
                        cmds.append(["start"])
                    elif resume_at_clock:
                        # resume with an inclusive bound equal to the clock: exactly the remaining events of this
                        # instant run (a zero-length run is not a no-op when events are pending at the clock)
                        cmds.insert(i, ["run", 0])
                        out.label("resumed-with-bound-equal-to-clock")
                    else:
                        # resume with a plain start(): it runs to the END of the replication, whatever the bound
                        # of the interrupted run was
                        cmds.insert(i, ["start"])
                        out.label("bounded-run-resumed-with-start")
            # compare after every command
            if h.model.trace != ref.trace:
                j = 0
                while j < min(len(h.model.trace), len(ref.trace)) and h.model.trace[j] == ref.trace[j]:
                    j += 1
                out.fail("trace-%s-strategy%d" % (c[0], strat),
                         {"tag": tag, "first_diff_at": j, "sut": h.model.trace[j:j + 3], "ref": ref.trace[j:j + 3],
                          "len_sut": len(h.model.trace), "len_ref": len(ref.trace)})
            if enc_obs(h.sim.simulator_time) != enc_ref(ref.clock):
                out.fail("clock-%s-strategy%d" % (c[0], strat),
                         {"tag": tag, "sut": enc_obs(h.sim.simulator_time), "ref": enc_ref(ref.clock)})
            want = "ENDED" if ref.ended else "STOPPED"
            if h.sim.run_state.name != want:
                out.fail("state-%s-strategy%d" % (c[0], strat),
                         {"tag": tag, "got": h.sim.run_state.name, "want": want})
            # consistent: the replication has started (once) whether or not the handler of the first command failed
            nsr = sum(1 for e in h.rec.log if e[0] == "START_REPLICATION")
            if nsr != 1:
                out.fail("start-replication-notified-%d-times-%s-strategy%d" % (min(nsr, 2), c[0], strat),
                         {"tag": tag, "notifications": [e[0] for e in h.rec.log][:12]})
            want_rep = "ENDED" if ref.ended else "STARTED"
            if h.sim.replication_state.name != want_rep:
                out.fail("replication-state-%s-strategy%d" % (c[0], strat),
                         {"tag": tag, "got": h.sim.replication_state.name, "want": want_rep})
            if not ref.ended:
                n_sut = h.sim.eventlist().size()
                if n_sut != len(ref.pending):
                    out.fail("pending-%s-strategy%d" % (c[0], strat), {"tag": tag, "sut": n_sut, "ref": len(ref.pending)})
            if out.disc:
                return ref
        if not ref.ended and not out.disc:
            out.fail("not-ended", {"tag": tag, "state": h.sim.run_state.name})
    finally:
        if h.finish():
            out.fail("thread-leak", tag)
    return ref


def enumerate_cases(tier):
    """a transient fault: the handler of one event fails the first time it is called; the user (after the pause) or
    a later handler (continue strategies) schedules the very same event object again"""
    cases = []
    for strategy in (1, 2, 3):
        for clock in ("float", "int"):
            for how in ("same-object", "new-object"):
                cases.append({"kind": "retry", "strategy": strategy, "clock": clock, "how": how})
    return cases


def _run_retry(case, out):
    import time as _t
    from pydsol.core.experiment import SingleReplication
    from pydsol.core.model import DSOLModel
    from pydsol.core.simevent import SimEvent
    from pydsol.core.simulator import DEVSSimulatorFloat, DEVSSimulatorInt, RunState
    flt = case["clock"] == "float"
    T = (lambda x: float(x)) if flt else (lambda x: int(x))
    trace = []
    box = {}

    class M(DSOLModel):
        def construct_model(self):
            sim_ = self.simulator
            sim_.schedule_event_abs(T(1), self, "ok", name="A")
            box["ev"] = sim_.schedule_event(SimEvent(T(2), self, "flaky", 5))
            sim_.schedule_event_abs(T(2), self, "retry", 1)          # same instant, lower priority
            sim_.schedule_event_abs(T(5), self, "ok", name="C")

        def ok(self, name):
            trace.append(name)

        def flaky(self):
            trace.append("B-call-%d" % (1 + sum(1 for x in trace if x.startswith("B-call"))))
            if "failed" not in box:
                box["failed"] = True
                raise RuntimeError("transient failure")
            trace.append("B-done")

        def retry(self):
            # the event that failed is tried again at once: the same event object, or a new one
            trace.append("retry")
            if case["how"] == "same-object":
                self.simulator.schedule_event(box["ev"])
            else:
                self.simulator.schedule_event(SimEvent(T(2), self, "flaky", 5))
    sim = (DEVSSimulatorFloat if flt else DEVSSimulatorInt)("c05-retry")
    model = M(sim)
    try:
        sim.initialize(model, SingleReplication("r", T(0), T(0), T(10)))
        sim.set_error_strategy(case["strategy"], 0)
        for _ in range(3):
            if sim.run_state == RunState.ENDED:
                break
            sim.start()
            deadline = _t.monotonic() + 20.0
            while sim.is_starting_or_running() or sim.run_state == RunState.STOPPING:
                if _t.monotonic() > deadline:
                    raise Inconclusive("no quiescence")
                _t.sleep(0.0005)
        want = ["A", "B-call-1", "retry", "B-call-2", "B-done", "C"]
        if trace != want or sim.run_state != RunState.ENDED:
            out.fail("retry-of-a-failed-event-strategy%d" % case["strategy"],
                     {"how": case["how"], "clock": case["clock"], "trace": trace, "want": want,
                      "state": sim.run_state.name})
    finally:
        try:
            sim.cleanup()
        except Exception:
            pass
    out.nontrivial = True
    out.label("kind=retry", "strategy=%d" % case["strategy"])


def run_case(case):
    if case.get("kind") == "retry":
        out = Outcome()
        _run_retry(case, out)
        return out
    out = Outcome()
    prog = copy.deepcopy(case["prog"])
    prog["faults"] = []
    if case.get("direct"):
        prog["direct_events"] = True
        out.label("direct-events")
    prog["fault_kind"] = case.get("fault_kind", "msg")
    if prog["fault_kind"] == "base" and case.get("direct"):
        # an event class of the user that lets a BaseException through is outside the property: the library's own
        # SimEvent.execute converts every failure of the handler (the anchor of this property)
        prog["fault_kind"] = "msg"
    out.label("fault=" + prog["fault_kind"])
    out.label("when=" + case.get("when", "after-init"))
    ck = prog["clock"]
    base = RefSim(prog)
    base.initialize()
    base.run()
    executed = [t[0] for t in base.model_trace()]
    out.label("clock=" + ck, "strategy=%d" % case["strategy"], "drive=" + case["drive"], "mode=" + case["mode"])
    if case.get("log_level") is not None:
        out.label("explicit-log-level")
    if case.get("prev_strategy") not in (None, case["strategy"]):
        out.label("strategy-switched")
    if not executed:
        out.label("no-events")
        return out
    children = {}
    for e in base.events:
        pass
    # which executed events scheduled something (request log: cur == seq)
    sched_by = {r[0] for r in base.reqlog if r[2] == "ok"}

    def interesting(seq):
        return seq != executed[0] and seq != executed[-1] and seq in sched_by

    runs = 0
    if case["mode"] == "all-singles" and len(executed) <= 16:
        out.label("all-singles-exhaustive")
        for k, seq in enumerate(executed):
            prog["faults"] = [seq]
            _one_run(out, prog, case["strategy"], case["drive"], case["cuts"], case["mix"], "single@%d" % k,
                     case.get("log_level"), case.get("prev_strategy"), case.get("when", "after-init"))
            runs += 1
            if interesting(seq):
                out.nontrivial = True
            if out.disc:
                break
    else:
        seqs = sorted({executed[i % len(executed)] for i in case["fault_idx"]})
        prog["faults"] = seqs
        _one_run(out, prog, case["strategy"], case["drive"], case["cuts"], case["mix"], "subset",
                 case.get("log_level"), case.get("prev_strategy"), case.get("when", "after-init"))
        runs = 1
        if any(interesting(s) for s in seqs):
            out.nontrivial = True
        if len(seqs) >= 2:
            out.label("multi-fault")
    out.info = {"executed": len(executed), "sut_runs": runs}
    return out


RULE = RULE + " " + 'Later additions: fault kind bad-kwargs (the failing event carries a keyword argument its handler does not take); exclusive bounded runs and the replication end as bound; after every command START_REPLICATION was notified exactly once and the replication state is STARTED / ENDED.'
