"""C16 - quantity arithmetic is dimensionally sound and type safe.

Case (JSON), four shapes (numbers: int -> int, float -> float.hex() string):
  {"t": "pair", "a": "Speed", "b": "Duration", "op": "*" | "/",
   "trials": [[ua, va, ub, vb, k], ...]}      ua/ub = unit index (modulo the class's unit list), k = scalar
  {"t": "sig",  "sig": [9 exponents], "v": value}                 SI unit strings: 8 formats, parse/print
  {"t": "asq",  "q": "Force", "pos": 0..8, "delta": int, "v": value}   class signature +- delta at one position
  {"t": "sisi", "s1": [9], "s2": [9], "v1": value, "v2": value, "op": "*" | "/", "k": value}

The quantity classes are discovered by introspection (concrete subclasses of Quantity); the reference
signature of a class is read from its ``_sidict`` *data* table in the documented order
('rad','sr','kg','m','s','A','K','mol','cd'), never through the library's own sisig()/arithmetic code.
A zero divisor is replaced by 1 by the interpreter, so every case is applicable.
"""
import math

from hypothesis import strategies as st

from vlib.runner import Inconclusive, Outcome

ID = "C16"
RULE = ("Enumerated: every ordered pair of the 41 quantity classes x {*, /} (3362 cases, 3 fixed value/unit trials "
        "each), every SI signature with <=2 non-zero exponents in -9..9 (11827 cases, all 8 print formats), every "
        "class signature exact and +-1 at each of the 9 positions for as_quantity (779 cases). Generated "
        "(Hypothesis): random and table-biased pairs with int/float/negative values and random units, random "
        "signatures (-3..3 dense, -9..9, sparse), SI x SI with random signatures, as_quantity near-misses. "
        "Oracle: result SI value bit-equal to the float product/quotient of the operands' SI values; result "
        "signature == sum/difference of the operand signatures taken from the _sidict data tables (named result: "
        "a Quantity whose class signature equals it; generic result: SI.sisig()); the same for Quantity x SI, "
        "SI x Quantity, SI x SI, number x quantity, number / quantity; as_quantity(C) for all 41 classes succeeds "
        "iff signatures are equal and keeps the value; reference-printed unit strings in 8 formats parse to the "
        "signature and the library's printed strings parse back to it; mixed-type + - raise ValueError, ordering "
        "raises TypeError, == is False; same-type + - comparisons and scaling equal the float operation on SI "
        "values. Non-trivial = a pair whose result is a named quantity with neither operand Dimensionless and "
        "not X/X (hand-written table part), or a generic SI / signature with >=2 non-zero exponents.")
ASSUMPTIONS = [
    "values are finite ints (|v| <= 1e6) and floats with magnitude 1e-20..1e20 or 0; no NaN/inf operands, zero divisors replaced by 1",
    "exponents are single digit (-9..9); results of SI x SI outside that range are checked for value/signature only",
    "the reference signature of a class is its _sidict data table; unknown keys in _sidict are reported, not interpreted",
    "** // % ceil floor round act on display values by documentation and are not part of this property",
]
NONTRIVIAL_FLOOR = 0.30
EXHAUSTIVE_NOTE = ("all 41x41 ordered class pairs x {*,/}; all signatures with <=2 non-zero exponents in -9..9 in 8 "
                   "formats; all 41 class signatures exact and +-1 per position against all 41 classes")
LEVEL_TEXT = ("Exhaustive over the 41x41x2 operator table plus generated values/signatures (Hypothesis); holds on "
              "every enumerated and generated case, no claim beyond the stated value ranges.")
LEVEL_NOTE = "Trusts the _sidict data tables as the definition of each class's dimension, and CPython float arithmetic."
TECHNIQUE = "exhaustive table enumeration + property-based testing (Hypothesis) against dimension arithmetic"

SIU = ('rad', 'sr', 'kg', 'm', 's', 'A', 'K', 'mol', 'cd')
FORMATS = [(d, h, t) for d in (True, False) for h in ('', '^') for t in ('', '.')]


def budget(tier):
    if tier == "quick":
        return {"examples": 6000, "shards": 16}
    return {"examples": 300000, "shards": 16}


# ---------------------------------------------------------------- environment
class _Env:
    pass


_ENV = None


def _env():
    global _ENV
    if _ENV is not None:
        return _ENV
    import inspect
    import pydsol.core.units as U
    found = []

    def walk(c):
        for s in c.__subclasses__():
            if s not in found:
                if isinstance(s.__dict__.get('_units'), dict) and not inspect.isabstract(s):
                    found.append(s)
                walk(s)
    walk(U.Quantity)
    e = _Env()
    e.U = U
    e.classes = sorted(found, key=lambda c: c.__name__)
    e.byname = {c.__name__: c for c in e.classes}
    e.names = [c.__name__ for c in e.classes]
    e.sig = {}
    e.badsig = {}
    for c in e.classes:
        d = c._sidict
        e.sig[c] = [int(d.get(u, 0)) for u in SIU]
        bad = [k for k in d if k not in SIU and k != '1']
        if bad:
            e.badsig[c.__name__] = bad
    _ENV = e
    return e


def _num(x):
    return float.fromhex(x) if isinstance(x, str) else x


def _enc(x):
    return float(x).hex() if isinstance(x, float) else x


def _same(x, y):
    """bit-identical floats (NaN equals NaN)."""
    x, y = float(x), float(y)
    if x != x or y != y:
        return x != x and y != y
    return x == y and math.copysign(1.0, x) == math.copysign(1.0, y)


def ref_print(sig, div, hat, dot):
    """Reference printer for the 8 documented forms (kgm2/s2, kg.m^2.s^-2, ...)."""
    num, den = [], []
    for u, v in zip(SIU, sig):
        if v > 0 or (v < 0 and not div):
            num.append(u + ((hat + str(v)) if v != 1 else ''))
        elif v < 0:
            den.append(u + ((hat + str(-v)) if v != -1 else ''))
    s = dot.join(num)
    if den:
        s += '/' + dot.join(den)
    return s


# ---------------------------------------------------------------- strategy
def _values():
    wide = st.tuples(st.floats(1.0, 10.0, allow_nan=False), st.integers(-20, 20), st.booleans()).map(
        lambda t: (-1.0 if t[2] else 1.0) * t[0] * 10.0 ** t[1])
    fl = st.one_of(st.floats(-1e3, 1e3, allow_nan=False), wide,
                   st.sampled_from([0.0, -0.0, 1.0, -1.0, 0.5, 0.1, 3.0, 1e-7, 60.0]))
    it = st.one_of(st.integers(-12, 12), st.integers(-10 ** 6, 10 ** 6))
    return st.one_of(fl.map(_enc), it)


def _sigs():
    dense = st.lists(st.integers(-3, 3), min_size=9, max_size=9)
    wide = st.lists(st.integers(-9, 9), min_size=9, max_size=9)
    sparse = st.lists(st.one_of(st.just(0), st.just(0), st.integers(-9, 9)), min_size=9, max_size=9)
    return st.one_of(dense, wide, sparse)


def strategy(tier):
    e = _env()
    names = e.names
    table = []
    dim = e.byname.get("Dimensionless")
    for a in e.classes:
        for op, tab in (("*", a._mul), ("/", a._div)):
            for b in tab:
                if a is dim or b is dim or (op == "/" and a is b) or b not in e.sig:
                    continue
                table.append((a.__name__, b.__name__, op))
    val = _values()
    trial = st.tuples(st.integers(0, 99), val, st.integers(0, 99), val, val).map(list)
    anypair = st.tuples(st.sampled_from(names), st.sampled_from(names), st.sampled_from(["*", "/"]))
    same = st.tuples(st.sampled_from(names), st.sampled_from(["*", "/"])).map(lambda t: (t[0], t[0], t[1]))
    pairs = [anypair, anypair, same]
    if table:
        pairs += [st.sampled_from(table), st.sampled_from(table)]
    pair = st.tuples(st.one_of(*pairs), st.lists(trial, min_size=1, max_size=3)).map(
        lambda t: {"t": "pair", "a": t[0][0], "b": t[0][1], "op": t[0][2], "trials": t[1]})
    sig = st.tuples(_sigs(), val).map(lambda t: {"t": "sig", "sig": t[0], "v": t[1]})
    asq = st.tuples(st.sampled_from(names), st.integers(0, 8), st.integers(-2, 2), val).map(
        lambda t: {"t": "asq", "q": t[0], "pos": t[1], "delta": t[2], "v": t[3]})
    small = st.lists(st.one_of(st.just(0), st.integers(-4, 4)), min_size=9, max_size=9)
    sisi = st.tuples(small, st.one_of(small, st.none()), val, val, st.sampled_from(["*", "/"]), val).map(
        lambda t: {"t": "sisi", "s1": t[0], "s2": t[1] if t[1] is not None else list(t[0]),
                   "v1": t[2], "v2": t[3], "op": t[4], "k": t[5]})
    # weights 6:1.5:1:1.5 (one_of() de-duplicates repeated strategy objects, hence the explicit selector)
    return st.integers(0, 19).flatmap(
        lambda w: pair if w < 12 else sig if w < 15 else asq if w < 17 else sisi)


def enumerate_cases(tier):
    e = _env()
    cases = []
    n = len(e.names)
    for i, a in enumerate(e.names):
        for j, b in enumerate(e.names):
            for op in ("*", "/"):
                trials = [[0, 3, 0, 2, 2],
                          [1 + i, _enc(-7.5), 2 + j, _enc(0.25), _enc(-0.5)],
                          [7 * i + 3 * j + 3, 12, 5 * j + i + 1, _enc(-3e-4), 3],
                          # operands in the units with the smallest / largest factor of their class
                          ["min", 2, "min", 3, 2], ["max", 2, "min", 3, _enc(0.5)]]
                cases.append({"t": "pair", "a": a, "b": b, "op": op, "trials": trials})
    zero = [0] * 9
    exps = [x for x in range(-9, 10) if x != 0]
    cases.append({"t": "sig", "sig": list(zero), "v": 2})
    for p in range(9):
        for x in exps:
            s = list(zero)
            s[p] = x
            cases.append({"t": "sig", "sig": s, "v": _enc(1.5)})
    for p in range(9):
        for q in range(p + 1, 9):
            for x in exps:
                for y in exps:
                    s = list(zero)
                    s[p], s[q] = x, y
                    cases.append({"t": "sig", "sig": s, "v": -4})
    for a in e.names:
        cases.append({"t": "asq", "q": a, "pos": 0, "delta": 0, "v": _enc(2.5)})
        for p in range(9):
            for d in (-1, 1):
                cases.append({"t": "asq", "q": a, "pos": p, "delta": d, "v": _enc(2.5)})
    assert n * n * 2 <= len(cases)
    return cases


# ---------------------------------------------------------------- interpreter helpers
def _nz(sig):
    return sum(1 for x in sig if x != 0)


def _get_sig(obj):
    """signature as reported by an SI instance (list of 9 ints) or None."""
    try:
        s = obj.sisig()
    except Exception:
        return None
    try:
        s = [int(x) for x in s]
    except Exception:
        return None
    return s if len(s) == 9 else None


def _check_generic(out, e, r, want_sig, want_val, what, detail):
    """r must be a generic SI carrying want_sig / want_val."""
    U = e.U
    if type(r) is not U.SI:
        out.fail(what + "-result-type", dict(detail, got=type(r).__name__))
        return False
    if _get_sig(r) != want_sig:
        out.fail(what + "-signature", dict(detail, got=_get_sig(r), want=want_sig))
        return False
    if not _same(r, want_val):
        out.fail(what + "-value", dict(detail, got=float(r).hex(), want=float(want_val).hex()))
        return False
    if all(-9 <= x <= 9 for x in want_sig):
        try:
            back = U.SI.str_to_sisig(r.unit)
        except Exception as ex:
            out.fail("unit-string-unparsable", dict(detail, unit=r.unit, error=repr(ex)))
            return False
        if back != want_sig:
            out.fail("unit-string-roundtrip", dict(detail, unit=r.unit, got=back, want=want_sig))
            return False
    return True


def _check_product(out, e, r, want_sig, want_val, detail):
    """r = result of quantity (*|/) quantity: named Quantity or generic SI.  Returns 'named'/'si'/None."""
    U = e.U
    if isinstance(r, U.Quantity):
        cls = type(r)
        if cls not in e.sig:
            out.fail("pair-result-type", dict(detail, got=cls.__name__))
            return None
        if e.sig[cls] != want_sig:
            out.fail("pair-signature-named", dict(detail, result=cls.__name__, got=e.sig[cls], want=want_sig))
            return None
        if not _same(r, want_val):
            out.fail("pair-value", dict(detail, result=cls.__name__, got=float(r).hex(),
                                        want=float(want_val).hex()))
            return None
        if not _same(r.si, want_val):
            out.fail("pair-value", dict(detail, result=cls.__name__, via="si"))
            return None
        return "named"
    if _check_generic(out, e, r, want_sig, want_val, "pair", detail):
        return "si"
    return None


def _check_asq(out, e, g, sig, val, detail):
    """g.as_quantity(C) for every class: succeeds iff signatures are equal, value preserved."""
    for c in e.classes:
        match = e.sig[c] == sig
        try:
            r = g.as_quantity(c)
        except ValueError:
            if match:
                out.fail("asq-refuses-match", dict(detail, cls=c.__name__, sig=sig))
                return
            continue
        except Exception as ex:
            out.fail("asq-raises-other", dict(detail, cls=c.__name__, error=repr(ex)))
            return
        if not match:
            out.fail("asq-accepts-mismatch", dict(detail, cls=c.__name__, sig=sig, cls_sig=e.sig[c]))
            return
        if type(r) is not c or not _same(r, val) or r.unit != c._baseunit:
            out.fail("asq-value", dict(detail, cls=c.__name__, got=repr(r), want=float(val).hex()))
            return
        out.label("as_quantity-accepted")


def _raises(fn, exc):
    """'ok' if fn raises exc, 'other:<name>' for another exception, else ('value', result)."""
    try:
        r = fn()
    except exc:
        return "ok"
    except Exception as ex:
        return "other:" + type(ex).__name__
    return ("value", r)


def _check_refusals(out, x, y, detail):
    """x and y are of different types: + - refused (ValueError), ordering refused (TypeError), == False."""
    for name, fn in (("add", lambda: x + y), ("sub", lambda: x - y)):
        r = _raises(fn, ValueError)
        if r != "ok":
            out.fail("mixed-%s-accepted" % name, dict(detail, got=repr(r)))
            return
    for name, fn in (("lt", lambda: x < y), ("le", lambda: x <= y), ("gt", lambda: x > y), ("ge", lambda: x >= y)):
        r = _raises(fn, TypeError)
        if r != "ok":
            out.fail("mixed-order-accepted", dict(detail, op=name, got=repr(r)))
            return
    try:
        eq, ne = (x == y), (x != y)
    except Exception as ex:
        out.fail("mixed-eq-raises", dict(detail, error=repr(ex)))
        return
    if eq is not False or ne is not True:
        out.fail("mixed-eq-true", dict(detail, eq=repr(eq), ne=repr(ne)))


def _check_same_type(out, x, y, sx, sy, unit, detail, si_sig=None):
    """x, y same type (and signature): + - and comparisons act on the SI values; left unit kept."""
    for name, fn, want in (("add", lambda: x + y, sx + sy), ("sub", lambda: x - y, sx - sy)):
        try:
            r = fn()
        except Exception as ex:
            out.fail("same-%s" % name, dict(detail, error=repr(ex)))
            return
        if type(r) is not type(x) or not _same(r, want) or r.unit != unit:
            out.fail("same-%s" % name, dict(detail, got=repr(r), got_hex=float(r).hex(), want=want.hex(),
                                            unit=unit))
            return
        if si_sig is not None and _get_sig(r) != si_sig:
            out.fail("same-%s" % name, dict(detail, got_sig=_get_sig(r), want=si_sig))
            return
    try:
        got = (x < y, x <= y, x == y, x != y, x >= y, x > y)
    except Exception as ex:
        out.fail("same-cmp", dict(detail, error=repr(ex)))
        return
    want = (sx < sy, sx <= sy, sx == sy, sx != sy, sx >= sy, sx > sy)
    if got != want:
        out.fail("same-cmp", dict(detail, got=got, want=want))


def _check_scaling(out, e, x, sx, k, sig, unit, detail):
    """x * k, k * x, x / k keep type/unit/signature and scale the SI value; k / x inverts the signature."""
    U = e.U
    kk = k if k != 0 else 2
    for name, fn, want in (("q*k", lambda: x * kk, sx * kk), ("k*q", lambda: kk * x, sx * kk),
                           ("q/k", lambda: x / kk, sx / kk)):
        try:
            r = fn()
        except Exception as ex:
            out.fail("scale-raises", dict(detail, op=name, error=repr(ex)))
            return
        if type(r) is not type(x):
            out.fail("scale-type", dict(detail, op=name, got=type(r).__name__))
            return
        if not _same(r, want):
            out.fail("scale-value", dict(detail, op=name, got=float(r).hex(), want=float(want).hex()))
            return
        if r.unit != unit:
            out.fail("scale-unit", dict(detail, op=name, got=r.unit, want=unit))
            return
        if type(x) is U.SI and _get_sig(r) != sig:
            out.fail("scale-signature", dict(detail, op=name, got=_get_sig(r), want=sig))
            return
    if sx == 0.0:
        out.label("k/q-skipped-zero")
        return
    try:
        r = kk / x
    except Exception as ex:
        out.fail("rdiv-raises", dict(detail, error=repr(ex)))
        return
    want = float(kk) / sx
    wsig = [-v for v in sig]
    kind = _check_product(out, e, r, wsig, want, dict(detail, op="k/q"))
    if kind:
        out.label("k/q->" + kind)


# ---------------------------------------------------------------- case interpreters
def _run_pair(case, out):
    e = _env()
    U = e.U
    A = e.byname.get(case["a"])
    B = e.byname.get(case["b"])
    if A is None or B is None:
        raise Inconclusive("unknown class in case")
    op = case["op"]
    dim = e.byname.get("Dimensionless")
    sa_sig, sb_sig = e.sig[A], e.sig[B]
    for c in (A, B):
        got = _get_sig(c)
        if got != e.sig[c]:
            out.fail("class-sisig", {"cls": c.__name__, "got": got, "want": e.sig[c]})
            return
    want_sig = [x + y for x, y in zip(sa_sig, sb_sig)] if op == "*" else [x - y for x, y in zip(sa_sig, sb_sig)]
    out.label("op=" + op)
    out.label("same-class" if A is B else "different-class")
    for ua, va, ub, vb, k in case["trials"]:
        va, vb, k = _num(va), _num(vb), _num(k)
        ula, ulb = list(A._units), list(B._units)
        pick = lambda cls, ul, u: (min if u == "min" else max)(ul, key=lambda x: cls._units[x]) \
            if isinstance(u, str) else ul[u % len(ul)]
        unit_a, unit_b = pick(A, ula, ua), pick(B, ulb, ub)
        det = {"a": A.__name__, "b": B.__name__, "op": op, "ua": unit_a, "ub": unit_b,
               "va": repr(va), "vb": repr(vb)}
        try:
            qa = A(va, unit_a)
            qb = B(vb, unit_b)
            if op == "/" and float(qb) == 0.0:
                qb = B(1, unit_b)
                vb = 1
        except Exception as ex:
            out.fail("construct-raises", dict(det, error=repr(ex)))
            return
        sa, sb = float(qa), float(qb)
        want_val = sa * sb if op == "*" else sa / sb
        if math.isinf(sa) or math.isinf(sb) or want_val != want_val:
            raise Inconclusive("non-finite operands")
        # 1. quantity (*|/) quantity
        try:
            r = qa * qb if op == "*" else qa / qb
        except Exception as ex:
            out.fail("pair-raises", dict(det, error=repr(ex)))
            return
        kind = _check_product(out, e, r, want_sig, want_val, det)
        if kind is None:
            return
        if kind == "named":
            hand = not (A is dim or B is dim or (op == "/" and A is B))
            out.label("result=named-handwritten" if hand else "result=named-generated")
            if hand:
                out.nontrivial = True
        else:
            out.label("result=generic-SI")
            if _nz(want_sig) >= 2:
                out.nontrivial = True
        # 1b. the augmented form is the same operation
        try:
            a_ = qa
            if op == "*":
                a_ *= qb
            else:
                a_ /= qb
        except Exception as ex:
            out.fail("pair-raises", dict(det, form=op + "=", error=repr(ex)))
            return
        if type(a_) is not type(r) or not _same(a_, float(r)) or _get_sig(a_) != _get_sig(r) or not _same(qa, sa):
            out.fail("pair-augmented-differs", dict(det, form=op + "=", got=repr(a_), want=repr(r)))
            return
        # 2. the same through generic SI operands
        try:
            ga, gb = qa.asSI(), qb.asSI()
        except Exception as ex:
            out.fail("asSI-raises", dict(det, error=repr(ex)))
            return
        if not _check_generic(out, e, ga, sa_sig, sa, "asSI", det):
            return
        if not _check_generic(out, e, gb, sb_sig, sb, "asSI", det):
            return
        combos = (("SIxQ", ga, qb), ("QxSI", qa, gb), ("SIxSI", ga, gb))
        g = None
        for name, x, y in combos:
            try:
                g = x * y if op == "*" else x / y
            except Exception as ex:
                out.fail("si-op-raises", dict(det, combo=name, error=repr(ex)))
                return
            if not _check_generic(out, e, g, want_sig, want_val, "si-op", dict(det, combo=name)):
                return
        # 3. conversion of the generic result to every named class
        _check_asq(out, e, g, want_sig, want_val, det)
        if out.disc:
            return
        # 4. + - ordering ==
        if A is B:
            _check_same_type(out, qa, qb, sa, sb, unit_a, det)
        if not out.disc and math.isfinite(sa):
            # same type, SI values that differ by one ulp / by a few parts in 10**13: still 'acts on the SI values'
            for sn in (math.nextafter(sa, math.inf), sa * (1.0 + 2e-13), sa * (1.0 - 3e-15)):
                try:
                    qn = A(sn)
                except Exception:
                    continue
                if float(qn) != sn or not math.isfinite(sn):
                    continue
                out.label("near-equal-operands")
                _check_same_type(out, qa, qn, sa, sn, unit_a, dict(det, near=sn.hex()))
                if out.disc:
                    return
        if A is not B:
            _check_refusals(out, qa, qb, det)
        if out.disc:
            return
        if sa_sig != sb_sig:
            # a quantity does not become a generic SI value of another dimension by being passed to the constructor
            # (2 km as SI(.., 's') would be 2000 s and add to seconds)
            sb_str = ref_print(sb_sig, True, '', '.')
            for name, src in (("quantity", qa), ("asSI()", ga)):
                rr = _raises(lambda: U.SI(src, sb_str), (ValueError, TypeError))
                if rr != "ok":
                    out.fail("si-constructed-from-quantity-of-other-dimension",
                             dict(det, source=name, unit=sb_str, got=repr(rr)))
                    return
        _check_refusals(out, qa, ga, dict(det, other="own asSI()"))
        _check_refusals(out, ga, qa, dict(det, other="asSI() vs quantity"))
        if out.disc:
            return
        kk = k if k != 0 else 2
        for name, fn in (("q+k", lambda: qa + kk), ("k+q", lambda: kk + qa), ("q-k", lambda: qa - kk),
                         ("k-q", lambda: kk - qa)):
            rr = _raises(fn, ValueError)
            if rr != "ok":
                out.fail("mixed-number-addsub-accepted", dict(det, op=name, got=repr(rr)))
                return
        for name, fn in (("q<k", lambda: qa < kk), ("q>=k", lambda: qa >= kk), ("k<q", lambda: kk < qa),
                         ("k>=q", lambda: kk >= qa)):
            rr = _raises(fn, TypeError)
            if rr != "ok":
                out.fail("mixed-number-order-accepted", dict(det, op=name, got=repr(rr)))
                return
        # 5. scaling by numbers
        _check_scaling(out, e, qa, sa, k, sa_sig, unit_a, det)
        if out.disc:
            return
        _check_scaling(out, e, gb, sb, k, sb_sig, gb.unit, dict(det, scaled="SI of b"))
        if out.disc:
            return
    # a caller that edits the list it got from sisig() edits its own list: the signatures of the types stay
    for c in (A, B):
        try:
            q1 = c(1.0)
            for holder in (q1, q1.asSI(), c):
                got = holder.sisig()
                if isinstance(got, list) and got:
                    got[0] += 7
                    got.reverse()
            if _get_sig(c) != e.sig[c] or _get_sig(c(2.0)) != e.sig[c] or _get_sig(c(2.0).asSI()) != e.sig[c]:
                out.fail("class-sisig", {"cls": c.__name__, "after": "the caller changed a list returned by sisig()",
                                         "got": _get_sig(c(2.0)), "want": e.sig[c]})
                return
        except Exception as ex:
            out.fail("class-sisig", {"cls": c.__name__, "error": repr(ex)})
            return
    out.info = {"want_sig": want_sig}


def _make_si(out, e, sig, v, detail):
    """Build SI(v, <reference string>) and check what the parser made of it."""
    U = e.U
    s0 = ref_print(sig, True, '', '.')
    try:
        s = U.SI(v, s0)
    except Exception as ex:
        out.fail("parse-reference-string", dict(detail, string=s0, error=repr(ex)))
        return None
    if _get_sig(s) != sig:
        out.fail("parse-reference-string", dict(detail, string=s0, got=_get_sig(s), want=sig))
        return None
    if not _same(s, float(v)):
        out.fail("si-construct-value", dict(detail, got=float(s).hex()))
        return None
    return s


def _run_sig(case, out):
    e = _env()
    U = e.U
    sig = [int(x) for x in case["sig"]]
    if len(sig) != 9 or any(not -9 <= x <= 9 for x in sig):
        raise Inconclusive("signature outside the single-digit domain")
    v = _num(case["v"])
    det = {"sig": sig}
    nz = _nz(sig)
    out.label("nonzero-exponents=%d" % min(nz, 4))
    if any(x < 0 for x in sig) and all(x <= 0 for x in sig):
        out.label("empty-numerator")
    if any(abs(x) > 3 for x in sig):
        out.label("exponent>3")
    # parser on the 8 documented forms (reference printer)
    for div, hat, dot in FORMATS:
        rs = ref_print(sig, div, hat, dot)
        try:
            got = U.SI.str_to_sisig(rs)
        except Exception as ex:
            out.fail("parse-reference-string", dict(det, string=rs, error=repr(ex)))
            return
        if got != sig:
            out.fail("parse-reference-string", dict(det, string=rs, got=got))
            return
    s = _make_si(out, e, sig, v, det)
    if s is None:
        return
    # printer -> parser round trip in all 8 formats, and the stored unit string
    strings = [("unit", s.unit)]
    for div, hat, dot in FORMATS:
        try:
            p = s.siunit(div, hat, dot)
        except Exception as ex:
            out.fail("print-raises", dict(det, fmt=[div, hat, dot], error=repr(ex)))
            return
        strings.append(((div, hat, dot), p))
        out.label("printer==reference" if p == ref_print(sig, div, hat, dot) else "printer!=reference")
    # the static printer takes the caller's dictionary: the order in which the caller wrote the keys (and keys
    # with exponent 0) are not part of the signature
    rot = (sum(abs(x) for x in sig) + nz) % 9
    order = list(range(9))[::-1]
    order = order[rot:] + order[:rot]
    for keep_zero in (False, True):
        d = {SIU[i]: sig[i] for i in order if sig[i] != 0 or keep_zero}
        for div, hat, dot in FORMATS:
            try:
                p = U.Quantity.sidict_to_unit(d, div, hat, dot)
            except Exception as ex:
                out.fail("print-raises", dict(det, fmt=[div, hat, dot], sidict=list(d.items()), error=repr(ex)))
                return
            # (the class-level printer writes an empty numerator as "1" -- "1/s", "1" -- which is a display form
            # the parser does not claim to read; the instance printer writes "/s" and "")
            if isinstance(p, str) and p[:1] == "1" and not any(x > 0 or (x < 0 and not div) for x in sig):
                p = p[1:]
                out.label("sidict-printer-1-placeholder")
            strings.append((("sidict", list(d), div, hat, dot), p))
    for fmt, p in strings:
        if not isinstance(p, str):
            out.fail("print-parse-roundtrip", dict(det, fmt=fmt, printed=repr(p)))
            return
        try:
            back = U.SI.str_to_sisig(p)
        except Exception as ex:
            out.fail("print-parse-roundtrip", dict(det, fmt=fmt, printed=p, error=repr(ex)))
            return
        if back != sig:
            out.fail("print-parse-roundtrip", dict(det, fmt=fmt, printed=p, got=back))
            return
        try:
            s2 = U.SI(v, p)
            eq = (s2 == s)
        except Exception as ex:
            out.fail("print-parse-roundtrip", dict(det, fmt=fmt, printed=p, error=repr(ex)))
            return
        if eq is not True:
            out.fail("print-parse-roundtrip", dict(det, fmt=fmt, printed=p, eq=repr(eq)))
            return
    _check_asq(out, e, s, sig, float(v), det)
    out.nontrivial = nz >= 2


def _run_asq(case, out):
    e = _env()
    c = e.byname.get(case["q"])
    if c is None:
        raise Inconclusive("unknown class in case")
    sig = list(e.sig[c])
    pos, delta = case["pos"] % 9, int(case["delta"])
    sig[pos] += delta
    if any(not -9 <= x <= 9 for x in sig):
        raise Inconclusive("signature outside the single-digit domain")
    v = _num(case["v"])
    det = {"near": c.__name__, "pos": SIU[pos], "delta": delta, "sig": sig}
    out.label("asq-exact" if delta == 0 else "asq-near-miss")
    s = _make_si(out, e, sig, v, det)
    if s is None:
        return
    _check_asq(out, e, s, sig, float(v), det)
    if out.disc:
        return
    # the route quantity -> SI -> quantity
    if delta == 0:
        try:
            q = c(v, c._baseunit)
            back = q.asSI().as_quantity(c)
        except Exception as ex:
            out.fail("asq-refuses-match", dict(det, route="asSI", error=repr(ex)))
            return
        if type(back) is not c or not _same(back, float(q)):
            out.fail("asq-value", dict(det, route="asSI", got=repr(back)))
            return
    out.nontrivial = _nz(sig) >= 2 or delta != 0


def _run_sisi(case, out):
    e = _env()
    U = e.U
    s1, s2 = [int(x) for x in case["s1"]], [int(x) for x in case["s2"]]
    if any(not -9 <= x <= 9 for x in s1 + s2):
        raise Inconclusive("signature outside the single-digit domain")
    v1, v2, k, op = _num(case["v1"]), _num(case["v2"]), _num(case["k"]), case["op"]
    if op == "/" and float(v2) == 0.0:
        v2 = 1
    det = {"s1": s1, "s2": s2, "op": op, "v1": repr(v1), "v2": repr(v2)}
    x = _make_si(out, e, s1, v1, det)
    y = _make_si(out, e, s2, v2, det) if x is not None else None
    if x is None or y is None:
        return
    fx, fy = float(x), float(y)
    want_sig = [a + b for a, b in zip(s1, s2)] if op == "*" else [a - b for a, b in zip(s1, s2)]
    want_val = fx * fy if op == "*" else fx / fy
    try:
        r = x * y if op == "*" else x / y
    except Exception as ex:
        out.fail("si-op-raises", dict(det, error=repr(ex)))
        return
    if not _check_generic(out, e, r, want_sig, want_val, "si-op", det):
        return
    if all(-9 <= v <= 9 for v in want_sig):
        _check_asq(out, e, r, want_sig, want_val, det)
        if out.disc:
            return
    _check_scaling(out, e, x, fx, k, s1, x.unit, det)
    if out.disc:
        return
    if s1 == s2:
        out.label("si-same-signature")
        _check_same_type(out, x, y, fx, fy, x.unit, det, si_sig=s1)
        # comparisons act on the SI values also when one of them is not a number (an undefined result such as
        # inf - inf): every ordering is False, like for the floats themselves
        if not out.disc:
            try:
                xn = e.U.SI(float("nan"), x.unit)
                got = (xn < y, xn <= y, xn == y, xn != y, xn >= y, xn > y, y <= xn, y >= xn)
            except Exception as ex:
                out.fail("same-cmp", dict(det, nan_operand=True, error=repr(ex)))
                return
            if got != (False, False, False, True, False, False, False, False):
                out.fail("same-cmp", dict(det, nan_operand=True, got=got))
    else:
        out.label("si-different-signature")
        for name, fn, exc in (("add", lambda: x + y, ValueError), ("sub", lambda: x - y, ValueError),
                              ("order", lambda: x < y, TypeError), ("order", lambda: x <= y, TypeError),
                              ("order", lambda: x > y, TypeError), ("order", lambda: x >= y, TypeError)):
            rr = _raises(fn, exc)
            if rr != "ok":
                out.fail("si-%s-mixed-signature-accepted" % name, dict(det, got=repr(rr)))
        try:
            eq, ne = (x == y), (x != y)
        except Exception as ex:
            out.fail("mixed-eq-raises", dict(det, error=repr(ex)))
            return
        if eq is not False or ne is not True:
            out.fail("mixed-eq-true", dict(det, eq=repr(eq)))
    # a chain of products: exponents beyond one digit (m12, s-14 ..) are ordinary generic values, too - scaling,
    # negation, absolute value and same-signature addition keep working on them
    if not out.disc and math.isfinite(want_val) and abs(want_val) < 1e100:
        try:
            r2 = r * r
            sig2 = [2 * v for v in want_sig]
            v2_ = want_val * want_val
            if _get_sig(r2) != sig2 or not _same(r2, v2_):
                out.fail("si-op-signature" if _get_sig(r2) != sig2 else "si-op-value", dict(det, chain="r*r"))
            else:
                for nm_, fn_, wv_ in (("scale", lambda: r2 * 2.0, v2_ * 2.0), ("rscale", lambda: 2.0 * r2, 2.0 * v2_),
                                      ("div", lambda: r2 / 2.0, v2_ / 2.0), ("neg", lambda: -r2, -v2_),
                                      ("abs", lambda: abs(r2), abs(v2_)), ("add", lambda: r2 + r2, v2_ + v2_)):
                    z = fn_()
                    if _get_sig(z) != sig2 or not _same(z, wv_):
                        out.fail("scale-value" if _get_sig(z) == sig2 else "scale-signature",
                                 dict(det, chain="(r*r) " + nm_, got_sig=_get_sig(z), want_sig=sig2))
                        break
                if any(abs(v) >= 10 for v in sig2):
                    out.label("exponent>=10")
        except Exception as ex:
            out.fail("si-op-raises", dict(det, chain="r*r and its scaling", error=repr(ex)))
    out.nontrivial = _nz(want_sig) >= 2


def run_case(case):
    out = Outcome()
    e = _env()
    if e.badsig:
        out.fail("sidict-unknown-key", e.badsig)
        return out
    t = case.get("t")
    out.label("case=" + str(t))
    if t == "pair":
        _run_pair(case, out)
    elif t == "sig":
        _run_sig(case, out)
    elif t == "asq":
        _run_asq(case, out)
    elif t == "sisi":
        _run_sisi(case, out)
    else:
        raise Inconclusive("unknown case shape")
    return out


RULE = RULE + " " + "Later additions: the class-level printer Quantity.sidict_to_unit with the caller's key order and zero entries round-trips through the parser (the '1' placeholder of an empty numerator is stripped)."
RULE = RULE + (" Round 20: constructing SI(q, <unit string of another dimension>) from a quantity q (or its asSI()) is refused.")
