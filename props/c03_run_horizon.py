"""C03 - run horizon: bounded runs execute exactly the events up to the bound, leave the clock at the
bound, never execute beyond the replication end, stay resumable, and any segmentation of a replication
into bounded runs / steps / stop-start pauses equals one uninterrupted run."""
from hypothesis import strategies as st

from vlib import progs
from vlib.runner import Outcome
from vlib.simharness import Harness, RefSim, enc_ref, enc_obs

ID = "C03"
RULE = ("Hypothesis (program, segmentation) pairs: program as in C02 without illegal requests; segmentation = "
        "<=8 pieces run_up_to / run_up_to_including / step / pause_after(k)+{start,bounded run} (+ in ~3% of the cases one stop() issued by a TIME_CHANGED listener at the n-th clock change), whose bounds are "
        "resolved against the reference state: time of the next / k-th pending event (exact cut on an event time, "
        "ties included), midpoint to the next event, the clock itself, a fraction of the remaining horizon, the "
        "warm-up time, the end, beyond the end, before the clock (optionally as values of the other numeric type: x.5 floats on an int clock, whole ints on a float clock); optionally after an earlier replication of another length on the same simulator; always completed by start(). Oracle: (i) per "
        "piece the reference semantics (trace so far, clock == bound, STOPPED/STARTED and resumable unless the "
        "bound reached the end, then ENDED); (ii) metamorphic: trace + final clock equal one uninterrupted start() "
        "of the same program on a fresh simulator (when no exclusive bound == end was used); (iii) no executed "
        "event later than the end, clock never decreases, commands after the end are refused. Non-trivial = >=3 of "
        "{cut exactly on an event time, cut strictly between events, step, stop/start pause, >=2 bounded pieces, "
        "event at or beyond the end} with >=4 executed events.")
ASSUMPTIONS = [
    "a bound before the clock may be refused or be a no-op (the property does not say which); the clock must not move back",
    "pauses are placed with a handler gate + stop() from a helper thread, i.e. exactly after event k",
    "the reference interpreter RefSim is the trusted oracle",
]
NONTRIVIAL_FLOOR = 0.10


def budget(tier):
    if tier == "quick":
        return {"examples": 4800, "shards": 16}
    return {"examples": 120000, "shards": 16}


def _mk_sel(t):
    w, k = t
    for name, upto in (("event", 25), ("mid", 50), ("frac", 70), ("clock", 75), ("warmup", 83),
                       ("end", 88), ("beyond", 93), ("before", 100)):
        if w < upto:
            break
    if name == "event":
        return ["event", k % 6]
    if name == "mid":
        return ["mid", k % 4]
    if name == "frac":
        return ["frac", 1 + k % 9]
    return [name]


_SEL = st.tuples(st.integers(0, 99), st.integers(0, 35)).map(_mk_sel)


def _piece():
    bounded = st.tuples(st.sampled_from(["run_up_to", "run_up_to_incl"]), _SEL).map(list)
    starter = st.one_of(st.just(["start"]), bounded)
    return st.one_of(
        bounded, bounded, bounded,
        st.just(["step"]), st.just(["step"]),
        st.tuples(st.just("pause_after"), st.integers(1, 6), starter).map(list),
        st.tuples(st.just("pause_after"), st.integers(1, 3), starter).map(list),
    )


def _tc_piece():
    # a stop() issued by a TIME_CHANGED listener at the n-th change of the clock (costs pydsol's 1-second grace
    # loop, because the stop comes from the run thread itself: at most one per case, in a few per cent of the cases)
    bounded = st.tuples(st.sampled_from(["run_up_to", "run_up_to_incl"]), _SEL).map(list)
    starter = st.one_of(st.just(["start"]), st.just(["start"]), bounded)
    return st.tuples(st.just("tc_stop"), st.integers(1, 4), starter).map(list)


def _with_tc(t):
    case, tc, pos, _unused = t
    # (Hypothesis draws small values far more often than 1/30: the selector is a hash of the generated case itself)
    import json
    import zlib
    if zlib.crc32(json.dumps(case, sort_keys=True).encode()) % 32 == 7:
        pieces = list(case["pieces"])
        pieces.insert(pos % (len(pieces) + 1), tc)
        case = dict(case, pieces=pieces)
    return case


def strategy(tier):
    return st.tuples(_strategy0(tier), _tc_piece(), st.integers(0, 8), st.sampled_from(list(range(30)))).map(_with_tc)


def _strategy0(tier):
    prog = progs.program_strategy(max_nodes=16 if tier == "quick" else 30, illegal=False, cap=150)
    return st.fixed_dictionaries({"prog": prog, "pieces": st.lists(_piece(), min_size=1, max_size=8),
                                  # bounds of the other numeric type (float bounds between the ticks of an int
                                  # clock, whole-number int bounds on a float clock)
                                  "other_type": st.sampled_from([False, False, True]),
                                  # an earlier replication with another length was run on the same simulator
                                  "prior": st.sampled_from([None, None, None, "longer", "shorter"])})


def _other_length(rep, ck, longer):
    r = dict(rep)
    ln = rep["length"]
    if ck == "int":
        r["length"] = ln * 2 if longer else max(1, ln // 2)
    elif ck == "float":
        v = float.fromhex(ln)
        r["length"] = (v * 2 if longer else v / 2).hex()
    else:
        v = float.fromhex(ln[0])
        r["length"] = [(v * 2 if longer else v / 2).hex(), ln[1]]
    return r


def _resolve(sel, ref, clock_kind, other=False):
    """bound (reference number) for a selector, from the reference state; other: use the other numeric type"""
    b, lab = _resolve0(sel, ref, clock_kind, other)
    if other and clock_kind == "float" and isinstance(b, float) and b == b and abs(b) < 2.0 ** 53 and b == int(b):
        b = int(b)
    return b, lab


def _resolve0(sel, ref, clock_kind, other):
    pend = sorted(ref.pending, key=lambda e: (e[0], e[1], e[2]))
    times = [e[0] for e in pend]
    k = sel[0]
    if k == "event":
        if not times:
            return ref.clock, "cut=clock"
        return times[min(sel[1], len(times) - 1)], "cut=on-event"
    if k == "mid":
        if not times:
            return ref.clock, "cut=clock"
        i = min(sel[1], len(times) - 1)
        lo = ref.clock if i == 0 else times[i - 1]
        hi = times[i]
        if hi == float("inf") or lo == float("-inf"):
            return lo, "cut=on-event"
        m = (lo + hi) // 2 if clock_kind == "int" else (lo + hi) / 2
        if clock_kind == "int" and other and (lo + hi) % 2 and abs(lo + hi) < 2 ** 52:
            m = (lo + hi) / 2            # x.5: a float bound strictly between two ticks of the int clock
        if m < ref.clock:
            m = ref.clock
        return m, ("cut=between" if lo < m < hi else "cut=on-event")
    if k == "clock":
        return ref.clock, "cut=clock"
    if k == "frac":
        span = ref.end - ref.clock
        if clock_kind == "int":
            return ref.clock + (span * sel[1]) // 10, "cut=frac"
        return ref.clock + span * (sel[1] / 10.0), "cut=frac"
    if k == "warmup":
        return (ref.warm if ref.warm >= ref.clock else ref.clock), "cut=warmup"
    if k == "end":
        return ref.end, "cut=end"
    if k == "beyond":
        return ref.end + (5 if clock_kind == "int" and not other else 2.5), "cut=beyond-end"
    return ref.clock - (1 if clock_kind == "int" else 0.5), "cut=before-clock"


def _to_json_time(b, clock_kind):
    if clock_kind == "duration":
        return [float(b).hex(), "s"]
    if clock_kind == "float" and not isinstance(b, int):
        return float(b).hex()
    return b            # (an int, or a float bound for an int clock: handed over as it is)


def run_case(case):
    from pydsol.core.simulator import RunState, ReplicationState
    from pydsol.core.utils import DSOLError
    prog = case["prog"]
    ck = prog["clock"]
    out = Outcome()
    out.label("clock=" + ck)
    ref = RefSim(prog)
    ref.initialize()
    h = Harness(prog)
    exclusive_end_cut = False
    feats = set()
    nbounded = 0
    concrete = []
    other = bool(case.get("other_type")) and ck != "duration"
    if other:
        out.label("bounds-of-other-numeric-type")
    abandoned = False
    # In a quarter of the cases the handlers are impatient: every third executed event asks for the rest of the
    # replication (start / a bounded run to the end) while the run is in progress.  That is refused - and a refused
    # command changes nothing: the run in progress keeps its own bound.
    import zlib
    import json as _json
    nag = {"n": 0, "accepted": []}
    if zlib.crc32(_json.dumps(case, sort_keys=True).encode()) % 4 == 1:
        out.label("refused-commands-from-handlers")

        def impatient(m, seq, node):
            nag["n"] += 1
            if nag["n"] % 3:
                return
            sim_ = m.simulator
            end_ = sim_.replication.end_sim_time
            try:
                if nag["n"] % 2:
                    sim_.start()
                elif nag["n"] % 4:
                    sim_.run_up_to_including(end_)
                else:
                    sim_.run_up_to(end_)
                nag["accepted"].append(nag["n"])
            except DSOLError:
                pass
        h.model.on_exec = impatient
    try:
        if case.get("prior"):
            out.label("prior-replication=" + case["prior"])
            h.initialize(_other_length(prog["rep"], ck, case["prior"] == "longer"))
            h.run_piece(["start"])
        h.initialize()
        pieces = list(case["pieces"]) + [["start"], ["start"]]
        for pi, piece in enumerate(pieces):
            kind = piece[0]
            clock_before = ref.clock
            was_ended = ref.ended
            expect_refusal = was_ended
            may_refuse = False
            cpiece = None
            if kind in ("run_up_to", "run_up_to_incl"):
                b, lab = _resolve(piece[1], ref, ck, other)
                cpiece = [kind, _to_json_time(b, ck)]
                if not was_ended:
                    out.label(lab)
                    if b < ref.clock:
                        may_refuse = True            # refusal or no-op are both fine
                    else:
                        nbounded += 1
                        if lab in ("cut=on-event", "cut=between"):
                            feats.add(lab)
                        if b == ref.end and kind == "run_up_to":
                            exclusive_end_cut = True
                        ref.run(b, kind == "run_up_to_incl")
            elif kind == "step":
                cpiece = ["step"]
                if not was_ended:
                    if ref.clock > ref.end:
                        expect_refusal = True
                    else:
                        r = ref.step()
                        feats.add("step")
                        if r is None:
                            out.label("step-nothing-to-do")
            elif kind == "start":
                cpiece = ["start"]
                if not was_ended:
                    ref.run()
            elif kind in ("pause_after", "tc_stop"):
                starter = piece[2]
                if starter[0] == "start":
                    cst = ["start"]
                    b, incl = None, True
                else:
                    b, lab = _resolve(starter[1], ref, ck, other)
                    cst = [starter[0], _to_json_time(b, ck)]
                    incl = starter[0] == "run_up_to_incl"
                    if not was_ended and b < ref.clock:
                        may_refuse = True
                gate = 10 ** 9
                if not was_ended and not may_refuse:
                    if b is not None:
                        nbounded += 1
                        if b == ref.end and not incl:
                            exclusive_end_cut = True
                    if kind == "tc_stop":
                        r = ref.run(b, incl, stop_at_time_change=piece[1])
                        if r == "count":
                            feats.add("pause")
                            out.label("stop-from-TIME_CHANGED-listener")
                    else:
                        r = ref.run(b, incl, max_events=piece[1])
                        if r == "count":
                            gate = len(ref.trace) - 1
                            feats.add("pause")
                cpiece = ["pause_after", gate, cst] if kind == "pause_after" else ["tc_stop", piece[1], cst]
            concrete.append(cpiece)
            # ---- drive the SUT
            if cpiece[0] == "pause_after":
                err = h.start_pause_after(cpiece[1], cpiece[2])
            elif cpiece[0] == "tc_stop":
                err = h.start_stop_at_time_change(cpiece[1], cpiece[2])
            else:
                err = h.run_piece(cpiece)
            sim = h.sim
            ctx = {"piece": pi, "concrete": cpiece}
            mixed = other and any(isinstance(x, (int, float)) and not isinstance(x, bool) and
                                  isinstance(x, float) == (ck == "int")
                                  for x in (cpiece[1:2] if cpiece[0] not in ("pause_after", "tc_stop") else cpiece[2][1:2]))
            if mixed and err is not None and not expect_refusal:
                # a bound of the other numeric type that the simulator refuses: not judged (the property does not
                # promise that such a bound is accepted) - the case ends here
                out.label("mixed-type-bound-refused")
                abandoned = True
                break
            if err is not None and not isinstance(err, DSOLError):
                out.fail("piece-raised-" + type(err).__name__, dict(ctx, err=repr(err)))
            if expect_refusal and err is None:
                out.fail("command-after-end-accepted", ctx)
            if not expect_refusal and not may_refuse and err is not None:
                out.fail("piece-refused-" + cpiece[0], dict(ctx, err=repr(err), clock=enc_ref(clock_before),
                                                            end=enc_ref(ref.end)))
            # trace so far, clock, state
            if h.model.trace != ref.trace:
                i = 0
                while i < min(len(h.model.trace), len(ref.trace)) and h.model.trace[i] == ref.trace[i]:
                    i += 1
                out.fail("trace-after-" + cpiece[0], dict(ctx, first_diff_at=i, sut=h.model.trace[i:i + 3],
                                                          ref=ref.trace[i:i + 3], len_sut=len(h.model.trace),
                                                          len_ref=len(ref.trace)))
            if enc_obs(sim.simulator_time) != enc_ref(ref.clock):
                out.fail("clock-after-" + cpiece[0], dict(ctx, sut=enc_obs(sim.simulator_time), ref=enc_ref(ref.clock)))
            if ref.ended:
                want = ("ENDED", "ENDED")
            elif not ref.trace and clock_before == ref.clock and sim.run_state == RunState.INITIALIZED:
                want = ("INITIALIZED", sim.replication_state.name)   # nothing happened yet (refused / no-op)
            else:
                want = ("STOPPED", "STARTED")
            got = (sim.run_state.name, sim.replication_state.name)
            if got != want and not (may_refuse and err is not None and not ref.ended and got[0] in ("INITIALIZED", "STOPPED")):
                out.fail("state-after-" + cpiece[0], dict(ctx, got=got, want=want))
            if nag["accepted"]:
                out.fail("command-accepted-while-running", dict(ctx, at_events=nag["accepted"][:4]))
            if out.disc:
                break
        # (iii) invariants over the whole run
        endv = ref.end
        for t in h.model.trace:
            v = float.fromhex(t[2]) if isinstance(t[2], str) else t[2]
            if v > endv:
                out.fail("executed-beyond-end", t)
                break
        if not out.disc and not abandoned:
            if not ref.ended:
                out.fail("not-ended-after-final-start", [h.sim.run_state.name])
            # (ii) metamorphic: one uninterrupted run on a fresh simulator
            if not exclusive_end_cut:
                h2 = Harness(prog)
                try:
                    h2.initialize()
                    e2 = h2.run_piece(["start"])
                    if e2 is not None:
                        out.fail("plain-start-raised", repr(e2))
                    if h2.model.trace != h.model.trace:
                        out.fail("segmented-vs-uninterrupted-trace",
                                 {"len_seg": len(h.model.trace), "len_plain": len(h2.model.trace), "pieces": concrete})
                    # (compared as values: an int bound on a float clock leaves the int 10 where start() leaves 10.0)
                    if not (h2.sim.simulator_time == h.sim.simulator_time):
                        out.fail("segmented-vs-uninterrupted-clock",
                                 [enc_obs(h.sim.simulator_time), enc_obs(h2.sim.simulator_time)])
                finally:
                    if h2.finish():
                        out.fail("thread-leak", "plain run")
    finally:
        if h.finish():
            out.fail("thread-leak", "segmented run")
    if nbounded >= 2:
        feats.add("two-bounded")
    if ref.labels & {"beyond-horizon", "at-horizon"}:
        feats.add("event-at-or-beyond-end")
    for f in feats:
        out.label("feat=" + f)
    out.nontrivial = len(feats) >= 3 and len(ref.model_trace()) >= 4
    out.info = {"pieces": concrete, "executed": len(ref.model_trace())}
    return out


RULE = RULE + " " + 'Later additions: in a quarter of the cases every third executed event issues start / a bounded run to the end while the run is in progress (refused; must change nothing); stop() from a TIME_CHANGED listener; bounds of the other numeric type; an earlier replication of another length.'
