"""C07 - end-to-end reproducibility: a run is a function of model, seeds and settings."""
import hashlib
import json
import os
import subprocess
import sys
import tempfile

import hypothesis
from hypothesis import given, settings, HealthCheck, Phase, strategies as st

import vlib
from vlib import progs, stoch
from vlib.progs import PRIO, fx
from vlib.runner import Outcome, digest
from props import _c07_common as common

ID = "C07"
RULE = ("Stochastic model programs with pub/sub fan-out: C02-style handlers + random delays and observations drawn "
        "from shared seeded streams and from five kinds of distributions on them (long-lived distribution objects get their re-seeded stream assigned again in the second-replication variant) + handlers that fire one of 4 bus event types to <=5 listeners subscribed in a "
        "generated order (stream 0 optionally the default stream of a StreamInformation() created by the model; seeds installed directly or through a StreamSeedUpdater with a seed table and a user-defined "
        "order-sensitive fallback updater, or the library's default fallback after earlier update_seeds calls for other replications), whose notify scripts draw from the shared streams, schedule events, make observations and "
        "subscribe/unsubscribe listeners (handlers do so too). "
        "(i) in-process (Hypothesis): each program is run plain, with a stop()/start() pause after event k, with a "
        "bounded run, after unrelated prior activity, and as the second replication on the same simulator, model and "
        "re-seeded stream objects, and with another simulator initialised and run while this one is paused; digests (executed events, normalised notification stream, "
        "stream draws, delivery log, every statistics getter as hex floats) must be identical, and every fire must be "
        "delivered in subscription order. (ii) cross-process (parent_checks): the same batch of programs is executed "
        "by child interpreters under {PYTHONHASHSEED 0,1,4242,random} x {0, 1000 prior SimEvents/EventTypes/objects} "
        "x {plain, paused, bounded}; all children must report identical digests. Non-trivial = >=2 listeners on one "
        "type that both draw and schedule, and >=20 executed events.")
ASSUMPTIONS = [
    "START/STOP/STARTING/STOPPING notifications legitimately depend on where the run is paused and are excluded from "
    "the digest; a TIME_CHANGED value announced again after a pause counts once",
    "independence of wall-clock speed is covered through pauses/segmentation, CPU contention of parallel children and a slow (yielding) vs. fast STARTING listener",
    "step() announces TIME_CHANGED unconditionally by design: repeated announcements of the same time count once, and the clock read inside a TIME_CHANGED notification is compared only for announcements that change the time",
]
NONTRIVIAL_FLOOR = 0.05
CHILD = os.path.join(os.path.dirname(os.path.abspath(__file__)), "_c07_child.py")


def budget(tier):
    if tier == "quick":
        return {"examples": 1200, "shards": 16}
    return {"examples": 40000, "shards": 16}


def _fire_actions(clock):
    base = stoch.stoch_actions(with_stats=True, reinit=False)(clock)
    return base + [(35, st.tuples(st.just("fire"), st.integers(0, 3))),
                   (6, st.tuples(st.just("unsub"), st.integers(0, 4), st.integers(0, 3))),
                   (4, st.tuples(st.just("sub"), st.integers(0, 4), st.integers(0, 3))),
                   (6, st.tuples(st.just("rotate"), st.integers(0, 4), st.integers(0, 3))),
                   (3, st.tuples(st.just("unsub_all"), st.integers(0, 4)))]


def _listener_script(clock):
    node = st.integers(0, 999)
    stream = st.integers(0, 5)
    if clock == "float":
        scale = st.sampled_from([1.0, 2.0, 3.0]).map(fx)
    elif clock == "int":
        scale = st.sampled_from([2, 3, 5])
    else:
        scale = st.sampled_from([[fx(1.0), "min"], [fx(30.0), "s"]])
    one = st.one_of(
        st.tuples(st.just("rel_rand"), stream, scale, node, PRIO),
        st.tuples(st.just("rel_rand"), stream, scale, node, PRIO),
        st.tuples(st.just("draw"), stream, st.sampled_from(["f", "b", "i"])),
        st.tuples(st.just("draw_dist"), stream, st.integers(0, 4)),
        st.tuples(st.just("rel_dist"), stream, st.integers(0, 4), scale, node, PRIO),
        st.tuples(st.just("obs_t_rand"), stream),
        st.tuples(st.just("obs_p_rand"), stream),
        st.tuples(st.just("obs_c"), st.integers(-2, 3)),
        st.tuples(st.just("now"), node, PRIO),
        st.tuples(st.just("unsub"), st.integers(0, 4), st.integers(0, 3)),
        st.tuples(st.just("sub"), st.integers(0, 4), st.integers(0, 3)),
        st.tuples(st.just("rotate"), st.integers(0, 4), st.integers(0, 3)),
        st.tuples(st.just("unsub_all"), st.integers(0, 4)),
    ).map(list)
    return st.lists(one, min_size=1, max_size=3)


def case_strategy(tier):
    @st.composite
    def case(draw):
        prog = draw(progs.program_strategy(max_nodes=10 if tier == "quick" else 20, illegal=False, cap=150,
                                           extra_actions=_fire_actions))
        nl = draw(st.integers(2, 5))
        listeners = [{"script": draw(_listener_script(prog["clock"]))} for _ in range(nl)]
        order = draw(st.lists(st.tuples(st.integers(0, nl - 1), st.integers(0, 3)).map(list), min_size=4, max_size=14))
        seeds = draw(st.lists(st.one_of(st.integers(0, 20), st.integers()), min_size=1, max_size=3))
        if draw(st.integers(0, 2)) > 0:
            # steer: a self-rescheduling driver handler that fires bus type t, and two listeners subscribed to t
            # (first in the subscription order) whose scripts draw from a shared stream and schedule events
            t = draw(st.integers(0, 3))
            ck = prog["clock"]
            step = {"float": fx(0.5), "int": 1, "duration": [fx(20.0), "s"]}[ck]
            scale = {"float": fx(2.0), "int": 3, "duration": [fx(1.0), "min"]}[ck]
            driver = len(prog["nodes"])
            prog["nodes"].append([["fire", t], ["rel", step, driver, 5]])
            prog["root"] = [["rel", step, driver, 5]] + prog["root"][:4]
            sink = draw(st.integers(0, max(0, driver - 1)))
            for li in (0, 1):
                listeners[li]["script"] = [["rel_rand", draw(st.integers(0, 5)), scale, sink, draw(PRIO)]] + \
                    listeners[li]["script"][:2]
            order = [[0, t], [1, t]] + order
        upd = None
        if draw(st.booleans()):
            names = draw(st.lists(st.sampled_from(["default", "arrivals", "service", "routing", "x", "Y", "stream-\u00e9",
                                                   "a" * 40, "", "0", "failures", "repair"]),
                                  min_size=3, max_size=6, unique=True))
            upd = {"names": names, "r": draw(st.integers(0, 4)), "master": draw(st.integers(0, 1000)),
                   "fallback": draw(st.sampled_from(["master", "default"])),
                   "history": draw(st.lists(st.integers(0, 4), min_size=1, max_size=3))}
            while len(seeds) < 3:
                seeds.append(draw(st.integers(0, 50)))
        return {"prog": prog, "bus": {"listeners": listeners, "order": order}, "seeds": seeds, "updater": upd,
                "default_info": draw(st.sampled_from([False, False, True])),
                "k": draw(st.integers(1, 25)), "frac": draw(st.integers(1, 9)), "prior": draw(st.sampled_from([0, 50, 300]))}
    return case()


def strategy(tier):
    return case_strategy(tier)


def _sha(d):
    return hashlib.sha256(json.dumps(d, sort_keys=True, default=repr).encode()).hexdigest()


def _first_diff(a, b):
    for key in a:
        if a[key] != b.get(key):
            x, y = a[key], b.get(key)
            if isinstance(x, list) and isinstance(y, list):
                i = 0
                while i < min(len(x), len(y)) and x[i] == y[i]:
                    i += 1
                return {"key": key, "at": i, "a": x[i:i + 2], "b": y[i:i + 2], "len": [len(x), len(y)]}
            return {"key": key, "a": str(x)[:200], "b": str(y)[:200]}
    return None


def _nontrivial(case, d):
    nl = len(case["bus"]["listeners"])
    by_type = {}
    seen = set()
    for li, ti in case["bus"]["order"]:
        key = (li % nl, ti % 4)
        if key in seen:
            continue
        seen.add(key)
        sc = case["bus"]["listeners"][li % nl]["script"]
        draws = any(a[0] in ("rel_rand", "draw", "obs_t_rand", "obs_p_rand", "draw_dist", "rel_dist") for a in sc)
        sched = any(a[0] in ("rel_rand", "now", "rel_dist") for a in sc)
        if draws and sched:
            by_type[ti % 4] = by_type.get(ti % 4, 0) + 1
    fired = {e[1] for e in d["deliveries"] if e[0] == "FIRE"}
    return any(n >= 2 and t in fired for t, n in by_type.items()) and len(d["trace"]) >= 20


def run_case(case):
    out = Outcome()
    out.label("clock=" + case["prog"]["clock"])
    earlier_sim, probe = common.initial_method_probe()
    if case.get("default_info"):
        out.label("default-stream-of-StreamInformation")
    plain = common.run_program(case, ["plain"])
    ca_plain = common.LAST_CLOCK_ADVANCES
    # subscription order: every fire is delivered to the listeners subscribed to its type at the moment of
    # firing, in subscription order (the delivery log also carries the SUB / UNSUB operations of the run)
    nl = len(case["bus"]["listeners"])
    subs = {}
    for li, ti in case["bus"]["order"]:
        lst = subs.setdefault(ti % 4, [])
        if li % nl not in lst:
            lst.append(li % nl)
    dl = plain["deliveries"]
    blocks = []          # [type, expected snapshot, got]
    stack = []
    for e in dl:
        if e[0] == "FIRE":
            blocks.append([e[1], list(subs.get(e[1], [])), []])
            stack = [blocks[-1]]
        elif e[0] == "UNSUB":
            if e[2] in subs.get(e[1], []):
                subs[e[1]].remove(e[2])
                out.label("unsubscribe-during-run")
        elif e[0] == "SUB":
            lst = subs.setdefault(e[1], [])
            if e[2] not in lst:
                lst.append(e[2])
        else:
            if not stack:
                out.fail("delivery-without-fire", e)
                break
            stack[-1][2].append(e[0])
            if e[1] != stack[-1][0]:
                out.fail("delivered-to-wrong-type", e)
    for t, want_l, got_l in blocks:
        if got_l != want_l:
            out.fail("subscription-order", {"type": t, "got": got_l, "want": want_l})
            break
    if any(e[0] == "FIRE" for e in dl):
        out.label("fan-out")
    variants = [("pause", ["pause", case["k"]]), ("bounded", ["bounded", case["frac"]])]
    keep = common.prior_activity(case["prior"])
    variants.append(("after-prior-activity", ["plain"]))
    variants.append(("second-replication-same-objects", ["plain", "twice"]))
    variants.append(("other-simulator-during-pause", ["pause-other", case["k"]]))
    variants.append(("first-events-by-single-steps", ["steps", 1 + case["k"] % 9]))
    if (case.get("updater") or {}).get("fallback") == "default":
        out.label("default-fallback-updater")
        variants.append(("after-earlier-seed-updates", ["plain", "history"]))
    variants.append(("after-abandoned-replication-and-cleanup", ["plain", "abandon"]))
    if digest(case)[2] % 2 == 0:        # (each of the two in half of the cases: the quick tier stays quick)
        variants.append(("paused-by-time-changed-listener", ["pause-tc", 1 + case["k"] % 4]))
    else:
        variants.append(("exclusive-bounds-the-last-beyond-the-end", ["bounded-x", case["frac"]]))
    for name, drive in variants:
        c_ = case
        if drive[-1] == "history":
            c_, drive = dict(case, apply_history=True), drive[:1]
        if drive[-1] == "abandon":
            d = common.run_program(c_, drive[:1], twice="abandon")
        else:
            d = common.run_program(c_, drive[:1] + drive[2:] if drive[-1] == "twice" else drive,
                                   twice=drive[-1] == "twice")
        ref_d = plain
        if name == "exclusive-bounds-the-last-beyond-the-end":
            # an exclusive bound that falls exactly on an event time moves the clock there without an announcement;
            # the event then needs none (the time does not change): TIME_CHANGED is left out of this comparison
            strip = lambda dd: dict(dd, notifications=[e for e in dd["notifications"] if e[0] != "TIME_CHANGED"])
            d, ref_d = strip(d), strip(plain)
        if d != ref_d:
            out.fail("digest-differs-" + name, _first_diff(ref_d, d))
            break
        if name == "first-events-by-single-steps" and common.LAST_CLOCK_ADVANCES != ca_plain:
            # inside a TIME_CHANGED notification the clock still shows the time before the change - whether the
            # event is carried out by step() or by the run loop
            out.fail("clock-inside-time-changed-differs-steps", _first_diff({"x": ca_plain},
                                                                             {"x": common.LAST_CLOCK_ADVANCES}))
            break
    if not out.disc:
        # the speed of a STARTING listener (wall-clock speed of user code) must not change the run
        fast = common.run_program(case, ["fast-listener", 0])
        slow = common.run_program(case, ["slow-listener", 25])
        if fast != slow:
            out.fail("digest-differs-slow-starting-listener", _first_diff(fast, slow))
    if not out.disc and digest(case)[1] % 3 == 0:
        fast = common.run_program(case, ["fast-stop-listener", 0, case["frac"]])
        slow = common.run_program(case, ["slow-stop-listener", 0.03, case["frac"]])
        out.label("slow-stop-listener-variant")
        if fast != slow:
            out.fail("digest-differs-slow-stop-listener", _first_diff(fast, slow))
    del keep
    if probe.calls:
        out.fail("initial-method-of-another-simulator-executed", {"calls": probe.calls})
    del earlier_sim
    if case.get("xproc"):
        v = cross_process([case], [("0", 0, ["plain"]), ("1", 300, ["pause", case["k"]]),
                                   ("random", 1000, ["bounded", case["frac"]])])
        for item in v:
            out.fail(item["kind"], item["detail"])
    out.nontrivial = _nontrivial(case, plain)
    out.info = {"executed": len(plain["trace"]), "deliveries": len(plain["deliveries"])}
    return out


# ------------------------------------------------------------------ cross-process part
def cross_process(cases, configs, full=False):
    """run all cases in one child interpreter per configuration; returns violation items"""
    tmp = tempfile.mkdtemp(prefix="verif-c07-")
    try:
        infile = os.path.join(tmp, "cases.json")
        with open(infile, "w") as f:
            json.dump(cases, f)
        procs = []
        for ci, (hashseed, prior, drive) in enumerate(configs):
            env = dict(os.environ)
            env["PYTHONHASHSEED"] = hashseed
            env["VERIF_REPO"] = vlib.REPO
            env["PYTHONDONTWRITEBYTECODE"] = "1"
            if full:
                env["C07_FULL"] = "1"
            outfile = os.path.join(tmp, "out-%d.json" % ci)
            p = subprocess.Popen([sys.executable, "-W", "ignore", CHILD, infile, outfile, str(prior), json.dumps(drive)],
                                 env=env, stdout=subprocess.DEVNULL, stderr=subprocess.PIPE)
            procs.append((p, outfile, (hashseed, prior, drive)))
        results = []
        for p, outfile, cfg in procs:
            try:
                _, err = p.communicate(timeout=600)
            except subprocess.TimeoutExpired:
                p.kill()
                raise vlib.runner.Inconclusive("child interpreter timed out")
            if p.returncode != 0 or not os.path.exists(outfile):
                raise vlib.runner.Inconclusive("child interpreter failed: %s" % err.decode()[-400:])
            results.append((cfg, json.load(open(outfile))))
        items = []
        base_cfg, base = results[0]
        for ci, c in enumerate(cases):
            for cfg, res in results[1:]:
                if res[ci]["sha"] != base[ci]["sha"]:
                    items.append({"kind": "cross-process-digest-differs", "case": dict(c, xproc=True),
                                  "detail": {"config_a": list(base_cfg), "config_b": list(cfg),
                                             "a": base[ci]["sha"][:40], "b": res[ci]["sha"][:40]}})
                    break
            if base[ci]["sha"].startswith("error:"):
                items.append({"kind": "child-run-error", "case": dict(c, xproc=True), "detail": base[ci]["sha"]})
        return items
    finally:
        import shutil
        shutil.rmtree(tmp, ignore_errors=True)


def parent_checks(tier, seed):
    import vlib.runner  # noqa: F401
    n = 60 if tier == "quick" else 3000
    cases = []

    @hypothesis.seed(seed * 7919 + 17)
    @settings(max_examples=n, phases=[Phase.generate], database=None, deadline=None,
              suppress_health_check=list(HealthCheck))
    @given(case_strategy(tier))
    def collect(c):
        cases.append(c)
    collect()
    if tier == "quick":
        configs = [("0", 0, ["plain"]), ("1", 1000, ["plain"]), ("4242", 0, ["pause", 7]),
                   ("random", 1000, ["bounded", 4]), ("random", 300, ["pause", 3]), ("2", 50, ["bounded", 7])]
    else:
        configs = [(hs, pr, dr) for hs in ("0", "1", "4242", "random") for pr, dr in
                   ((0, ["plain"]), (1000, ["pause", 7]), (300, ["bounded", 4]))]
    items = cross_process(cases, configs)
    # wall-clock speed of the model's own code: a pause requested while an event takes longer than stop() waits
    slow_runs = 0
    for c in cases:
        if slow_runs >= (2 if tier == "quick" else 6):
            break
        plain = common.run_program(c, ["plain"])
        if len(plain["trace"]) < 8:
            continue
        slow = common.run_program(c, ["pause-slow", 3])
        probe = slow.pop("slow_probe", None)
        if not probe:
            continue                      # (the run ended before event 3)
        slow_runs += 1
        if probe.get("step") == "accepted" or probe.get("state") == "STOPPED":
            items.append({"kind": "command-accepted-while-run-thread-inside-event", "case": c,
                          "detail": probe})
        elif slow != plain:
            items.append({"kind": "digest-differs-slow-event-during-stop", "case": c,
                          "detail": _first_diff(plain, slow)})
    # measure what the batch looked like (in-process plain run of each program for the non-trivial rule)
    nontrivial = []
    samples = []
    for c in cases[: (60 if tier == "quick" else 400)]:
        d = common.run_program(c, ["plain"])
        if _nontrivial(c, d):
            nontrivial.append(digest(c).hex())
            if len(samples) < 1:
                samples.append({"case": c if len(json.dumps(c)) < 3000 else "(large program)",
                                "executed": len(d["trace"]), "deliveries": len(d["deliveries"])})
    return {"violations": items, "evaluations": len(cases) * len(configs), "nontrivial": nontrivial,
            "labels": {"xproc-programs": len(cases), "xproc-configurations": len(configs),
                       "slow-event-during-stop": slow_runs},
            "samples": samples,
            "evidence": {"cross_process": {"programs": len(cases), "configurations": [list(c) for c in configs],
                                           "child_runs": len(cases) * len(configs)}}}


RULE = RULE + " " + 'Later additions: during the pause the event list, the clock and every statistic are read; fast vs slow STOP listener with the user polling run_state and resuming by step() then start(); prior activity includes the stream administration of another experiment; the seed table may be the one a StreamSeedInformation holds.'
