"""C02 - DEVS execution: every scheduled, not cancelled event inside the horizon runs exactly once,
in (time, -priority, scheduling order) order, clock == event time; illegal requests are refused."""
from hypothesis import strategies as st

from vlib import progs
from vlib.runner import Outcome
from vlib.simharness import Harness, RefSim, enc_ref, enc_obs

ID = "C02"
RULE = ("Hypothesis model programs (<=24 handler nodes x <=4 actions, root <=6 actions, <=300 event instances): "
        "schedule now / relative / absolute (offset and literal) / pre-built SimEvent, cancel any earlier event "
        "(pending, executed or itself), illegal requests (negative delay, literal time before the clock, NaN, "
        "None, str), priorities from a tie-rich pool, delays from a pool with zeros and exact ties, on float, int "
        "and Duration clocks (mixed units), replications with non-zero start and events at/beyond the end; the horizon is run by start() or by one run_up_to / run_up_to_including whose bound is at or beyond the replication end. "
        "Oracle = reference DEVS interpreter (sorted pending list, same float additions): executed trace "
        "(event, handler, clock inside handler, warm-up position) equal as a sequence; per request accepted/refused "
        "as predicted and event-list size +1 / unchanged; independent invariants: each event at most once, times "
        "non-decreasing, TIME_CHANGED non-decreasing, final clock = end, ENDED. Non-trivial = >=5 executed events "
        "and >=2 of {cancelled pending event, tie broken by priority, tie broken by order, zero delay, event beyond "
        "horizon, illegal request}.")
ASSUMPTIONS = [
    "int delays/times stay below 2**1000 (float() overflow); a pre-built SimEvent is created at the moment it is "
    "scheduled, so creation order equals scheduling order",
    "any exception counts as a refusal (the property says 'refused with an error')",
    "the reference interpreter in vlib/simharness.py (RefSim) is the trusted oracle",
]
NONTRIVIAL_FLOOR = 0.08


def budget(tier):
    if tier == "quick":
        return {"examples": 6400, "shards": 16}
    return {"examples": 160000, "shards": 16}


DRIVES = ["start", "start", "start", "rut-beyond", "ruti-end", "ruti-beyond", "rut-clock-first", "steps", "after-cleanup", "ruti-clock-first"]


def strategy(tier):
    # the whole horizon is run by start() or by one bounded run whose bound is at / beyond the replication end
    return st.tuples(progs.program_strategy(max_nodes=24 if tier == "quick" else 40), st.sampled_from(DRIVES)).map(
        lambda t: dict(t[0], drive=t[1]))


def _whole_run(case, ref):
    d = case.get("drive", "start")
    if d == "start":
        return ["start"]
    ck = case["clock"]
    b = ref.end if d == "ruti-end" else ref.end + (7 if ck == "int" else 12.5)
    if ck == "duration":
        b = [float(b).hex(), "s"]
    elif ck == "float":
        b = float(b).hex()
    return ["run_up_to" if d == "rut-beyond" else "run_up_to_incl", b]


def compare_run(out, h, ref, check_final=True):
    """shared comparison of a finished SUT run against the finished reference run"""
    m = h.model
    if m.trace != ref.trace:
        i = 0
        while i < min(len(m.trace), len(ref.trace)) and m.trace[i] == ref.trace[i]:
            i += 1
        out.fail("trace", {"first_diff_at": i, "sut": m.trace[i:i + 3], "ref": ref.trace[i:i + 3],
                           "len_sut": len(m.trace), "len_ref": len(ref.trace)})
    # requests: accepted / refused exactly as predicted, list size changes accordingly
    sl = [[r[0], r[1], r[2]] for r in m.reqlog]
    if sl != ref.reqlog:
        i = 0
        while i < min(len(sl), len(ref.reqlog)) and sl[i] == ref.reqlog[i]:
            i += 1
        a = m.reqlog[i] if i < len(m.reqlog) else None
        b = ref.reqlog[i] if i < len(ref.reqlog) else None
        kind = "request"
        if a and b and a[:2] == b[:2]:
            action = (h.program["root"] if a[0] == -1 else h.program["initial"][-3 - a[0]] if a[0] <= -3
                      else _node_of(h, ref, a[0]))[a[1]]
            what = action[0] if action[0] != "bad" else action[1]
            kind = "request-%s-%s" % ("accepted" if a[2] == "ok" else "refused", what)
        out.fail(kind, {"sut": a, "ref": b})
    for r in m.reqlog:
        if r[2] == "refused" and r[3] != r[4]:
            out.fail("refused-changed-eventlist", r)
        if r[2] == "ok" and r[4] != r[3] + 1:
            out.fail("accepted-size", r)
    # independent invariants
    seqs = [t[0] for t in m.trace if t[0] != "W"]
    # once per scheduling: an event object that its handler scheduled a second time (action "again") runs twice
    import collections
    over = [q for q, k in collections.Counter(seqs).items() if k > (2 if q in m.again_done else 1)]
    if over:
        out.fail("executed-twice", {"events": over[:5], "trace_seqs": seqs[:40]})
    times = [_num(t[2]) for t in m.trace]
    if any(times[i] > times[i + 1] for i in range(len(times) - 1)):
        out.fail("time-order", times)
    tc = [_num(e[1]) for e in h.rec.log if e[0] == "TIME_CHANGED"]
    if any(tc[i] > tc[i + 1] for i in range(len(tc) - 1)):
        out.fail("time-changed-order", tc)
    if check_final:
        from pydsol.core.simulator import RunState, ReplicationState
        if enc_obs(h.sim.simulator_time) != enc_ref(ref.clock):
            out.fail("final-clock", {"sut": enc_obs(h.sim.simulator_time), "ref": enc_ref(ref.clock)})
        if h.sim.run_state != RunState.ENDED or h.sim.replication_state != ReplicationState.ENDED:
            out.fail("final-state", [h.sim.run_state.name, h.sim.replication_state.name])


def _node_of(h, ref, seq):
    for e in ref.events:
        if e[3] == seq:
            return h.program["nodes"][e[4]]
    return []


def _num(x):
    return float.fromhex(x) if isinstance(x, str) else x


def _with_initial_methods(case):
    """A third of the cases (chosen by a hash of the case, so that generation is untouched) register two or three
    initial methods before initialize(): the SAME target and method name with different keyword arguments, each
    scheduling one root event.  Every registration is a root of the model program: all of them are carried out."""
    import zlib
    import json as _json
    c = zlib.crc32(_json.dumps(case, sort_keys=True).encode())
    if c % 3 != 1 or not case.get("nodes") or "initial" in case:
        return case
    n = 2 + (c >> 8) % 2
    return dict(case, initial=[[["now", (c >> 12) % 7 + i, 5 + (i % 2)]] for i in range(n)], initial_calls=list(range(n)))


def run_case(case):
    out = Outcome()
    case = _with_initial_methods(case)
    ref = RefSim(case)
    ref.initialize()
    ref.run()
    h = Harness(case)
    bystander = None
    try:
        if case.get("drive") == "after-cleanup":
            # the simulator ran a SHORTER replication of the same model before and was cleaned up: events of that
            # replication beyond its horizon are not events of this one
            rep0 = dict(case["rep"])
            ln = rep0["length"]
            if isinstance(ln, int):
                rep0["length"] = max(1, ln // 2)
            elif isinstance(ln, str):
                rep0["length"] = (float.fromhex(ln) / 2).hex()
            else:
                rep0["length"] = [(float.fromhex(ln[0]) / 2).hex(), ln[1]]
            h.initialize(rep0)
            h.run_piece(["start"])
            h.sim.cleanup()
            from vlib.simharness import Recorder
            h.rec = Recorder()
            case = dict(case, drive="start")
        for idx in case.get("initial_calls", []):
            h.sim.add_initial_method(h.model, "initial", idx=idx)
            out.label("initial-methods")
        h.initialize()
        # another simulator lives in the same process (a second model, a reference run): initialised after this one,
        # holding two pending events, never run.  Its events are its own, and this one's are this one's.
        import zlib
        import json as _json
        if zlib.crc32(_json.dumps(case, sort_keys=True).encode()) % 3 == 0:
            from vlib.simharness import Harness as _H
            by_prog = {"clock": "float", "cap": 10, "rep": {"start": (0.0).hex(), "warmup": (0.0).hex(),
                                                            "length": (5.0).hex()},
                       "root": [["rel", (1.0).hex(), 0, 5]], "nodes": [[]]}
            bystander = _H(by_prog)
            bystander.initialize()
            by_size = bystander.sim.eventlist().size()
            out.label("second-simulator-alive")
        if case.get("drive") == "rut-clock-first":
            # an exclusive bound equal to the clock: events AT the clock are outside that horizon, nothing may run
            t0 = case["rep"]["start"]
            e0 = h.run_piece(["run_up_to", t0])
            if h.model.trace:
                out.fail("executed-at-exclusive-bound", {"bound": t0, "executed": h.model.trace[:3],
                                                         "err": repr(e0) if e0 else None})
            case = dict(case, drive="start")
        if case.get("drive") == "ruti-clock-first":
            # an inclusive bound equal to the clock: exactly the events AT the clock run (a run of zero length is
            # not a no-op when events are pending at that instant)
            r3 = RefSim(case)
            r3.initialize()
            r3.run(r3.clock, True)
            e0 = h.run_piece(["run_up_to_incl", case["rep"]["start"]])
            if h.model.trace != r3.trace:
                out.fail("zero-length-inclusive-run", {"executed": h.model.trace[:4], "want": r3.trace[:4],
                                                       "err": repr(e0) if e0 else None})
            case = dict(case, drive="start")
        if case.get("drive") == "steps":
            # every event is carried out by a single step(); the final start() only ends the replication
            from pydsol.core.simulator import RunState
            r2 = RefSim(case)
            r2.initialize()
            guard = min(len(ref.trace) + 5, 80)
            while guard > 0 and h.sim.run_state != RunState.ENDED:
                guard -= 1
                nxt = r2._first()
                if nxt is None or nxt[0] > r2.end:
                    break               # nothing left inside the horizon
                r2.step()
                e_ = h.run_piece(["step"])
                if e_ is not None:
                    # an event inside the horizon (possibly AT the end time) is pending: the step must be carried out
                    out.fail("step-refused-with-event-inside-horizon", {"err": repr(e_), "next": enc_ref(nxt[0]),
                                                                        "end": enc_ref(r2.end)})
                    break
                if len(h.model.trace) > len(ref.trace) + 3:
                    break
            case = dict(case, drive="start")
        err = h.run_piece(_whole_run(case, ref))
        if err is not None:
            out.fail("start-raised", repr(err))
        compare_run(out, h, ref)
        if bystander is not None and (bystander.sim.eventlist().size() != by_size or bystander.model.trace):
            out.fail("other-simulator-disturbed", {"pending": [by_size, bystander.sim.eventlist().size()],
                                                   "executed": bystander.model.trace[:3]})
    finally:
        if bystander is not None:
            bystander.finish()
        leaked = h.finish()
    if leaked:
        out.fail("thread-leak", leaked)
    out.label("clock=" + case["clock"], "drive=" + case.get("drive", "start"), *ref.labels)
    nexec = len(ref.model_trace())
    feats = len(ref.labels & {"cancel-pending", "tie-prio", "tie-order", "zero-delay", "beyond-horizon",
                              "illegal-request"})
    out.nontrivial = nexec >= 5 and feats >= 2
    out.info = {"executed": nexec, "requests": len(ref.reqlog)}
    return out
