"""C01 - the event list is a faithful priority queue (time, -priority, creation order).

Case (JSON):
  {"ttype": "int|float|mixed|duration",
   "pool": [[time, priority], ...]      events are created in this order (ids ascending)
   "ops":  [["add",k],["remove",k],["remove_any",k],["pop"],["peek"],["contains",k],
            ["size"],["empty"],["clear"]]}
time encoding: int -> int, float -> float.hex() string, duration -> [hex, unit].
Indices k are resolved against the current state (k-th non-pending / pending event modulo
size) so every op is applicable by construction; an event is never added while pending.
"""
import itertools

from hypothesis import strategies as st

from vlib.runner import Outcome, sut_raised, digest

ID = "C01"
RULE = ("Hypothesis op lists (<=60 quick / <=150 thorough) over a pool of <=24/48 SimEvents (plain and user-defined subclasses) with times "
        "from a small tie-rich pool (+-0.0, +-inf, equal int/float, equal Durations in different units) "
        "and arbitrary values, 4 time types; oracle = sorted-list model compared after every op "
        "(return value, size, is_empty, contains for every pool event, peek_first) plus the drain order "
        "of a copy obtained by replaying the history prefix on a fresh EventListHeap, plus all six rich "
        "comparisons on all ordered pool pairs against the reference key (time, -priority, id). "
        "Non-trivial = history removes a pending event that is neither first in order nor the most "
        "recently added, followed by >=1 add and >=2 pops; distinct = distinct case digests.")
ASSUMPTIONS = [
    "NaN times are excluded (no order is defined for them); an event is never added while it is pending",
    "mixed Duration/float lists are excluded (comparison raises TypeError by design)",
    "the replayed copy has the same internal layout as the original because EventListHeap is deterministic",
]
NONTRIVIAL_FLOOR = 0.05
DUR_UNITS = ["s", "min", "h", "ms", "day"]


def budget(tier):
    if tier == "quick":
        return {"examples": 4000, "shards": 8}
    return {"examples": 400000, "shards": 16}


# ---------------------------------------------------------------- strategy
_FLOAT_POOL = [0.0, -0.0, 0.5, 1.0, 1.0000000000000002, 2.5, float("inf"), float("-inf"), 1e300, -3.0]
_INT_POOL = [0, 1, 2, 3, 5, -1, 2 ** 70, 2 ** 53 + 1, 2 ** 53, 2 ** 53 + 2, 2 ** 60, 2 ** 60 + 1, 2 ** 60 + 3,
             -(2 ** 53) - 1, -(2 ** 53)]   # distinct ints that round to the same float
_PRIO_POOL = [1, 5, 5, 5, 10, 4, 6]


def _fl(x):
    return float(x).hex()


def _time_strategy(ttype):
    fl = st.one_of(st.sampled_from(_FLOAT_POOL),
                   st.floats(allow_nan=False, allow_infinity=True)).map(_fl)
    it = st.one_of(st.sampled_from(_INT_POOL), st.integers(-10, 10), st.integers())
    if ttype == "int":
        return it
    if ttype == "float":
        return fl
    if ttype == "mixed":
        return st.one_of(fl, it, st.sampled_from([1, _fl(1.0), 2, _fl(2.0), 0, _fl(-0.0), 2 ** 53 + 1, _fl(2.0 ** 53)]))
    # duration: ties across units: 60 s == 1 min, 3600 s == 1 h == 60 min, 86400 s == 1 day
    dv = st.one_of(st.sampled_from([0.0, 1.0, 60.0, 3600.0, 0.5, 24.0, 1000.0, 86400.0, 1440.0]),
                   st.floats(allow_nan=False, allow_infinity=False, min_value=-1e12, max_value=1e12))
    return st.tuples(dv.map(_fl), st.sampled_from(DUR_UNITS)).map(list)


def strategy(tier):
    maxpool, maxops = (24, 60) if tier == "quick" else (48, 150)
    prio = st.one_of(st.sampled_from(_PRIO_POOL), st.integers(-3, 12), st.integers())
    k = st.integers(0, 999)
    def mk(t):
        w, kk = t
        for name, upto in (("add", 30), ("remove", 42), ("remove_recent", 46), ("resched", 50), ("remove_any", 55), ("pop", 80), ("peek", 84),
                           ("str", 86), ("contains", 92), ("size", 95), ("empty", 98), ("clear", 100)):
            if w < upto:
                break
        return [name, kk] if name in ("add", "remove", "remove_recent", "resched", "remove_any", "contains") else [name]

    def expand(o):
        # "resched": the usual life of a timeout - cancel a recently scheduled event, schedule two others
        if o[0] == "resched":
            return [["remove_recent", o[1]], ["add", o[1] // 4], ["add", o[1] // 16]]
        return [o]
    op = st.tuples(st.integers(0, 99), k).map(mk)

    @st.composite
    def case(draw):
        ttype = draw(st.sampled_from(["int", "float", "mixed", "duration"]))
        ts = _time_strategy(ttype)
        # third field: the event class (0 = SimEvent, 1 / 2 = user-defined subclasses of SimEvent)
        pool = draw(st.lists(st.tuples(ts, prio, st.sampled_from([0, 0, 0, 1, 2])).map(list),
                             min_size=draw(st.sampled_from([1, 4, 8])), max_size=maxpool))
        # a warm-up block of adds (so that interior positions exist), then the free mixture
        warm = draw(st.integers(0, min(len(pool), 12)))
        head = [["add", draw(k)] for _ in range(warm)]
        ops = draw(st.lists(op, min_size=draw(st.sampled_from([1, 8, 16])), max_size=maxops))
        return {"ttype": ttype, "pool": pool, "ops": head + [x for o in ops for x in expand(o)]}

    return case()


# ---------------------------------------------------------------- interpreter
class _Target:
    def noop(self):
        pass


_TARGET = _Target()


def _decode_time(t):
    from pydsol.core.units import Duration
    if isinstance(t, list):
        return Duration(float.fromhex(t[0]), t[1])
    if isinstance(t, str):
        return float.fromhex(t)
    return t


def _key_time(t):
    from pydsol.core.units import Duration
    if isinstance(t, Duration):
        return float(t)
    return t


def enumerate_cases(tier):
    """events created far apart: a long-running process has made millions of events before the two that tie"""
    return [{"kind": "far-ids", "between": 2 ** 20 + 10, "ttype": tt, "low_first": lf}
            for tt, lf in (("int", True), ("float", False))]


def _run_far_ids(case, out):
    from pydsol.core.eventlist import EventListHeap
    from pydsol.core.simevent import SimEvent
    t = 5 if case["ttype"] == "int" else 5.0
    p1, p2 = (4, 5) if case["low_first"] else (5, 4)
    a = SimEvent(t, _TARGET, "noop", p1)
    c = SimEvent(t, _TARGET, "noop", p1)
    for _ in range(case["between"]):
        SimEvent(t, _TARGET, "noop", 5)
    b = SimEvent(t, _TARGET, "noop", p2)
    el = EventListHeap()
    for e in (b, c, a):
        el.add(e)
    want = [b, a, c] if p2 > p1 else [a, c, b]
    got = [el.pop_first() for _ in range(3)]
    if [x is y for x, y in zip(got, want)] != [True] * 3:
        names = {id(a): "early-1", id(c): "early-2", id(b): "late"}
        out.fail("pop-order", {"events created far apart": case["between"], "priorities": {"early": p1, "late": p2},
                               "got": [names.get(id(x)) for x in got], "want": [names[id(x)] for x in want]})
    if not (a < c and (b < a) == (p2 > p1) and a != b):
        out.fail("comparison", {"events created far apart": case["between"]})
    out.nontrivial = True
    out.label("kind=far-ids")
    return out


def run_case(case):
    out = Outcome()
    if case.get("kind") == "far-ids":
        return _run_far_ids(case, out)
    try:
        return _run_case(case, out)
    except Exception as e:
        # every generated operation is a valid one: an exception escaping from the event list is a failure of it
        if not sut_raised(e):
            raise
        import traceback
        out.fail("operation-raises:" + type(e).__name__, traceback.format_exc()[-600:])
        return out


def _run_case(case, out):
    from pydsol.core.eventlist import EventListHeap
    from pydsol.core.simevent import SimEvent

    out.label("ttype=" + case["ttype"])
    class TimeoutEvent(SimEvent):
        pass

    class UrgentEvent(TimeoutEvent):
        pass

    classes = (SimEvent, TimeoutEvent, UrgentEvent)
    events = []
    for entry in case["pool"]:
        t, p = entry[0], entry[1]
        cls = classes[entry[2] if len(entry) > 2 else 0]
        if cls is not SimEvent:
            out.label("event-subclass")
        if len(events) % 3 == 2:
            # every third event is created by another thread (which ends before the next event is created): the
            # creation order - the last tie-breaker - is the same whatever thread creates an event
            import threading
            box = []
            th = threading.Thread(target=lambda: box.append(cls(_decode_time(t), _TARGET, "noop", p)))
            th.start()
            th.join()
            events.append(box[0])
        else:
            events.append(cls(_decode_time(t), _TARGET, "noop", p))
    n = len(events)
    specs = [list(e) for e in case["pool"]]
    # reference key, independent of SimEvent's own comparison code
    refkey = [(_key_time(e.time), -case["pool"][i][1], i) for i, e in enumerate(events)]
    # (creation order i is the documented last tie-breaker, whatever the class of the event)
    # In half of the cases the ids and the comparison operators are looked at only after the history: what the
    # list does with events must not depend on whether anybody compared them or read their id before.
    look_first = digest(case)[0] % 2 == 0
    n0 = n

    def look():
        ids = [e.id for e in events[:n0]]
        if any(ids[i] >= ids[i + 1] for i in range(n0 - 1)):
            out.fail("id-not-increasing", ids)
        # -- comparison operators: strict total order agreeing with the reference key
        _check_comparisons(out, events[:n0], refkey[:n0])

    if look_first:
        look()
    else:
        out.label("ids-and-comparisons-after-the-history")

    el = EventListHeap()
    pending = []            # indices in insertion order (the model: a set + order info)
    history = []            # concrete mutating ops for the replayed copy
    concrete = []
    interior_removed = False
    adds_after = pops_after = 0
    max_probed = 0

    def model_sorted():
        return sorted(pending, key=lambda i: refkey[i])

    for opi, op in enumerate(case["ops"]):
        name = op[0]
        mutating = False
        if name == "add":
            free = [i for i in range(n) if i not in pending]
            if not free:
                continue
            i = free[op[1] % len(free)]
            el.add(events[i])
            pending.append(i)
            history.append(("add", i))
            concrete.append(["add", i])
            mutating = True
            if interior_removed:
                adds_after += 1
        elif name in ("remove", "remove_recent", "remove_any"):
            if name == "remove" and pending:
                i = pending[op[1] % len(pending)]
            elif name == "remove_recent" and pending:
                # cancelling one of the events scheduled most recently (they sit near the end of the storage)
                i = pending[-1 - (op[1] % min(4, len(pending)))]
            else:
                i = op[1] % n
            was = i in pending
            if was:
                srt = model_sorted()
                if len(pending) >= 3 and srt[0] != i and pending[-1] != i:
                    interior_removed = True
                    adds_after = pops_after = 0
                    out.label("interior-removal")
            r = el.remove(events[i])
            if r is not was:
                out.fail("remove-return", {"op": opi, "event": i, "got": repr(r), "want": was})
            if was:
                pending.remove(i)
            else:
                out.label("remove-absent")
            history.append(("remove", i))
            concrete.append(["remove", i])
            mutating = True
        elif name == "pop":
            srt = model_sorted()
            want = srt[0] if srt else None
            got = el.pop_first()
            if want is None:
                if got is not None:
                    out.fail("pop-empty", repr(got))
                out.label("pop-empty")
            else:
                if got is not events[want]:
                    out.fail("pop-order", {"op": opi, "want": want,
                                           "got": _idx(events, got), "pending_sorted": srt})
                # keep the model in step with what the list really handed out, if possible
                gi = _idx(events, got)
                if gi in pending:
                    pending.remove(gi)
                elif want in pending:
                    pending.remove(want)
                if interior_removed:
                    pops_after += 1
            history.append(("pop",))
            concrete.append(["pop"])
            mutating = True
        elif name == "peek":
            srt = model_sorted()
            got = el.peek_first()
            want = events[srt[0]] if srt else None
            if got is not want:
                out.fail("peek", {"op": opi, "want": srt[0] if srt else None, "got": _idx(events, got)})
            concrete.append(["peek"])
        elif name == "str":
            # printing the list and its events (logging) is an observer like the others
            text = str(el) + repr(el) + "".join(str(events[i]) + repr(events[i]) for i in pending[:3])
            if not isinstance(text, str):
                out.fail("str", repr(type(text)))
            history.append(("str",))
            concrete.append(["str"])
            mutating = True            # (not in the model: the drained copy below repeats the printing)
            out.label("printed")
        elif name == "contains":
            i = op[1] % n
            got = el.contains(events[i])
            if got is not (i in pending):
                out.fail("contains", {"op": opi, "event": i, "got": repr(got), "want": i in pending})
            concrete.append(["contains", i])
        elif name == "size":
            if el.size() != len(pending):
                out.fail("size", {"op": opi, "got": el.size(), "want": len(pending)})
        elif name == "empty":
            if el.is_empty() is not (len(pending) == 0):
                out.fail("is_empty", {"op": opi, "got": repr(el.is_empty())})
        elif name == "clear":
            el.clear()
            pending.clear()
            history.append(("clear",))
            concrete.append(["clear"])
            mutating = True
            out.label("clear")
            # an event created AFTER the clear that ties (same time, priority, class) with an older one: the older
            # one still comes first.  Both are put on the list, the newer one first.
            if n < 200:
                j = opi % n
                entry = specs[j]
                e_new = classes[entry[2] if len(entry) > 2 else 0](_decode_time(entry[0]), _TARGET, "noop", entry[1])
                events.append(e_new)
                specs.append(entry)
                refkey.append((_key_time(e_new.time), -entry[1], n))
                if not e_new.id > events[n - 1].id:
                    out.fail("id-not-increasing", {"after": "clear", "new": e_new.id, "previous": events[n - 1].id})
                n += 1
                for i in (n - 1, j):
                    el.add(events[i])
                    pending.append(i)
                    history.append(("add", i))
                    concrete.append(["add", i])
                out.label("event-created-after-clear")

        # observers after every op
        if el.size() != len(pending):
            out.fail("size", {"op": opi, "got": el.size(), "want": len(pending)})
        if el.is_empty() is not (len(pending) == 0):
            out.fail("is_empty", {"op": opi})
        srt = model_sorted()
        pk = el.peek_first()
        if pk is not (events[srt[0]] if srt else None):
            out.fail("peek", {"op": opi, "want": srt[0] if srt else None, "got": _idx(events, pk)})
        if mutating:
            pset = set(pending)
            for i in range(n):
                if el.contains(events[i]) is not (i in pset):
                    out.fail("contains", {"op": opi, "event": i})
                    break
            # drain a copy obtained by replaying the history on a fresh list; and a second copy on which up to two
            # further events are scheduled first (what the list hands out after a removal must not depend on
            # whether anything is added before the next pop)
            free = [i for i in range(n) if i not in pset]
            for extra in ([], free[:2]) if concrete[-1][0] == "remove" and free else ([],):
                cp = EventListHeap()
                for h in history:
                    if h[0] == "add":
                        cp.add(events[h[1]])
                    elif h[0] == "remove":
                        cp.remove(events[h[1]])
                    elif h[0] == "pop":
                        cp.pop_first()
                    elif h[0] == "str":
                        str(cp)
                    else:
                        cp.clear()
                for i in extra:
                    cp.add(events[i])
                want_d = sorted(pending + extra, key=lambda i: refkey[i]) if extra else srt
                drained = []
                while True:
                    e = cp.pop_first()
                    if e is None:
                        break
                    drained.append(_idx(events, e))
                    if len(drained) > n + 2:
                        break
                if drained != want_d:
                    out.fail("drain-order", {"op": opi, "after": concrete[-1], "then_added": extra,
                                             "want": want_d, "got": drained})
                    break
        # "removing an event from ANY position": on copies of the list as it stands now, every pending event in
        # turn is removed, two other events are scheduled, and the copy is drained
        if mutating and len(pending) > max_probed and len(pending) >= 5 and not out.disc:
            max_probed = len(pending)
            _remove_each_position(out, EventListHeap, events, history, pending, refkey, n, opi)
        if out.disc:
            break
    if not look_first and not out.disc:
        look()
    if not out.disc and len(pending) >= 3:
        _remove_each_position(out, EventListHeap, events, history, pending, refkey, n, "end")

    if interior_removed and adds_after >= 1 and pops_after >= 2:
        out.nontrivial = True
    ties = len(refkey) - len({(k[0], k[1]) for k in refkey})
    if ties:
        out.label("time+priority-tie")
    if len({k[0] for k in refkey}) < len(refkey):
        out.label("time-tie")
    out.info = {"concrete_ops": len(concrete)}
    return out


def _remove_each_position(out, EventListHeap, events, history, pending, refkey, n, where):
    pset = set(pending)
    free = [i for i in range(n) if i not in pset][:2]
    for victim in pending:
        cp = EventListHeap()
        for h in history:
            if h[0] == "add":
                cp.add(events[h[1]])
            elif h[0] == "remove":
                cp.remove(events[h[1]])
            elif h[0] == "pop":
                cp.pop_first()
            elif h[0] == "str":
                str(cp)
            else:
                cp.clear()
        if cp.remove(events[victim]) is not True:
            out.fail("remove-return", {"op": where, "event": victim, "want": True})
            return
        for i in free:
            cp.add(events[i])
        want = sorted([i for i in pending if i != victim] + free, key=lambda i: refkey[i])
        drained = []
        while len(drained) <= n + 2:
            e = cp.pop_first()
            if e is None:
                break
            drained.append(_idx(events, e))
        if drained != want:
            out.fail("drain-order", {"op": where, "after": ["remove", victim], "then_added": free,
                                     "want": want, "got": drained})
            return
    out.label("every-position-removed-on-copies")


def _idx(events, e):
    for i, x in enumerate(events):
        if x is e:
            return i
    return None if e is None else "foreign:" + repr(e)


def _rel(a, b):
    return (a > b) - (a < b)


def _check_comparisons(out, events, refkey):
    n = len(events)
    pairs = itertools.product(range(n), range(n)) if n <= 16 else (
        (i, j) for i in range(n) for j in (i, (i + 1) % n, (i * 7 + 3) % n, (n - 1 - i)))
    for i, j in pairs:
        a, b = events[i], events[j]
        r = _rel(refkey[i], refkey[j])
        got = (a < b, a <= b, a == b, a != b, a >= b, a > b)
        want = (r < 0, r <= 0, r == 0, r != 0, r >= 0, r > 0)
        if got != want:
            out.fail("comparison", {"i": i, "j": j, "got": got, "want": want})
            return


RULE = RULE + " " + 'Later additions: ops remove_recent / resched (cancel a recent event, schedule two) / str (printing is an observer); events created on other threads and after clear(); ids and comparison operators looked at only after the history in half of the cases; on copies of the list every pending position in turn is removed, two events are added and the copy is drained.'
