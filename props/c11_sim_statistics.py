"""C11 - simulation statistics honour warm-up and replication end and publish true values."""
from fractions import Fraction

from hypothesis import strategies as st

from vlib import progs, stoch
from vlib.progs import fx
from vlib.runner import Outcome
from vlib.simharness import Harness, RefSim, dec_ref, enc_obs, enc_ref

ID = "C11"
RULE = ("Hypothesis (program, drive, subscribe) triples: C02-style handler programs (priorities 1..9, no illegal "
        "requests) whose handlers make observations with literal values to a SimCounter, SimTally, SimWeightedTally "
        "and SimPersistent created in construct_model of a plain model or of a model class that defines __len__ (default event types, and a custom EventType via listen_to for "
        "the tally); replications with warm-up before / exactly on / between / after event times and beyond the end; "
        "drive in {start, steps, stop()-pause, bounded runs}, optionally as a later replication on the same simulator and model, optionally with a second model (own simulator, same statistic keys) initialised/run in between, optionally with self-removing one-shot listeners of WARMUP / END_REPLICATION subscribed before the statistics; optionally a subscriber on every statistic for every "
        "StatEvents type. Oracle: ordinary Counter/Tally/WeightedTally/TimestampWeightedTally fed exactly the "
        "observations that the reference interpreter executes after the warm-up reset (persistent closed with "
        "end_observations(end)): every getter bit-identical; independent exact (Fraction) time-integral for the "
        "persistent's mean; model.get_output_statistic(key) is the statistic (after initialize and at the end); inside the subscriber's notify the "
        "payload equals the getter at that moment (NaN-aware) and the timestamp equals the simulator time. "
        "Non-trivial = >=1 observation exactly at the warm-up instant, >=1 before and >=2 after it.")
ASSUMPTIONS = [
    "event priorities are restricted to 1..9: the property only orders the warm-up before NORMAL-priority events of the same instant",
    "observation values are literals (the reference interpreter must know them); arithmetic of the ordinary statistics is judged by C09/C10",
    "the reference interpreter RefSim decides which observations lie after the warm-up reset",
]
NONTRIVIAL_FLOOR = 0.05

_CUSTOM = {}


def _custom_type():
    from pydsol.core.pubsub import EventType
    if "t" not in _CUSTOM:
        _CUSTOM["t"] = EventType("C11_CUSTOM_TALLY_EVENT")
    return _CUSTOM["t"]


def budget(tier):
    if tier == "quick":
        return {"examples": 3200, "shards": 16}
    return {"examples": 100000, "shards": 16}


def _obs_actions(clock):
    val = st.one_of(st.sampled_from([0.0, 1.0, 2.0, 2.0, 5.5, -1.0, 100.0, 1e8 + 0.5]), st.floats(-50, 50),
                    st.integers(-5, 20).map(float)).map(fx)
    wgt = st.one_of(st.sampled_from([0.0, 1.0, 1.0, 2.0, 0.5]), st.floats(0, 10)).map(fx)
    return [
        (10, st.tuples(st.just("obs_c"), st.integers(-3, 5))),
        (12, st.tuples(st.just("obs_t"), val)),
        (10, st.tuples(st.just("obs_w"), wgt, val)),
        (14, st.tuples(st.just("obs_p"), val)),
    ]


def _focus(t):
    """steer a generated program towards the warm-up instant: an observing handler scheduled exactly at the
    warm-up time (two priorities), one before it (root observations happen at construction time) and some after"""
    prog, on, vals, k = t
    if not on:
        return prog
    ck = prog["clock"]
    start, warm = dec_ref(prog["rep"]["start"]), dec_ref(prog["rep"]["warmup"])
    wt = start + warm
    enc = (lambda x: [float(x).hex(), "s"]) if ck == "duration" else ((lambda x: float(x).hex()) if ck == "float" else int)
    node = len(prog["nodes"])
    prog["nodes"].append([["obs_t", fx(vals[0])], ["obs_p", fx(vals[1])], ["obs_c", k], ["obs_w", fx(1.0 + abs(k)), fx(vals[2])]])
    one = {"float": fx(1.0), "int": 1, "duration": [fx(30.0), "s"]}[ck]
    prog["nodes"].append([["obs_t", fx(vals[2])], ["obs_p", fx(vals[0])], ["rel", one, node + 1, 5], ["obs_c", 1]])
    end_t = start + dec_ref(prog["rep"]["length"])
    prog["root"] = [["obs_t", fx(vals[1])], ["obs_c", 2], ["obs_p", fx(vals[2])],
                    ["abs_t", enc(wt), node, 5], ["abs_t", enc(wt), node, 3], ["abs_t", enc(wt), node + 1, 7],
                    ["abs_t", enc(end_t), node, 5],            # an observation exactly at the replication end
                    ["now", node, 5]] + prog["root"][:3]
    return prog


def strategy(tier):
    base = progs.program_strategy(max_nodes=12 if tier == "quick" else 24, illegal=False, cap=100,
                                  extra_actions=_obs_actions, prio=st.integers(1, 9))
    prog = st.tuples(base, st.sampled_from([True, True, False]),
                     st.lists(st.one_of(st.sampled_from([0.0, 1.0, 2.0, 5.5]), st.floats(-20, 20)), min_size=3, max_size=3),
                     st.integers(-2, 4)).map(_focus)
    return st.fixed_dictionaries({
        "prog": prog,
        "drive": st.sampled_from(["start", "start", "steps", "pause", "bounded", "beyond", "beyond-incl", "excl"]),
        "k": st.integers(1, 10), "cuts": st.lists(st.integers(1, 9), min_size=1, max_size=3),
        "subscribe": st.booleans(),
        "reinit": st.sampled_from([None, None, None, "ended", "init", "bounded"]),
        "other_model": st.sampled_from([None, None, "ended", "init"]),
        "container_model": st.sampled_from([False, False, True]),
        "one_shot_listeners": st.sampled_from([False, False, True]),
        "same_rep_object": st.booleans(),
    })


def enumerate_cases(tier):
    """the user looks at every statistic during a pause before the warm-up, and again at the end - when the
    statistics hold as many observations as they held at the pause"""
    cases = []
    for ck, T, D in (("float", lambda x: fx(float(x)), lambda x: fx(float(x))), ("int", int, int)):
        for k in (3, 4):
            vals = [1.0, 2.0, 10.0, 4.5][:k]
            post = [3.0, 5.0, 4.0, 12.5][:k]
            nodes = []
            for i, v in enumerate(vals + post):
                nodes.append([["obs_t", fx(v)], ["obs_p", fx(v + 1.0)], ["obs_c", i + 1],
                              ["obs_w", fx(1.0 + i), fx(v * 2.0)]])
            root = [["abs_t", T(1 + i), i, 5] for i in range(k)] + [["abs_t", T(11 + i), k + i, 5] for i in range(k)]
            prog = {"clock": ck, "cap": 40, "rep": {"start": T(0), "warmup": T(8), "length": T(20)},
                    "root": root, "nodes": nodes}
            cases.append({"prog": prog, "drive": "excl", "k": 1, "cuts": [3], "subscribe": False, "reinit": None,
                          "other_model": None, "container_model": False, "one_shot_listeners": False,
                          "same_rep_object": False, "inspect": True})
    return cases


# which getter a published StatEvents value must equal
def _event_getters():
    from pydsol.core.interfaces import StatEvents as E
    return {
        E.N_EVENT: ("n", ()), E.COUNT_EVENT: ("count", ()), E.MIN_EVENT: ("min", ()), E.MAX_EVENT: ("max", ()),
        E.SUM_EVENT: ("sum", ()), E.MEAN_EVENT: ("mean", ()),
        E.POPULATION_STDEV_EVENT: ("stdev", (True,)), E.POPULATION_VARIANCE_EVENT: ("variance", (True,)),
        E.POPULATION_SKEWNESS_EVENT: ("skewness", (True,)), E.POPULATION_KURTOSIS_EVENT: ("kurtosis", (True,)),
        E.POPULATION_EXCESS_K_EVENT: ("excess_kurtosis", (True,)),
        E.SAMPLE_STDEV_EVENT: ("stdev", (False,)), E.SAMPLE_VARIANCE_EVENT: ("variance", (False,)),
        E.SAMPLE_SKEWNESS_EVENT: ("skewness", (False,)), E.SAMPLE_KURTOSIS_EVENT: ("kurtosis", (False,)),
        E.SAMPLE_EXCESS_K_EVENT: ("excess_kurtosis", (False,)),
        E.WEIGHTED_SUM_EVENT: ("weighted_sum", ()), E.WEIGHTED_MEAN_EVENT: ("weighted_mean", ()),
        E.WEIGHTED_POPULATION_STDEV_EVENT: ("weighted_stdev", (True,)),
        E.WEIGHTED_POPULATION_VARIANCE_EVENT: ("weighted_variance", (True,)),
        E.WEIGHTED_SAMPLE_STDEV_EVENT: ("weighted_stdev", (False,)),
        E.WEIGHTED_SAMPLE_VARIANCE_EVENT: ("weighted_variance", (False,)),
    }


def _same(a, b):
    if isinstance(a, float) and isinstance(b, float) and a != a and b != b:
        return True
    return a == b and type(a) == type(b)


def _install(model, subscribe, published):
    """construct hook: the four simulation statistics + (optionally) a checking subscriber on each"""
    from pydsol.core.interfaces import StatEvents
    from pydsol.core.pubsub import EventProducer, EventListener
    from pydsol.core.statistics import SimCounter, SimTally, SimWeightedTally, SimPersistent
    getters = _event_getters()

    class Sub(EventListener):
        def __init__(self, key, stat):
            self.key, self.stat = key, stat

        def notify(self, event):
            g = getters.get(event.event_type)
            published["n"] += 1
            if event.event_type == StatEvents.OBSERVATION_ADDED_EVENT:
                # a monitor that reads every statistic after every observation (also before the warm-up): reading
                # never changes what is reported later
                stoch.stat_digest(self.stat)
            ts = getattr(event, "timestamp", None)
            if ts is not None and self.key != "p":
                if enc_obs(ts) != enc_obs(self.stat.simulator.simulator_time):
                    published["bad"].append([self.key, event.event_type.name, "timestamp", enc_obs(ts)])
            if g is None:
                if event.event_type == StatEvents.INITIALIZED_EVENT and event.content is not self.stat:
                    published["bad"].append([self.key, "INITIALIZED_EVENT", "payload is not the statistic"])
                elif event.event_type == StatEvents.INITIALIZED_EVENT:
                    # the statistic says it has been reset (warm-up): at this moment it reports no observations
                    try:
                        n_now = self.stat.n()
                    except Exception as e:
                        n_now = type(e).__name__
                    if n_now != 0:
                        published["bad"].append([self.key, "INITIALIZED_EVENT", "published before the reset, n()", n_now])
                return
            if not hasattr(self.stat, g[0]):
                published["bad"].append([self.key, event.event_type.name, "no such getter"])
                return
            try:
                now = getattr(self.stat, g[0])(*g[1])
            except Exception as e:
                published["bad"].append([self.key, event.event_type.name, "getter raises " + type(e).__name__])
                return
            if not _same(event.content, now):
                published["bad"].append([self.key, event.event_type.name, repr(event.content), repr(now)])

    def construct(m):
        sim = m.simulator
        # the producers are queue-like components of the model: containers that are empty (falsy) right now
        class QueueLike(EventProducer):
            def __len__(self):
                return 0
        m.prod = {k: QueueLike() for k in "ctwp"}
        if getattr(model, "one_shot_listeners", False):
            # other parts of the model listen to the simulator too: one-shot listeners of the warm-up and of the
            # replication end, subscribed BEFORE the statistics, that unsubscribe themselves when notified
            from pydsol.core.interfaces import ReplicationInterface

            class OneShot(EventListener):
                def __init__(self, et):
                    self.et, self.seen = et, 0

                def notify(self, event):
                    self.seen += 1
                    sim.remove_listener(self.et, self)
            m.one_shots = [OneShot(ReplicationInterface.WARMUP_EVENT), OneShot(ReplicationInterface.END_REPLICATION_EVENT)]
            for o in m.one_shots:
                sim.add_listener(o.et, o)
        m.stats = {
            "c": SimCounter("cnt", "counter", sim),
            "t": SimTally("tal", "tally", sim),
            "w": SimWeightedTally("wt", "weighted", sim),
            "p": SimPersistent("per", "persistent", sim),
        }
        # a second statistic of each kind with the SAME descriptive name under another key (e.g. "waiting time" of
        # two servers), fed the same observations: it reports what the first one reports
        # (they are wired through the constructor arguments instead of listen_to)
        m.twins = {
            # (two of them carry as descriptive name what is the KEY of another statistic of the model)
            "c": SimCounter("cnt-b", "per", sim, producer=m.prod["c"], event_type=StatEvents.DATA_EVENT),
            # (a key is any string: this one ends with a blank and the next one starts with a tab)
            "t": SimTally("tal-b ", "tally", sim, producer=m.prod["t"], event_type=_custom_type()),
            "w": SimWeightedTally("\twt-b", "weighted", sim, producer=m.prod["w"],
                                  event_type=StatEvents.WEIGHT_DATA_EVENT),
            "p": SimPersistent("per-b", "cnt", sim, producer=m.prod["p"],
                               event_type=StatEvents.TIMESTAMP_DATA_EVENT),
        }
        m.twins["c"].listen_to(m.prod["c"], _custom_type())
        m.stats["c"].listen_to(m.prod["c"])
        m.stats["c"].listen_to(m.prod["c"], _custom_type())       # the counter listens to TWO event types
        m.obs_c_n = 0
        m.stats["t"].listen_to(m.prod["t"], _custom_type())       # custom event type through listen_to
        m.stats["w"].listen_to(m.prod["w"])
        m.stats["p"].listen_to(m.prod["p"])
        if subscribe:
            m.subs = []
            for k, s in m.stats.items():
                sub = Sub(k, s)
                m.subs.append(sub)
                for name in dir(StatEvents):
                    if name.endswith("_EVENT") and "DATA" not in name:
                        s.add_listener(getattr(StatEvents, name), sub)

    def action(m, a):
        sim = m.simulator
        k = a[0]
        if k == "obs_c":
            m.obs_c_n += 1
            m.prod["c"].fire(StatEvents.DATA_EVENT if m.obs_c_n % 2 else _custom_type(), a[1])
        elif k == "obs_t":
            m.prod["t"].fire(_custom_type(), float.fromhex(a[1]))
        elif k == "obs_w":
            m.prod["w"].fire(StatEvents.WEIGHT_DATA_EVENT, (float.fromhex(a[1]), float.fromhex(a[2])))
        elif k == "obs_p":
            m.prod["p"].fire_timed(sim.simulator_time, StatEvents.TIMESTAMP_DATA_EVENT, float.fromhex(a[1]))

    model.extra_construct = construct
    model.extra_action = action


def _bound(ref, frac, ck):
    span = ref.end - ref.clock
    if ck == "int":
        return ref.clock + (span * frac) // 10
    return ref.clock + span * (frac / 10.0)


def _jt(b, ck):
    if ck == "duration":
        return [float(b).hex(), "s"]
    if ck == "float":
        return float(b).hex()
    return b


def run_case(case):
    from pydsol.core.statistics import Counter, Tally, WeightedTally, TimestampWeightedTally
    out = Outcome()
    prog = case["prog"]
    ck = prog["clock"]
    out.label("clock=" + ck, "drive=" + case["drive"], "subscribe=%s" % case["subscribe"])

    # ---- reference: which observations count
    ref = RefSim(prog)
    obs = []           # [stat, payload..., clock, epoch]  epoch = number of warm-ups executed so far

    def ref_action(r, a):
        if a[0] in ("obs_c", "obs_t", "obs_w", "obs_p"):
            obs.append((a, r.clock, len(r.warmups)))
    ref.extra_action = ref_action
    ref.initialize()
    ref.run()
    epoch = len(ref.warmups)
    kept = [(a, t) for (a, t, ep) in obs if ep == epoch]
    exp = {"c": Counter("c"), "t": Tally("t"), "w": WeightedTally("w"), "p": TimestampWeightedTally("p")}
    for a, t in kept:
        if a[0] == "obs_c":
            exp["c"].register(a[1])
        elif a[0] == "obs_t":
            exp["t"].register(float(float.fromhex(a[1])))
        elif a[0] == "obs_w":
            exp["w"].register(float(float.fromhex(a[1])), float(float.fromhex(a[2])))
        else:
            exp["p"].register(float(t), float(float.fromhex(a[1])))
    exp["p"].end_observations(float(ref.end))
    want = {k: stoch.stat_digest(s) for k, s in exp.items()}

    # ---- SUT
    published = {"n": 0, "bad": []}
    if case.get("container_model"):
        # the model class also defines __len__ (0 while the model is built): the model object is falsy
        prog = dict(prog, container_model=True)
        out.label("model-with-__len__")
    h = Harness(prog)
    if case.get("one_shot_listeners"):
        h.model.one_shot_listeners = True
        out.label("one-shot-listeners-before-statistics")
    _install(h.model, case["subscribe"], published)
    try:
        h.initialize()
        if case.get("reinit"):
            # an earlier replication on the same simulator and model (statistics are rebuilt by construct_model)
            out.label("after-earlier-replication=" + case["reinit"])
            if case["reinit"] == "ended":
                h.run_piece(["start"])
            elif case["reinit"] == "bounded":
                r0 = RefSim(prog)
                r0.initialize()
                # (the kind of bound of an abandoned run is no business of the next replication)
                h.run_piece(["run_up_to_incl" if case.get("k", 0) % 2 else "run_up_to", _jt(_bound(r0, 5, ck), ck)])
            from vlib.simharness import Recorder
            h.rec = Recorder()
            published["n"] = 0
            del published["bad"][:]
            try:
                h.initialize(same_object=bool(case.get("same_rep_object")))
            except Exception as e:
                out.fail("reinitialize-raised-" + type(e).__name__, repr(e))
                return out
        for key, name in (("c", "cnt"), ("t", "tal"), ("w", "wt"), ("p", "per")):
            try:
                if h.model.get_output_statistic(name) is not h.model.stats[key]:
                    out.fail("output-statistic-identity", name)
                if h.model.output_statistics().get(name) is not h.model.stats[key]:
                    out.fail("output-statistics-map", name)
            except Exception as e:
                out.fail("output-statistic-missing", [name, repr(e)])
        r2 = RefSim(prog)          # second reference, only to compute concrete bounds / counts for the drive
        r2.initialize()
        drive = case["drive"]
        errs = []
        if drive == "steps":
            for _ in range(min(case["k"] * 3, 40)):
                errs.append(h.run_piece(["step"]))
        elif drive == "pause":
            errs.append(h.start_pause_after(case["k"], ["start"]))
        elif drive == "bounded":
            for c in sorted(case["cuts"]):
                b = _bound(r2, c, ck)
                r2.run(b, True)
                if r2.ended:
                    break
                errs.append(h.run_piece(["run_up_to_incl", _jt(b, ck)]))
        elif drive == "excl":
            # a pause by an exclusive bound; the rest of the replication by a plain start() (the loop below)
            errs.append(h.run_piece(["run_up_to", _jt(_bound(r2, case["cuts"][0], ck), ck)]))
        elif drive in ("beyond", "beyond-incl"):
            # first a pause somewhere, then the rest with a bound BEYOND the replication end: every event up to and
            # including the end must still run (and nothing later)
            b = _bound(r2, case["cuts"][0], ck)
            errs.append(h.run_piece(["run_up_to", _jt(b, ck)]))
            far = r2.end + (7 if ck == "int" else 12.5)
            errs.append(h.run_piece(["run_up_to" if drive == "beyond" else "run_up_to_incl", _jt(far, ck)]))
        if case.get("inspect"):
            # the user reads every getter of every statistic during the pause (reading changes nothing)
            for st_ in list(h.model.stats.values()) + list(h.model.twins.values()):
                stoch.stat_digest(st_)
            out.label("statistics-read-during-a-pause-before-warm-up")
        from pydsol.core.simulator import RunState
        if case.get("other_model"):
            # another model (own simulator, statistics under the same keys) is initialised (and run) in the same
            # process while this one is initialised / paused: the statistics of a model belong to that model
            out.label("other-model-alive=" + case["other_model"])
            oprog = {"clock": "float", "cap": 40, "rep": {"start": (0.0).hex(), "warmup": (1.0).hex(),
                                                           "length": (5.0).hex()},
                     "root": [["rel", (1.0).hex(), 0, 5]],
                     "nodes": [[["obs_c", 1], ["obs_t", (2.0).hex()], ["obs_p", (1.0).hex()], ["rel", (1.0).hex(), 0, 5]]]}
            ho = Harness(oprog)
            _install(ho.model, False, {"n": 0, "bad": []})
            try:
                ho.initialize()
                if case["other_model"] == "ended":
                    ho.run_piece(["start"])
            finally:
                if ho.finish():
                    out.fail("thread-leak", "other model")
        for _ in range(3):
            if h.sim.run_state != RunState.ENDED:
                errs.append(h.run_piece(["start"]))
        for tw in h.model.twins.values():
            try:
                if h.model.get_output_statistic(tw.key) is not tw or h.model.output_statistics().get(tw.key) is not tw:
                    out.fail("output-statistic-identity-at-end", repr(tw.key))
            except Exception as e:
                out.fail("output-statistic-missing-at-end", [repr(tw.key), repr(e)])
        for key, name in (("c", "cnt"), ("t", "tal"), ("w", "wt"), ("p", "per")):
            try:
                if h.model.get_output_statistic(name) is not h.model.stats[key] or \
                        h.model.output_statistics().get(name) is not h.model.stats[key]:
                    out.fail("output-statistic-identity-at-end", name)
            except Exception as e:
                out.fail("output-statistic-missing-at-end", [name, repr(e)])
        bad = [repr(e) for e in errs if e is not None and not (drive == "steps" and "simulator_time > run length" in repr(e))]
        if h.sim.run_state != RunState.ENDED:
            out.fail("not-ended", {"state": h.sim.run_state.name, "errors": bad[:3],
                                   "trace_len": [len(h.model.trace), len(ref.trace)]})
        elif h.model.trace != ref.trace:
            out.fail("trace", {"len": [len(h.model.trace), len(ref.trace)]})
        else:
            got = {k: stoch.stat_digest(s) for k, s in h.model.stats.items()}
            for k in "ctwp":
                if got[k] != want[k]:
                    diff = {g: [got[k][g], want[k].get(g)] for g in got[k] if got[k][g] != want[k].get(g)}
                    out.fail("statistic-%s-differs-from-ordinary" % {"c": "counter", "t": "tally", "w": "weighted",
                                                                     "p": "persistent"}[k],
                             {"diff": diff, "kept": len(kept), "all": len(obs), "warmups": epoch})
            if h.model.stats["p"].isactive():
                out.fail("persistent-not-closed-at-end", None)
            for k_ in "ctwp":
                d1, d2 = stoch.stat_digest(h.model.stats[k_]), stoch.stat_digest(h.model.twins[k_])
                if d1 != d2:
                    out.fail("equally-named-statistic-differs:" + k_,
                             {"diff": {g: [d1[g], d2.get(g)] for g in d1 if d1[g] != d2.get(g)}})
            # independent exact time integral for the persistent
            pk = [(t, float.fromhex(a[1])) for a, t in kept if a[0] == "obs_p"]
            if pk:
                t0 = Fraction(pk[0][0])
                tend = Fraction(ref.end)
                if tend > t0:
                    integ = Fraction(0)
                    for i, (t, v) in enumerate(pk):
                        nxt = Fraction(pk[i + 1][0]) if i + 1 < len(pk) else tend
                        integ += Fraction(v) * (nxt - Fraction(t))
                    exact = float(integ / (tend - t0))
                    gotm = h.model.stats["p"].weighted_mean()
                    scale = max(abs(v) for _, v in pk) or 1.0
                    if not abs(gotm - exact) <= 1e-9 * scale * max(1, len(pk)) + 1e-300:   # (+ floor: subnormal values)
                        out.fail("persistent-mean-vs-exact-integral", {"got": gotm, "exact": exact, "n": len(pk)})
                    out.label("persistent-integral-checked")
        if published["bad"]:
            b = published["bad"][0]
            out.fail("published-value-%s-%s" % (b[0], b[1]), published["bad"][:3])
        if case["subscribe"] and published["n"]:
            out.label("published-events-checked")
    finally:
        if h.finish():
            out.fail("thread-leak", None)
    # ---- non-trivial rule
    warm = ref.warm
    at = sum(1 for (a, t, ep) in obs if t == warm)
    before = sum(1 for (a, t, ep) in obs if t < warm)
    after = sum(1 for (a, t, ep) in obs if t > warm)
    if at:
        out.label("obs-at-warmup-instant")
    if epoch == 0:
        out.label("warmup-never-reached")
    out.nontrivial = at >= 1 and before >= 1 and after >= 2
    out.info = {"observations": len(obs), "kept": len(kept), "published": published["n"]}
    return out


RULE = RULE + " " + "Later additions: a second statistic of each kind with the same descriptive name, wired through the constructor arguments producer= / event_type= to queue-like (falsy) producers, reports what the first reports; drive 'excl' (exclusive bound, then start())."
