"""C08 - publish/subscribe: a fired event reaches exactly its subscribers, once, in order.

Case (JSON):
  {"scripts": [S0..S4]       one reaction script per listener, executed inside notify():
                 {"on": -1 | type index        react to every type / only to that type
                  "limit": 0 | n               0 = react every time, n = only the first n notifications
                  "acts": [action, ...]}
   "ops": [op, ...]}
top-level ops (listener index l, type index t; all indices are reduced modulo the pool size):
  ["add", l, t]  ["rem", l, t]  ["rall", form, l, t, style]  ["has"]
  ["fire", t, content, check]   ["firet", t, ts, content, check]
  ["fire_event", t, content, timed, ts, via]      via 0: fire_event(ev)  1: fire_timed_event(ev)
  ["bad", variant, junk]                          wrong-typed argument, EventError expected
  ["event", m, content, check, timed, ts]         payload x metadata: construct (Timed)Event on meta type m
actions inside notify of listener `me` while type t is being delivered (who -1 = me, type = t+toff):
  ["add", who, toff]  ["rem", who, toff]  ["rall", form, who, toff, style]  ["has"]
  ["fire", toff, content, check]  ["firet", toff, ts, content, check]     (only while depth < 3)
rall forms: 0 ()  1 (listener=L)  2 (event_type=T)  3 (T, L); style 1 spells the absent argument as None.
check: 0 False, 1 True, 2 argument omitted (default True).
content / ts encoding: plain JSON; a float is {"$f": float.hex()}.
"""
import collections
import itertools
import json

from hypothesis import strategies as st

from vlib.runner import Outcome

ID = "C08"
RULE = ("Hypothesis op lists (<=40 quick / <=80 thorough, after a warm-up block of subscriptions) over ONE "
        "EventProducer, 4 event types (one with metadata {a:int,b:str}) and 5 listeners; ops add_listener, "
        "remove_listener, remove_all_listeners (4 argument forms x 2 spellings), fire, fire_timed, fire_event, "
        "fire_timed_event, has_listeners, wrong-typed arguments, and (Timed)Event construction against 7 metadata "
        "declarations with conforming / missing / extra / renamed key / wrong type / None value / non-dict / "
        "check=False payloads and int / float / bool / non-number timestamps. Every listener carries a generated "
        "reaction script run inside notify (subscribe/unsubscribe itself or others, remove_all, has_listeners, "
        "nested fire / fire_timed of the same or another type, depth <= 3, 150 reacting notifications per op). "
        "Oracle: reference model dict type -> ordered list with snapshot-at-fire delivery and depth-first nesting "
        "predicts the complete per-op log (listener, type, content, timestamp, depth; has_listeners values and "
        "refusals seen inside notify); compared after every op together with has_listeners() and a quiet probe "
        "fire of each type (delivery order == model list); construction verdict from the declared metadata "
        "(never from EventType.metadata). Non-trivial = some fire reached >=2 listeners while a reaction changed "
        "the subscription list of the type being delivered, or a nested fire reached >=1 listener; distinct = "
        "distinct case digests.")
ASSUMPTIONS = [
    "listeners never raise out of notify (every reaction action is wrapped; the property says nothing about raising listeners)",
    "listeners use default identity equality/hash; payloads are JSON-like values (no dict subclasses, no objects with odd __eq__)",
    "a conforming payload containing a None value may be accepted or refused (the docstrings are silent; the code refuses)",
    "a bool timestamp may be accepted or refused (isinstance(True, int)); str / None / list timestamps must be refused",
    "wrong-typed arguments must raise EventError as the docstrings say and leave subscriptions unchanged",
    "single-threaded use only",
]
NONTRIVIAL_FLOOR = 0.15
LEVEL_TEXT = "exploration"
TECHNIQUE = "property-based testing (Hypothesis op lists) against an executable reference model"

NL, NT, MAXDEPTH, FUEL = 5, 4, 3, 150

# declared metadata, by type name (the model never reads EventType.metadata)
_TN = {"int": int, "str": str, "float": float, "list": list, "dict": dict, "object": object,
       "none": type(None), "bool": bool}
T3_SPEC = {"a": "int", "b": "str"}
META_SPECS = [
    {},                                           # 0: empty declaration: only {} conforms
    {"x": "int"},                                 # 1
    T3_SPEC,                                      # 2: the metadata type of the histories (type index 3)
    {"f": "float", "l": "list", "d": "dict"},     # 3
    {"o": "object", "n": "none"},                 # 4: None can be an instance of the declared type
    {"b": "bool", "s": "str"},                    # 5
    None,                                         # 6: no metadata (type index 0 of the histories)
]
TYPE_SPECS = [None, None, None, T3_SPEC]


def budget(tier):
    if tier == "quick":
        return {"examples": 3200, "shards": 16}
    return {"examples": 200000, "shards": 16}


# ---------------------------------------------------------------- environment (event types are process-global)
_ENV = None


def _new_type(EventType, EventError, name, metadata):
    # EventType names are unique per defining function for the life of the process: retry with a suffix so
    # that a second import of this module (reload, other module name) still gets its types
    for i in range(1000):
        try:
            return EventType(name if i == 0 else "%s#%d" % (name, i), metadata)
        except EventError:
            continue
    raise RuntimeError("cannot create EventType " + name)


def _new_type_other_class(EventType, name, metadata):
    """same NAME as another type, but defined in another function: EventType identity includes the defining class"""
    return EventType(name, metadata)


def _env():
    global _ENV
    if _ENV is None:
        from pydsol.core import pubsub
        ET, EE = pubsub.EventType, pubsub.EventError

        def md(spec):
            return None if spec is None else {k: _TN[v] for k, v in spec.items()}
        types = [_new_type(ET, EE, "C08_T%d" % i, md(s)) for i, s in enumerate(TYPE_SPECS)]
        # type 1 carries the SAME name as type 0 but is defined elsewhere: two distinct event types whose names
        # tie (Door.CHANGED / Window.CHANGED) must not share subscribers
        try:
            types[1] = _new_type_other_class(ET, types[0].name, md(TYPE_SPECS[1]))
        except EE:
            pass
        mtypes = []
        for i, s in enumerate(META_SPECS):
            if i == 2:
                mtypes.append(types[3])
            elif i == 6:
                mtypes.append(types[0])
            else:
                mtypes.append(_new_type(ET, EE, "C08_M%d" % i, md(s)))
        _ENV = (pubsub, types, mtypes)
    return _ENV


# ---------------------------------------------------------------- encoding helpers
def _dec(x):
    if isinstance(x, dict):
        if len(x) == 1 and "$f" in x and isinstance(x["$f"], str):
            return float.fromhex(x["$f"])
        return {k: _dec(v) for k, v in x.items()}
    if isinstance(x, list):
        return [_dec(v) for v in x]
    return x


def _tag(v):
    if v is None:
        return ["n"]
    if isinstance(v, bool):
        return ["b", v]
    if isinstance(v, int):
        return ["i", v]
    if isinstance(v, float):
        return ["f", v.hex()]
    if isinstance(v, str):
        return ["s", v]
    if isinstance(v, list):
        return ["l", [_tag(x) for x in v]]
    if isinstance(v, dict):
        return ["d", [[k, _tag(v[k])] for k in sorted(v, key=repr)]]
    return ["?", repr(v)]


def _canon(v):
    return json.dumps(_tag(v), sort_keys=True)


def _ts_kind(ts):
    if type(ts) is bool:
        return "bool"
    if type(ts) in (int, float):
        return "number"
    return "non-number"


def _verdict(spec, content, check):
    """(verdict, shape) of constructing an event: verdict in ok / refuse / either."""
    if spec is None:
        return "ok", "no-metadata"
    if not isinstance(content, dict):
        return "refuse", "non-dict"
    declared, given = set(spec), set(content)
    if declared == given:
        wrong = [k for k in spec if not isinstance(content[k], _TN[spec[k]])]
        shape = "wrong-type" if wrong else ("none-value" if any(content[k] is None for k in spec) else "conforming")
    elif given < declared:
        shape = "missing-key"
    elif given > declared:
        shape = "extra-key"
    else:
        shape = "renamed-key"
    if not check:
        return "ok", "check-off:" + shape
    if shape == "conforming":
        return "ok", shape
    if shape == "none-value":
        return "either", shape
    return "refuse", shape


# ---------------------------------------------------------------- the two worlds
class _World:
    """Listener behaviour (the harness side): log every notification, then run the reaction script through the
    primitives add/rem/rall/fire/has, which the subclasses map to pydsol resp. to the reference model."""
    catch = False

    def __init__(self, scripts):
        self.scripts = scripts
        self.log = []
        self.depth = 0
        self.fuel = 0
        self.runs = [0] * NL
        self.quiet = False
        self.probe = []
        self.labels = set()

    def begin(self):
        self.log = []
        self.depth = 0
        self.fuel = FUEL

    def deliver(self, me, t, cc, tc):
        if self.quiet:
            self.probe.append(me)
            return
        self.log.append(["n", me, t, cc, tc, self.depth])
        self.fuel -= 1
        if self.fuel < 0:
            self.labels.add("fuel-exhausted")
            return
        sc = self.scripts[me]
        on = sc["on"]
        if on >= 0 and on % NT != t:
            return
        if sc["limit"] and self.runs[me] >= sc["limit"]:
            return
        self.runs[me] += 1
        for act in sc["acts"]:
            if self.catch:
                try:
                    self.react(me, t, act)
                except Exception as e:          # the code under test raised inside a notification
                    self.log.append(["exc", type(e).__name__, self.depth])
            else:
                self.react(me, t, act)

    def react(self, me, t, act):
        k = act[0]
        if k in ("add", "rem", "rall"):
            off = 1 if k == "rall" else 0
            who = me if act[1 + off] < 0 else act[1 + off] % NL
            typ = (t + act[2 + off]) % NT
            if k == "add":
                self.add(who, typ)
            elif k == "rem":
                if who == me and typ == t:
                    self.labels.add("self-unsubscribe-in-notify")
                self.rem(who, typ)
            else:
                self.labels.add("rall-in-notify")
                self.rall(act[1] % 4, who, typ, act[4] % 2)
        elif k in ("fire", "firet"):
            if self.depth >= MAXDEPTH:
                return
            typ = (t + act[1]) % NT
            if typ == t:
                self.labels.add("reentrant-same-type")
            self.log.append(["nest", self.depth])
            self.depth += 1
            try:
                if k == "fire":
                    r = self.fire(typ, act[2], act[3], None, False)
                else:
                    r = self.fire(typ, act[3], act[4], act[2], True)
            finally:
                self.depth -= 1
            if r != "ok":
                self.labels.add("refused-in-notify")
                self.log.append(["refused", self.depth])
        elif k == "has":
            self.log.append(["has", bool(self.has()), self.depth])


class _Real(_World):
    catch = True

    def __init__(self, scripts):
        super().__init__(scripts)
        pubsub, types, _ = _env()
        self.ps = pubsub
        self.types = types
        self.prod = pubsub.EventProducer()
        self.cur_event = None
        world = self

        class L(pubsub.EventListener):
            def __init__(self, idx):
                self.idx = idx
                self.collected = []

            def __len__(self):
                # every second listener is a 'collecting' listener that is still empty: a falsy object
                return 0 if self.idx % 2 else 1

            def notify(self, event):
                t = -1
                for i, et in enumerate(types):
                    if event.event_type is et:
                        t = i
                ts = _canon(event.timestamp) if isinstance(event, pubsub.TimedEvent) else None
                if world.cur_event is not None and world.depth == 0 and not world.quiet \
                        and event is not world.cur_event:
                    world.log.append(["other-event", world.depth])
                world.deliver(self.idx, t, _canon(event.content), ts)
                # what notify() returns is nobody's business: some listeners return something truthy
                return [None, True, 7, "handled"][self.idx % 4]

        self.L = L
        self.listeners = [L(i) for i in range(NL)]

    def add(self, l, t):
        self.prod.add_listener(self.types[t], self.listeners[l])

    def rem(self, l, t):
        self.prod.remove_listener(self.types[t], self.listeners[l])

    def rall(self, form, l, t, style):
        T, Lr, p = self.types[t], self.listeners[l], self.prod
        if form == 0:
            p.remove_all_listeners(None, None) if style else p.remove_all_listeners()
        elif form == 1:
            p.remove_all_listeners(None, Lr) if style else p.remove_all_listeners(listener=Lr)
        elif form == 2:
            p.remove_all_listeners(event_type=T, listener=None) if style else p.remove_all_listeners(T)
        else:
            p.remove_all_listeners(listener=Lr, event_type=T) if style else p.remove_all_listeners(T, Lr)

    def has(self):
        return self.prod.has_listeners()

    def fire(self, t, content_enc, check, ts_enc, timed):
        content = _dec(content_enc)
        T = self.types[t]
        try:
            if timed:
                ts = _hist_ts(ts_enc)
                if check == 2:
                    self.prod.fire_timed(ts, T, content)
                else:
                    self.prod.fire_timed(ts, T, content, bool(check))
            else:
                if check == 2:
                    self.prod.fire(T, content)
                else:
                    self.prod.fire(T, content, check=bool(check))
        except self.ps.EventError:
            return "refused"
        return "ok"


class _Model(_World):
    def __init__(self, scripts):
        super().__init__(scripts)
        self.subs = [[] for _ in range(NT)]
        self.stack = []
        self.inflight = False
        self.nested = 0

    def _touch(self, t):
        for fr in self.stack:
            if fr[0] == t:
                fr[1] = True

    def add(self, l, t):
        if l in self.subs[t]:
            self.labels.add("duplicate-subscription")
            return
        self.subs[t].append(l)
        self._touch(t)

    def rem(self, l, t):
        if l in self.subs[t]:
            self.subs[t].remove(l)
            self._touch(t)
        else:
            self.labels.add("remove-absent")

    def rall(self, form, l, t, style):
        self.labels.add("rall-form-%d" % form)
        if form == 0:
            for tt in range(NT):
                if self.subs[tt]:
                    self.subs[tt] = []
                    self._touch(tt)
        elif form == 1:
            for tt in range(NT):
                if l in self.subs[tt]:
                    self.subs[tt].remove(l)
                    self._touch(tt)
        elif form == 2:
            if self.subs[t]:
                self.subs[t] = []
                self._touch(t)
        else:
            self.rem(l, t)

    def has(self):
        return any(self.subs)

    def deliver_all(self, t, cc, tc):
        snap = list(self.subs[t])
        if self.depth > 0 and snap:
            self.nested = max(self.nested, self.depth)
        frame = [t, False]
        self.stack.append(frame)
        for l in snap:
            self.deliver(l, t, cc, tc)
        self.stack.pop()
        if len(snap) >= 2 and frame[1]:
            self.inflight = True
        if len(snap) >= 2:
            self.labels.add("fire-reaches>=2")

    def fire(self, t, content_enc, check, ts_enc, timed):
        content = _dec(content_enc)
        v, shape = _verdict(TYPE_SPECS[t], content, check != 0)
        ts = None
        if timed:
            ts = _hist_ts(ts_enc)
            if _ts_kind(ts) != "number":
                v = "refuse"
        if v != "ok":                      # 'either' cannot arise for the history types
            return "refused"
        self.deliver_all(t, _canon(content), _canon(ts) if timed else None)
        return "ok"


def _hist_ts(enc):
    ts = _dec(enc)
    if isinstance(ts, bool):              # bool timestamps (either verdict) only in the "event" ops
        return int(ts)
    return ts


# ---------------------------------------------------------------- log comparison
def _classify(exp, got):
    if any(e[0] == "exc" for e in got):
        return "exception-in-notify"
    if any(e[0] == "other-event" for e in got):
        return "event-object"
    n = min(len(exp), len(got))
    i = 0
    while i < n and exp[i] == got[i]:
        i += 1
    e = exp[i] if i < len(exp) else None
    g = got[i] if i < len(got) else None
    if i > 0 and exp[i - 1][0] == "nest":       # the verdict on a fire made from inside notify differs
        if e and e[0] == "refused" and not (g and g[0] == "refused"):
            return "nested-fire-accepted"
        if g and g[0] == "refused" and not (e and e[0] == "refused"):
            return "nested-fire-refused"
    if e and g and e[0] == "has" and g[0] == "has" and e[2] == g[2]:
        return "has_listeners-in-notify"
    if e and g and e[0] == "n" and g[0] == "n" and e[1:3] == g[1:3] and e[5] == g[5]:
        if e[3] != g[3]:
            return "content"
        if e[4] != g[4]:
            return "timestamp"
    ce = collections.Counter((x[1], x[2], x[5]) for x in exp if x[0] == "n")
    cg = collections.Counter((x[1], x[2], x[5]) for x in got if x[0] == "n")
    if ce == cg:
        if [x for x in exp if x[0] == "n"] != [x for x in got if x[0] == "n"]:
            return "order"
        return "reaction-observation"
    extra, missing = cg - ce, ce - cg
    if extra and not missing:
        return "duplicate" if any(ce[k] for k in extra) else "extra"
    if missing and not extra:
        return "missing"
    return "wrong-recipients"


def _classify_seq(exp, got):
    ce, cg = collections.Counter(exp), collections.Counter(got)
    if ce == cg:
        return "order"
    extra, missing = cg - ce, ce - cg
    if extra and not missing:
        return "duplicate" if any(ce[k] for k in extra) else "extra"
    if missing and not extra:
        return "missing"
    return "wrong-recipients"


# ---------------------------------------------------------------- interpreter
def _guard(fn, *args):
    """Call into the code under test; hand back an exception the property does not allow instead of raising."""
    try:
        fn(*args)
    except Exception as e:
        return e
    return None


def _junk(real, j):
    ps = real.ps

    class Duck:
        def notify(self, event):
            pass
    pool = ["junk", 17, None, [1, 2], real.L, Duck(), 3.5, {"a": 1}, ps.EventType, object()]
    return pool[j % len(pool)]


def enumerate_cases(tier):
    """the library's own producers and listeners: a data producer that outlives a replication, a simulation statistic
    and ordinary listeners on the same event type, across re-initialisations of the simulator"""
    cases = []
    for stat in ("SimCounter", "SimTally", "SimPersistent"):
        for user_first in (True, False):
            for reinits in (1, 2):
                cases.append({"kind": "sim-listeners", "stat": stat, "user_first": user_first, "reinits": reinits})
    # one payload OBJECT fired more than once: what is checked is what it contains at each firing
    for mutation in ("wrong-type", "extra-key", "missing-key", "none"):
        for timed in (False, True):
            for first in ("checked", "check-off-nonconforming"):
                for other_producer in (False, True):
                    cases.append({"kind": "payload-reuse", "mutation": mutation, "timed": timed, "first": first,
                                  "other_producer": other_producer})
    # a listener whose notify() raises once: it stays subscribed (nobody unsubscribed it)
    for timed in (False, True):
        for pos in (0, 1, 2):
            for nested in (False, True):
                cases.append({"kind": "raising-listener", "timed": timed, "pos": pos, "nested": nested})
    # ONE event object fired more than once (a prebuilt event; an event forwarded by a second producer)
    for timed in (False, True):
        for second in ("same-producer", "other-producer"):
            cases.append({"kind": "event-refired", "timed": timed, "second": second})
    # an object that is producer and listener at once and subscribes to itself (a component that reacts to its own
    # events), before / after an ordinary listener
    for first in (True, False):
        for timed in (False, True):
            cases.append({"kind": "self-listener", "self_first": first, "timed": timed})
    # two listener objects that compare equal (a value class such as a dataclass): all short histories
    n = 4 if tier == "quick" else 5
    for seq in itertools.product(range(len(_EQ_OPS)), repeat=n):
        cases.append({"kind": "equal-listeners", "ops": list(seq)})
    return cases


_EQ_OPS = [("add", "a", 0), ("add", "b", 0), ("add", "b", 1), ("rem", "a", 0), ("rem", "b", 0),
           ("rall", "a", None), ("rall", "b", None)]


def _run_event_refired(case, out):
    """every firing is delivered to the listeners subscribed at that moment - whether or not the event object was
    fired before, by this producer or by another one"""
    pubsub, types, _m = _env()
    T = types[0]
    got = []

    class L(pubsub.EventListener):
        def __init__(self, idx):
            self.idx = idx

        def notify(self, event):
            got.append([self.idx, event.content])
    p1, p2 = pubsub.EventProducer(), pubsub.EventProducer()
    ls = [L(i) for i in range(4)]
    for l_ in ls[:3]:
        p1.add_listener(T, l_)
    p2.add_listener(T, ls[1])
    p2.add_listener(T, ls[3])
    ev = pubsub.TimedEvent(2.5, T, 7) if case["timed"] else pubsub.Event(T, 7)
    fire1 = p1.fire_timed_event if case["timed"] else p1.fire_event
    fire2 = (p2.fire_timed_event if case["timed"] else p2.fire_event) if case["second"] == "other-producer" else fire1
    e = _guard(lambda: fire1(ev))
    first = list(got)
    del got[:]
    if case["second"] == "same-producer":
        p1.add_listener(T, ls[3])                 # subscribed in between
    e2 = _guard(lambda: fire2(ev))
    if e is not None or e2 is not None:
        out.fail("delivery:raises", repr(e or e2))
        return
    want2 = [[0, 7], [1, 7], [2, 7], [3, 7]] if case["second"] == "same-producer" else [[1, 7], [3, 7]]
    if first != [[0, 7], [1, 7], [2, 7]] or got != want2:
        out.fail("delivery:missing" if len(got) < len(want2) else "delivery:order",
                 {"one event object fired twice": case["second"], "first": first, "second": got, "want_second": want2})
    out.nontrivial = True
    out.label("kind=event-refired")


def _run_self_listener(case, out):
    pubsub, types, _m = _env()
    T, U = types[0], types[1]
    got = []

    class Component(pubsub.EventProducer, pubsub.EventListener):
        def __init__(self):
            pubsub.EventProducer.__init__(self)

        def notify(self, event):
            got.append(["self", event.event_type is T, event.content])
            if event.event_type is T and event.content == 1:
                self.fire(U, 2)                 # reacts to its own event with another event of its own

    class Other(pubsub.EventListener):
        def notify(self, event):
            got.append(["other", event.event_type is T, event.content])
    comp, other = Component(), Other()
    order = [comp, other] if case["self_first"] else [other, comp]
    for l_ in order:
        e = _guard(lambda: comp.add_listener(T, l_))
        if e is None:
            e = _guard(lambda: comp.add_listener(U, l_))
        if e is not None:
            out.fail("unexpected-exception:self-listener:" + type(e).__name__, repr(e))
            return
    e = _guard((lambda: comp.fire_timed(1.5, T, 1)) if case["timed"] else (lambda: comp.fire(T, 1)))
    if e is not None:
        out.fail("delivery:raises", repr(e))
        return
    names = ["self", "other"] if case["self_first"] else ["other", "self"]
    nested = [[n, False, 2] for n in names]
    want = []
    for n in names:
        want.append([n, True, 1])
        if n == "self":
            want += nested
    if got != want:
        out.fail("delivery:missing" if len(got) < len(want) else "delivery:order",
                 {"producer listening to itself": True, "got": got, "want": want})
        return
    comp.remove_listener(T, comp)
    del got[:]
    comp.fire(T, 5)
    if got != [["other", True, 5]]:
        out.fail("delivery:unsubscribed", {"got": got})
    out.nontrivial = True
    out.label("kind=self-listener")


def _run_equal_listeners(case, out):
    """Listeners a and b are distinct objects that compare equal.  Whether the producer takes them for one
    subscriber (equality: the second subscription is a duplicate, unsubscribing either removes the subscription)
    or for two (identity) - it has to do so in subscribing AND unsubscribing; whoever is subscribed, and only they,
    are notified, in subscription order.  Both readings are computed; the producer must follow one of them."""
    pubsub, types, _m = _env()
    Ts = (types[0], types[1])
    prod = pubsub.EventProducer()
    got = []

    class V(pubsub.EventListener):
        def __init__(self, name, key):
            self.name, self.key = name, key

        def __eq__(self, other):
            return isinstance(other, V) and other.key == self.key

        def __hash__(self):
            return hash(self.key)

        def notify(self, event):
            got.append(self.name)

    if sum(case["ops"]) % 2:
        # (a class that defines equality and nothing else - a plain @dataclass - is not hashable; subscribing never
        # asked for hashable listeners)
        class V(V):                                               # noqa: F811
            __hash__ = None
        out.label("equal-listeners-unhashable")
    objs = {"a": V("a", 7), "b": V("b", 7)}
    models = {"equality": ([[], []], lambda x, y: True), "identity": ([[], []], lambda x, y: x == y)}
    alive = set(models)
    both_offered = set()
    for step, oi in enumerate(case["ops"]):
        k, who, t = _EQ_OPS[oi]
        if k == "add":
            both_offered.add((who, t))
            e = _guard(lambda: prod.add_listener(Ts[t], objs[who]))
        elif k == "rem":
            e = _guard(lambda: prod.remove_listener(Ts[t], objs[who]))
        else:
            e = _guard(lambda: prod.remove_all_listeners(listener=objs[who]))
        if e is not None:
            out.fail("unexpected-exception:equal-listeners:" + type(e).__name__, {"step": step, "op": [k, who, t]})
            return
        for name, (subs, same) in models.items():
            for tt in ((t,) if t is not None else (0, 1)):
                hit = [x for x in subs[tt] if same(x, who)]
                if k == "add":
                    if not hit:
                        subs[tt].append(who)
                elif hit:
                    subs[tt].remove(hit[0])
        seen = []
        for tt in (0, 1):
            del got[:]
            e = _guard(lambda: prod.fire(Ts[tt], None))
            if e is not None:
                out.fail("delivery:raises", {"step": step, "exc": repr(e)})
                return
            seen.append(list(got))
        alive = {m for m in alive if models[m][0] == seen}
        if not alive:
            out.fail("delivery:equal-listeners-inconsistent",
                     {"ops": [list(_EQ_OPS[i]) for i in case["ops"][:step + 1]], "notified": seen,
                      "if_equal_listeners_are_one_subscriber": models["equality"][0],
                      "if_they_are_two": models["identity"][0]})
            return
    out.label("kind=equal-listeners")
    out.label("equal-listeners-treated-by-" + "/".join(sorted(alive)))
    out.nontrivial = ("a", 0) in both_offered and ("b", 0) in both_offered


def _run_raising_listener(case, out):
    pubsub, types, _m = _env()
    T, T3 = types[0], types[3]
    prod = pubsub.EventProducer()
    got = []
    state = {"raise": True}

    class L(pubsub.EventListener):
        def __init__(self, idx):
            self.idx = idx

        def notify(self, event):
            got.append(self.idx)
            if self.idx == case["pos"] and state["raise"]:
                if case["nested"]:
                    prod.fire(T3, {"a": "not an int", "b": 1})      # refused payload: EventError passes through
                raise RuntimeError("transient error in a listener")
    ls = [L(i) for i in range(3)]
    for l_ in ls:
        prod.add_listener(T, l_)

    def fire(v):
        if case["timed"]:
            return _guard(lambda: prod.fire_timed(2.5, T, v))
        return _guard(lambda: prod.fire(T, v))
    e1 = fire(1)
    if e1 is None:
        out.label("listener-error-did-not-reach-the-firing-code")      # (not judged: the property is silent on it)
    state["raise"] = False
    del got[:]
    e2 = fire(2)
    if e2 is not None:
        out.fail("delivery:raises", repr(e2))
    elif got != [0, 1, 2]:
        out.fail("delivery:missing" if len(got) < 3 else "delivery:order",
                 {"after": "a listener raised during the previous event", "got": got, "want": [0, 1, 2]})
    out.nontrivial = True
    out.label("kind=raising-listener")


def _run_payload_reuse(case, out):
    pubsub, types, _m = _env()
    T = types[3]                                   # metadata {"a": int, "b": str}
    got = []

    class L(pubsub.EventListener):
        def notify(self, event):
            got.append(dict(event.content) if isinstance(event.content, dict) else event.content)

    p1 = pubsub.EventProducer()
    p2 = pubsub.EventProducer() if case["other_producer"] else p1
    lis = L()
    p1.add_listener(T, lis)
    if p2 is not p1:
        p2.add_listener(T, lis)

    def fire(p, payload, **kw):
        if case["timed"]:
            return _guard(lambda: p.fire_timed(1.5, T, payload, **kw))
        return _guard(lambda: p.fire(T, payload, **kw))
    d = {"a": 1, "b": "x"}
    if case["first"] == "checked":
        e1 = fire(p1, d)
        if e1 is not None or got != [{"a": 1, "b": "x"}]:
            out.fail("event:refused:conforming", {"error": repr(e1), "delivered": got})
            return
        if case["mutation"] == "wrong-type":
            d["a"] = "one"
        elif case["mutation"] == "extra-key":
            d["c"] = 3
        elif case["mutation"] == "missing-key":
            del d["b"]
    else:
        d = {"a": "one", "b": 2} if case["mutation"] != "none" else d
        e1 = fire(p1, d, check=False)
        if e1 is not None:
            out.fail("event:refused:check-off", {"error": repr(e1)})
            return
    n0 = len(got)
    e2 = fire(p2, d)                                 # the very same object again, checking on
    conforming = case["mutation"] == "none"
    if conforming:
        if e2 is not None or len(got) != n0 + 1:
            out.fail("event:refused:conforming", {"error": repr(e2), "second_fire": True})
    else:
        if e2 is None:
            out.fail("event:accepted:same-payload-object-fired-again", {"payload_now": repr(d), "delivered": got[n0:]})
        elif not isinstance(e2, pubsub.EventError):
            out.fail("event:wrong-exception:" + type(e2).__name__, repr(e2))
        elif len(got) != n0:
            out.fail("delivery:extra", {"note": "a refused event was delivered", "delivered": got[n0:]})
    out.nontrivial = True
    out.label("kind=payload-reuse")


def _run_sim_listeners(case, out):
    """An ordinary listener subscribed to a long-lived producer stays subscribed (and is notified exactly once per
    fire, in subscription order relative to other ordinary listeners) however often the simulator - whose
    statistics listen to the same producer and event type - is initialised again."""
    from pydsol.core import statistics as S
    from pydsol.core.experiment import SingleReplication
    from pydsol.core.interfaces import StatEvents
    from pydsol.core.model import DSOLModel
    from pydsol.core.pubsub import EventListener, EventProducer
    from pydsol.core.simulator import DEVSSimulatorFloat
    et = StatEvents.TIMESTAMP_DATA_EVENT if case["stat"] == "SimPersistent" else StatEvents.DATA_EVENT
    prod = EventProducer()
    got = []

    class L(EventListener):
        def __init__(self, name):
            self.name = name

        def notify(self, event):
            got.append((self.name, event.content))

    la, lb = L("a"), L("b")
    sim = DEVSSimulatorFloat("c08-sim")
    stats = []
    types2 = [_env()[1][0]]                          # a plain event type without metadata

    class M(DSOLModel):
        def construct_model(self):
            st_ = getattr(S, case["stat"])("k", "stat", self.simulator)
            st_.listen_to(prod, et)
            st_.listen_to(prod, types2[0])          # a second event type of the same producer
            self.stat = st_
            stats.append(st_)

    def fire(v):
        if et is StatEvents.TIMESTAMP_DATA_EVENT:
            prod.fire_timed(float(v), et, float(v))
        else:
            prod.fire(et, v if case["stat"] == "SimCounter" else float(v))
    try:
        model = M(sim)
        if case["user_first"]:
            prod.add_listener(et, la)
        sim.initialize(model, SingleReplication("r", 0.0, 0.0, 10.0))
        if not case["user_first"]:
            prod.add_listener(et, la)
        prod.add_listener(et, lb)
        fire(1)
        for i in range(case["reinits"]):
            sim.initialize(model, SingleReplication("r", 0.0, 0.0, 10.0))
            fire(2 + i)
        want = []
        for v in range(1, 2 + case["reinits"]):
            v = v if case["stat"] == "SimCounter" else float(v)
            want += [("a", v), ("b", v)]
        if got != want:
            missing = [w for w in want if w not in got]
            out.fail("delivery:missing" if missing else "delivery:order",
                     {"scenario": "ordinary listeners next to a simulation statistic across initialize()",
                      "got": got, "want": want})
        # the second event type: only the statistic of the current replication may still be listening
        n_old = [s_.n() for s_ in stats[:-1]]
        try:
            if et is not StatEvents.TIMESTAMP_DATA_EVENT:
                prod.fire(types2[0], 1 if case["stat"] == "SimCounter" else 1.0)
        except Exception as e:
            out.fail("delivery:wrong-recipients", {"note": "a statistic of an earlier replication is still "
                                                           "subscribed and fails", "error": repr(e)})
        if [s_.n() for s_ in stats[:-1]] != n_old:
            out.fail("delivery:wrong-recipients", {"note": "a statistic of an earlier replication still receives "
                                                           "the second event type"})
        if case["stat"] != "SimPersistent" and model.stat.n() != 2:     # (a persistent counts intervals)
            out.fail("delivery:wrong-recipients", {"statistic_n": model.stat.n(), "want": 2,
                                                   "note": "only the statistic of the current replication listens"})
    except Exception as e:
        out.fail("sim-listeners-raises:" + type(e).__name__, repr(e))
    finally:
        try:
            sim.cleanup()
        except Exception:
            pass
    out.nontrivial = True
    out.label("kind=sim-listeners")


def run_case(case):
    out = Outcome()
    if case.get("kind") == "sim-listeners":
        _run_sim_listeners(case, out)
        return out
    if case.get("kind") == "raising-listener":
        _run_raising_listener(case, out)
        return out
    if case.get("kind") == "event-refired":
        _run_event_refired(case, out)
        return out
    if case.get("kind") == "self-listener":
        _run_self_listener(case, out)
        return out
    if case.get("kind") == "equal-listeners":
        _run_equal_listeners(case, out)
        return out
    if case.get("kind") == "payload-reuse":
        _run_payload_reuse(case, out)
        return out
    return _run_case_history(case, out)


def _run_case_history(case, out):
    pubsub, types, mtypes = _env()
    scripts = case["scripts"]
    real, model = _Real(scripts), _Model(scripts)
    nops = 0

    for opi, op in enumerate(case["ops"]):
        real.begin()
        model.begin()
        real.cur_event = None
        k = op[0]
        nops += 1
        exc = None
        if k == "add":
            l, t = op[1] % NL, op[2] % NT
            exc = _guard(real.add, l, t)
            model.add(l, t)
        elif k == "rem":
            l, t = op[1] % NL, op[2] % NT
            exc = _guard(real.rem, l, t)
            model.rem(l, t)
        elif k == "rall":
            form, l, t, style = op[1] % 4, op[2] % NL, op[3] % NT, op[4] % 2
            exc = _guard(real.rall, form, l, t, style)
            model.rall(form, l, t, style)
        elif k == "has":
            pass                                    # has_listeners is compared after every op
        elif k in ("fire", "firet"):
            t = op[1] % NT
            if k == "fire":
                args = (t, op[2], op[3], None, False)
            else:
                args = (t, op[3], op[4], op[2], True)
                out.label("ts:" + _ts_kind(_hist_ts(op[2])))
            res = []
            exc = _guard(lambda: res.append(real.fire(*args)))
            m = model.fire(*args)
            v, shape = _verdict(TYPE_SPECS[t], _dec(args[1]), args[2] != 0)
            if t == 3:
                out.label("fire-payload:" + shape)
            if exc is None and res[0] != m:
                if m == "ok":
                    out.fail("event:refused:" + shape, {"op": opi, "opv": op})
                else:
                    out.fail("event:accepted:" + (shape if v == "refuse" else "timestamp-non-number"),
                             {"op": opi, "opv": op})
        elif k == "fire_event":
            exc = _op_fire_event(out, real, model, opi, op)
        elif k == "bad":
            _op_bad(out, real, opi, op)
        elif k == "event":
            _op_event(out, pubsub, mtypes, opi, op)
        else:
            raise ValueError("unknown op %r" % (op,))
        if exc is not None:
            out.fail("unexpected-exception:%s:%s" % (k, type(exc).__name__),
                     {"op": opi, "opv": op, "exc": str(exc)})

        # ---- observers after every op; the first symptom is reported, the rest would be its echo
        if out.disc:
            break
        if real.log != model.log:
            out.fail("delivery:" + _classify(model.log, real.log),
                     {"op": opi, "opv": op, "want": model.log[:12], "got": real.log[:12],
                      "want_len": len(model.log), "got_len": len(real.log)})
            break
        try:
            # quiet probe: who is subscribed to each type, in which order
            real.quiet = True
            for t in range(NT):
                real.probe = []
                content = {"a": 0, "b": ""} if t == 3 else None
                real.prod.fire(types[t], content)
                if real.probe != model.subs[t]:
                    out.fail("subscribers:" + _classify_seq(model.subs[t], real.probe),
                             {"op": opi, "opv": op, "type": t, "got": real.probe, "want": model.subs[t]})
                    break
            real.quiet = False
            h = real.has()
            if not out.disc and bool(h) != model.has():
                out.fail("has_listeners", {"op": opi, "opv": op, "got": repr(h), "want": model.has(),
                                           "model": model.subs})
        except Exception as e:
            real.quiet = False
            out.fail("unexpected-exception:observer:%s" % type(e).__name__, {"op": opi, "opv": op, "exc": str(e)})
        if out.disc:
            break

    out.labels |= model.labels
    if model.inflight:
        out.label("inflight-change")
    if model.nested:
        out.label("nested-fire", "nested-depth=%d" % model.nested)
    out.nontrivial = bool(model.inflight or model.nested)
    out.info = {"ops": nops, "nested_depth": model.nested, "inflight_change": model.inflight}
    return out


def _op_fire_event(out, real, model, opi, op):
    ps = real.ps
    t, content_enc, timed, ts_enc, via = op[1] % NT, op[2], bool(op[3]), op[4], op[5] % 2
    content = _dec(content_enc)
    ts = _hist_ts(ts_enc)
    v, shape = _verdict(TYPE_SPECS[t], content, True)
    if timed and _ts_kind(ts) != "number":
        v, shape = "refuse", "timestamp-non-number"
    try:
        ev = ps.TimedEvent(ts, real.types[t], content) if timed else ps.Event(real.types[t], content)
    except ps.EventError:
        if v == "ok":
            out.fail("event:refused:" + shape, {"op": opi, "opv": op})
        return None
    except Exception as e:
        return e
    if v == "refuse":
        out.fail("event:accepted:" + shape, {"op": opi, "opv": op})
        return None
    real.cur_event = ev
    if via == 0:
        out.label("fire_event")
        exc = _guard(real.prod.fire_event, ev)
        model.deliver_all(t, _canon(content), _canon(ts) if timed else None)
        return exc
    if timed:
        out.label("fire_timed_event")
        exc = _guard(real.prod.fire_timed_event, ev)
        model.deliver_all(t, _canon(content), _canon(ts))
        return exc
    out.label("bad-arg")
    exc = _guard(real.prod.fire_timed_event, ev)
    if exc is None:
        out.fail("bad-arg:accepted:fire_timed_event(plain Event)", {"op": opi, "opv": op})
    elif not isinstance(exc, ps.EventError):
        return exc
    return None


_BAD = ["add_listener(junk,L)", "add_listener(T,junk)", "remove_listener(junk,L)", "remove_listener(T,junk)",
        "remove_all_listeners(event_type=junk)", "remove_all_listeners(listener=junk)",
        "remove_all_listeners(junk,L)", "fire_event(junk)", "fire_timed_event(junk)", "fire(junk,c)",
        "fire_timed(ts,junk,c)"]


def _op_bad(out, real, opi, op):
    ps, p = real.ps, real.prod
    variant = op[1] % len(_BAD)
    j = _junk(real, op[2])
    T, Lr = real.types[op[2] % NT], real.listeners[op[2] % NL]
    if j is None and variant in (4, 5):
        j = 0                      # None is a legal "absent" argument of remove_all_listeners
    if j is None and variant == 6:
        j = "junk"
    name = _BAD[variant]
    out.label("bad-arg")
    try:
        if variant == 0:
            p.add_listener(j, Lr)
        elif variant == 1:
            p.add_listener(T, j)
        elif variant == 2:
            p.remove_listener(j, Lr)
        elif variant == 3:
            p.remove_listener(T, j)
        elif variant == 4:
            p.remove_all_listeners(event_type=j)
        elif variant == 5:
            p.remove_all_listeners(listener=j)
        elif variant == 6:
            p.remove_all_listeners(j, Lr)
        elif variant == 7:
            p.fire_event(j)
        elif variant == 8:
            p.fire_timed_event(j)
        elif variant == 9:
            p.fire(j, None)
        else:
            p.fire_timed(1.0, j, None)
    except ps.EventError:
        return
    except Exception as e:
        out.fail("bad-arg:wrong-exception:%s:%s" % (name, type(e).__name__),
                 {"op": opi, "opv": op, "junk": repr(j), "exc": str(e)})
        return
    out.fail("bad-arg:accepted:" + name, {"op": opi, "opv": op, "junk": repr(j)})


def _op_event(out, ps, mtypes, opi, op):
    m, content_enc, check, timed, ts_enc = op[1] % len(META_SPECS), op[2], op[3] % 3, bool(op[4]), op[5]
    content = _dec(content_enc)
    ts = _dec(ts_enc)
    v, shape = _verdict(META_SPECS[m], content, check != 0)
    out.label("payload:" + shape)
    tk = None
    if timed:
        tk = _ts_kind(ts)
        out.label("ts:" + tk)
        if tk == "non-number":
            v = "refuse"
        elif tk == "bool" and v == "ok":
            v = "either"
    out.label("verdict:" + v)
    ET = mtypes[m]
    kw = {} if check == 2 else {"check": bool(check)}
    detail = {"op": opi, "opv": op, "metadata": META_SPECS[m]}
    try:
        ev = ps.TimedEvent(ts, ET, content, **kw) if timed else ps.Event(ET, content, **kw)
    except ps.EventError:
        if v == "ok":
            out.fail("event:refused:" + shape, detail)
        return
    except Exception as e:
        out.fail("event:wrong-exception:%s" % type(e).__name__, dict(detail, exc=str(e)))
        return
    if v == "refuse":
        why = "timestamp-non-number" if tk == "non-number" else shape
        out.fail("event:accepted:" + why, detail)
        return
    if ev.event_type is not ET or ev.content is not content or _canon(ev.content) != _canon(_dec(content_enc)):
        out.fail("event:attributes", detail)
    if timed:
        got = ev.timestamp
        if _canon(got) != _canon(ts):
            out.fail("timed-event:timestamp", dict(detail, got=repr(got), want=repr(ts)))


# ---------------------------------------------------------------- strategy
def _fl(x):
    return {"$f": float(x).hex()}


def _weighted(pairs):
    """one_of with integer weights (one_of itself drops repeated strategies)."""
    idx = [i for i, (w, _) in enumerate(pairs) for _ in range(w)]
    strats = [s for _, s in pairs]

    @st.composite
    def pick(draw):
        return draw(strats[draw(st.sampled_from(idx))])
    return pick()


_INT = st.one_of(st.integers(-3, 3), st.sampled_from([0, 1, 2 ** 70, -1]))
_STR = st.text(alphabet="ab", max_size=2)
_FLT = st.one_of(st.sampled_from([0.0, -0.0, 1.5, float("inf"), float("nan"), 1e300]),
                 st.floats(allow_nan=False)).map(_fl)
_SCALAR = st.one_of(st.none(), st.booleans(), _INT, _STR, _FLT)
_VALUE = {
    "int": _weighted([(4, _INT), (1, st.booleans())]),
    "str": _STR,
    "float": _FLT,
    "list": st.lists(_INT, max_size=2),
    "dict": st.dictionaries(st.sampled_from(["k", "a"]), _INT, max_size=2),
    "object": st.one_of(_SCALAR, st.lists(_INT, max_size=1)),
    "none": st.none(),
    "bool": st.booleans(),
}
_WRONG = {
    "int": st.one_of(_STR, _FLT, st.none(), st.just([1])),
    "str": st.one_of(_INT, st.none(), st.just(["a"])),
    "float": st.one_of(_INT, _STR, st.none()),
    "list": st.one_of(st.just({}), _STR, st.none(), _INT),
    "dict": st.one_of(st.just([]), _STR, st.none()),
    "object": st.none(),
    "none": st.one_of(_INT, st.just("")),
    "bool": st.one_of(st.sampled_from([0, 1]), _STR, st.none()),
}
_NONDICT = st.one_of(_SCALAR, st.lists(_SCALAR, max_size=2),
                     st.just([["a", 1], ["b", "x"]]), st.just(["a", "b"]))


@st.composite
def _payload_for(draw, spec, ok=3):
    """A payload aimed at the metadata declaration `spec` (dict name -> type name)."""
    shape = draw(st.sampled_from(["ok"] * ok + ["missing", "extra", "renamed", "wrong", "none", "nondict", "swap"]))
    if shape == "nondict":
        return draw(_NONDICT)
    d = {k: draw(_VALUE[tn]) for k, tn in spec.items()}
    keys = sorted(spec)
    if shape == "extra":
        d[draw(st.sampled_from(["zz", "", "A"]))] = draw(_SCALAR)
    elif keys:
        k = keys[draw(st.integers(0, len(keys) - 1))]
        if shape == "missing":
            del d[k]
        elif shape == "renamed":
            d[k + "_"] = d.pop(k)
        elif shape == "wrong":
            d[k] = draw(_WRONG[spec[k]])
        elif shape == "none":
            d[k] = None
        elif shape == "swap" and len(keys) > 1:
            k2 = keys[(keys.index(k) + 1) % len(keys)]
            d[k], d[k2] = d[k2], d[k]
    return d


def strategy(tier):
    maxops = 40 if tier == "quick" else 80
    lis = st.integers(0, NL - 1)
    typ = st.sampled_from([0, 0, 0, 0, 1, 2, 3, 3])
    check = st.sampled_from([1, 1, 2, 2, 0])
    style = st.integers(0, 1)
    form = st.sampled_from([1, 2, 3, 1, 2, 3, 0])
    # payload of a history fire: mostly fine for the metadata type as well
    t3 = _payload_for(T3_SPEC, ok=14)
    content = _weighted([(6, t3), (2, _SCALAR), (1, st.lists(_INT, max_size=2))])
    ts_ok = st.one_of(st.integers(-5, 50), _FLT, st.sampled_from([0, 2 ** 80]))
    ts_bad = st.one_of(st.just("1.0"), st.none(), st.just([1]), st.just({"t": 1}), st.just(""))
    ts_hist = _weighted([(5, ts_ok), (1, ts_bad)])
    ts_any = _weighted([(4, ts_ok), (2, ts_bad), (1, st.booleans())])

    who = st.sampled_from([-1, -1, -1, 0, 1, 2, 3, 4])
    toff = st.sampled_from([0, 0, 0, 0, 0, 1, 2, 3])
    foff = st.sampled_from([1, 1, 2, 3, 0])
    act = _weighted([
        (4, st.tuples(st.just("add"), who, toff)),
        (4, st.tuples(st.just("rem"), who, toff)),
        (2, st.tuples(st.just("rall"), form, who, toff, style)),
        (5, st.tuples(st.just("fire"), foff, content, check)),
        (2, st.tuples(st.just("firet"), foff, ts_hist, content, check)),
        (1, st.just(("has",))),
    ]).map(list)

    @st.composite
    def script(draw):
        n = draw(st.sampled_from([0, 1, 1, 2, 3]))
        return {"on": draw(st.sampled_from([-1, -1, -1, -1, 0, 3])),
                "limit": draw(st.sampled_from([0, 0, 0, 1, 2])),
                "acts": draw(st.lists(act, min_size=n, max_size=3))}

    @st.composite
    def event_op(draw):
        m = draw(st.integers(0, len(META_SPECS) - 1))
        spec = META_SPECS[m]
        c = draw(_payload_for(spec)) if spec is not None else draw(st.one_of(_SCALAR, t3))
        timed = draw(st.sampled_from([0, 0, 1]))
        return ["event", m, c, draw(check), timed, draw(ts_any) if timed else 0]

    weighted = [
        (22, st.tuples(st.just("add"), lis, typ)),
        (6, st.tuples(st.just("rem"), lis, typ)),
        (4, st.tuples(st.just("rall"), form, lis, typ, style)),
        (30, st.tuples(st.just("fire"), typ, content, check)),
        (9, st.tuples(st.just("firet"), typ, ts_hist, content, check)),
        (6, st.tuples(st.just("fire_event"), typ, content, st.integers(0, 1), ts_hist, st.integers(0, 1))),
        (1, st.just(("has",))),
        (4, st.tuples(st.just("bad"), st.integers(0, len(_BAD) - 1), st.integers(0, 19))),
        (10, event_op()),
    ]
    op = _weighted(weighted).map(list)

    @st.composite
    def case(draw):
        scripts = [draw(script()) for _ in range(NL)]
        warm = draw(st.lists(st.tuples(st.just("add"), lis, typ).map(list),
                             min_size=draw(st.sampled_from([0, 2, 4, 6])), max_size=12))
        ops = draw(st.lists(op, min_size=draw(st.sampled_from([1, 8, 16])), max_size=maxops))
        return {"scripts": scripts, "ops": warm + ops}

    return case()


RULE = RULE + " " + 'Later additions (enumerated): listeners that raise once; one payload object fired repeatedly; a producer that listens to itself; two distinct listener objects that compare equal - all histories of length 4 (quick) / 5 (thorough) over add / remove / remove_all, the producer must treat them consistently as one subscriber or as two.'
