"""C04 - simulator lifecycle: commands, states and notifications follow the protocol.

(A) command sequences at quiescence: bounded-exhaustive + Hypothesis, against a protocol model written
    from the docstrings of SimulatorInterface / RunState / ReplicationState and a notification grammar.
(B) overlaps of a command with the run thread's own transitions: see props/c04b (parent_checks).
"""
import itertools

from hypothesis import strategies as st

from vlib.runner import Outcome, Inconclusive
from vlib.simharness import Harness, RefSim, Recorder, enc_obs, enc_ref

ID = "C04"
fx = lambda x: float(x).hex()  # noqa: E731

# the fixed model: events at 1, 4, 7 inside the horizon, 12 beyond it; warm-up at 2.5; end at 10
PROGS = [
    {"clock": "float", "cap": 50, "rep": {"start": fx(0.0), "warmup": fx(2.5), "length": fx(10.0)},
     "root": [["rel", fx(1.0), 0, 5]],
     "nodes": [[["rel", fx(3.0), 1, 5]], [["rel", fx(3.0), 2, 5]], [["rel", fx(5.0), 3, 5]], []]},
    # variant: two events at exactly the end time, ties, warm-up at the start, int clock
    {"clock": "int", "cap": 50, "rep": {"start": 0, "warmup": 0, "length": 10},
     "root": [["rel", 4, 0, 5], ["rel", 4, 1, 7], ["rel", 10, 2, 5], ["rel", 10, 3, 1]],
     "nodes": [[["rel", 4, 1, 5]], [], [["now", 3, 5]], [["rel", 1, 1, 5]]]},
    # variant: replication that does not start at time zero (end time != run length)
    # (its second handler also asks for an event a hair before the clock: refused, the time never runs backwards)
    {"clock": "float", "cap": 50, "rep": {"start": fx(100.0), "warmup": fx(2.5), "length": fx(10.0)},
     "root": [["rel", fx(1.0), 0, 5]],
     "nodes": [[["rel", fx(3.0), 1, 5]], [["rel", fx(3.0), 2, 5], ["ev_off", fx(-1e-10), 3, 5]],
               [["rel", fx(5.0), 3, 5]], []]},
]
# the third bound lies beyond the end, the fourth is the start time (0.0 / 0: also falsy values)
# the fifth is exactly the replication end (an exclusive run up to it leaves the events of the end instant pending)
BOUNDS = [[fx(4.0), fx(8.5), fx(15.0), fx(0.0), fx(10.0)], [4, 9, 14, 0, 10],
          [fx(104.0), fx(108.5), fx(130.0), fx(100.0), fx(110.0)]]
ALPHABET = ["init", "start", "step", "stop", "rut0", "rut1", "ruti0", "ruti1", "endrep", "cleanup", "rut2",
            "badinit", "ruti3", "rut4"]

RULE = ("(A) ALL command sequences over the 14-letter alphabet {initialize, initialize without a model, start, step, stop, run_up_to(t1|t2|t3 beyond the end|the end itself), run_up_to_including(start time), "
        "run_up_to_including(t1|t2), end_replication, cleanup} up to length 4 (quick) / 6 (thorough) on the float model and 3 / 5 on the int model plus Hypothesis "
        "sequences of length <= 10, on three fixed models (a float-clock replication that starts at 100; float clock: events at 1,4,7 and 12 beyond the end 10, warm-up "
        "2.5; int clock: ties and two events at exactly the end); after each command the harness waits for structural "
        "quiescence. Oracle: protocol model from the docstrings (accepted/refused with DSOLError, resulting run and "
        "replication state, clock, number of pending events) + notification grammar (START_REPLICATION at most once "
        "and first, START/STOP alternating, TIME_CHANGED exactly when the time changes and immediately before the "
        "event it announces, non-decreasing, WARMUP once at the warm-up time, END_REPLICATION once and last, then "
        "ENDED, start/step/stop refused, run thread gone); a refused command changes nothing and notifies nobody. "
        "(B) enumerated rendezvous schedules (run-thread hold point x command x commander hold point), oracle: "
        "consistent quiescent end state, grammar, no limbo, completing start() reproduces the reference trace. "
        "Non-trivial (A) = >=1 accepted and >=1 refused command after the first initialize; (B) every schedule.")
ASSUMPTIONS = [
    "end_replication() is only issued where its only caller (the simulator) could be: initialised and not ended",
    "STARTING/STOPPING notifications of accepted commands are not part of the property and are ignored",
    "the timestamp of END_REPLICATION after a user-issued end_replication() races with the clock write and is not asserted",
    "interleavings are explored only at notification/handler rendezvous points (see DESIGN.md section 7), plus one "
    "white-box rendezvous in the harness (read of the replication state by the run thread after it wrote STOPPED)",
    "cleanup() issued from a listener of a command that is still in progress is outside its documented use and not generated",
]
NONTRIVIAL_FLOOR = 0.15
EXHAUSTIVE_NOTE = "all command sequences up to length 4 (quick) / 6 (thorough) on the float model and 3 / 5 on the int model over the 14-letter alphabet, all three models"


def budget(tier):
    if tier == "quick":
        return {"examples": 3000, "shards": 16}
    return {"examples": 200000, "shards": 16}


def strategy(tier):
    body = st.lists(st.sampled_from(ALPHABET), min_size=1, max_size=10 if tier == "quick" else 18)
    cmds = st.one_of(body, body.map(lambda b: ["init"] + b), body.map(lambda b: ["init"] + b))
    return st.fixed_dictionaries({"variant": st.integers(0, 2), "cmds": cmds})


def enumerate_cases(tier):
    maxlen = 4 if tier == "quick" else 6
    out = []
    for variant in (0, 1, 2):
        for n in range(1, maxlen + 1):
            if variant >= 1 and n > (3 if tier == "quick" else 5):
                continue
            for seq in itertools.product(ALPHABET, repeat=n):
                out.append({"variant": variant, "cmds": list(seq)})
    return out


# ------------------------------------------------------------------ protocol model
class Proto:
    """expected behaviour, written from the docstrings (not from the code paths)"""

    def __init__(self, prog):
        self.prog = prog
        self.rs = "NOT_INITIALIZED"
        self.ps = "NOT_INITIALIZED"
        self.ref = None
        self.has_rep = False
        self.clock = 0.0 if prog["clock"] == "float" else 0

    def pending(self):
        return len(self.ref.pending) if self.ref is not None and self.rs != "NOT_INITIALIZED" else None

    def _runnable(self):
        """common precondition of start / step / bounded runs"""
        if not self.has_rep or self.rs == "NOT_INITIALIZED":
            return False
        if self.ps not in ("INITIALIZED", "STARTED"):
            return False
        if self.ref.clock > self.ref.end:
            return False
        return True

    def apply(self, cmd, bound=None):
        """returns (accepted, expected notification skeleton)"""
        notes = []
        if cmd == "init":
            self.ref = RefSim(self.prog)
            self.ref.initialize()
            self.rs, self.ps, self.has_rep = "INITIALIZED", "INITIALIZED", True
            self.clock = self.ref.clock
            return True, notes
        if cmd == "cleanup":
            self.rs, self.ps = "NOT_INITIALIZED", "NOT_INITIALIZED"
            return True, notes
        if cmd == "badinit":
            return False, notes                     # initialize without a model: refused, whatever the state
        if cmd == "stop":
            return False, notes                     # never running at quiescence
        if cmd == "endrep":
            self.ps = "ENDED"
            self.rs = "ENDED"
            self.ref.clock = max(self.ref.clock, self.ref.end)
            self.ref.pending = []
            self.ref.ended = True
            self.clock = self.ref.clock
            return True, ["END_REPLICATION"]
        if cmd in ("start", "rut", "ruti", "step"):
            if not self._runnable():
                return False, notes
            if cmd in ("rut", "ruti") and bound < self.ref.clock:
                return False, notes
            if self.ps == "INITIALIZED":
                notes.append("START_REPLICATION")
                self.ps = "STARTED"
            notes.append("START")
            n0 = len(self.ref.trace)
            c0 = self.ref.clock
            if cmd == "step":
                self.ref.step()
            elif cmd == "start":
                self.ref.run()
            else:
                self.ref.run(bound, cmd == "ruti")
            cur = c0
            for e in self.ref.trace[n0:]:
                t = e[2]
                tv = float.fromhex(t) if isinstance(t, str) else t
                if tv != cur or cmd == "step":
                    notes.append(("TIME_CHANGED", t, tv != cur))      # third field: mandatory?
                cur = tv
                notes.append(("WARMUP", t) if e[0] == "W" else ("EXEC", t))
            notes.append("STOP")
            if self.ref.ended:
                notes.append("END_REPLICATION")
                self.rs, self.ps = "ENDED", "ENDED"
            else:
                self.rs = "STOPPED"
            self.clock = self.ref.clock
            return True, notes
        raise ValueError(cmd)


def _match_notes(out, got, want, ctx):
    """got: recorder entries [name, ts, content] (+EXEC markers); want: skeleton from Proto.apply"""
    g = [e for e in got if e[0] not in ("STARTING", "STOPPING")]
    i = 0
    for w in want:
        name = w if isinstance(w, str) else w[0]
        if name == "TIME_CHANGED" and not w[2]:
            # optional (time did not change): accept zero or one
            if i < len(g) and g[i][0] == "TIME_CHANGED" and g[i][1] == w[1]:
                i += 1
            continue
        if i >= len(g):
            out.fail("notification-missing-" + name, dict(ctx, want=_sk(want), got=_sk2(g)))
            return
        e = g[i]
        if e[0] != name:
            out.fail("notification-order", dict(ctx, at=i, want=_sk(want), got=_sk2(g)))
            return
        if not isinstance(w, str):
            if e[1] != w[1]:
                out.fail("notification-time-" + name, dict(ctx, at=i, want=w[1], got=e[1]))
                return
            if name == "TIME_CHANGED" and e[2] != w[1]:
                out.fail("time-changed-payload", dict(ctx, at=i, want=w[1], got=e[2]))
                return
        i += 1
    if i < len(g):
        out.fail("notification-extra-" + g[i][0], dict(ctx, want=_sk(want), got=_sk2(g)))


def _sk(want):
    return [w if isinstance(w, str) else list(w) for w in want][:14]


def _sk2(g):
    return [[e[0], e[1]] for e in g][:14]


def snapshot(h):
    sim = h.sim
    el = sim.eventlist()
    first = el.peek_first()
    return (sim.run_state.name, sim.replication_state.name, enc_obs(sim.simulator_time),
            el.size(), None if first is None else first.id)


def run_case(case):
    from pydsol.core.utils import DSOLError
    out = Outcome()
    prog = PROGS[case["variant"]]
    bounds = BOUNDS[case["variant"]]
    out.label("variant=%d" % case["variant"], "len=%d" % len(case["cmds"]))
    h = Harness(prog)
    proto = Proto(prog)
    h.rec.subscribe(h.sim)
    model = h.model
    rec = h.rec
    model.on_exec = lambda m, seq, node: rec.log.append(["EXEC", enc_obs(m.simulator.simulator_time), seq])
    accepted_after_init = refused_after_init = 0
    seen_init = False
    # initialize() and cleanup() remove every listener.  In half of the cases the recorder does NOT subscribe again
    # to one notification type (chosen by a hash of the sequence) after such a removal: it must then never be
    # notified of that type again, although it was a listener of it before.
    import zlib
    hsh = zlib.crc32(repr((case["variant"], case["cmds"])).encode())
    ghost = sorted(["START", "STOP", "TIME_CHANGED", "START_REPLICATION", "END_REPLICATION", "WARMUP",
                    "STARTING", "STOPPING"])[(hsh >> 1) % 8] if hsh & 1 else None
    removals = 0
    try:
        for ci, cmd in enumerate(case["cmds"]):
            bound = None
            pcmd = cmd
            if cmd.startswith("rut"):
                bound = bounds[int(cmd[-1])]
                pcmd = "ruti" if cmd.startswith("ruti") else "rut"
            if cmd == "endrep" and not (proto.rs in ("INITIALIZED", "STOPPED")):
                out.label("endrep-skipped")
                continue                          # outside documented use (see ASSUMPTIONS)
            before = snapshot(h)
            n0 = len(rec.log)
            accepted, want_notes = proto.apply(pcmd, None if bound is None else
                                               (float.fromhex(bound) if isinstance(bound, str) else bound))
            err = None
            if cmd in ("init", "cleanup") and accepted and ghost:
                removals += 1
                if removals >= (2 if case["cmds"][0] == "init" else 1) and seen_init:
                    rec.skip = {ghost}          # from now on nobody listens to this type
            try:
                if cmd == "init":
                    # (in a quarter of the sequences every later initialize gets the very same replication object)
                    h.initialize(same_object=(hsh >> 5) % 4 == 0)
                    model.on_exec = lambda m, seq, node: rec.log.append(
                        ["EXEC", enc_obs(m.simulator.simulator_time), seq])
                    rec.hooks.pop("WARMUP", None)
                elif cmd == "badinit":
                    # a rejected argument: no model at all, or (by the hash of the sequence) a model object whose
                    # constructor never ran the base class constructor
                    bad_model = None
                    if (hsh >> 7) % 2:
                        from pydsol.core.model import DSOLModel as _DM

                        class _Unfinished(_DM):
                            def __init__(self, simulator):
                                pass

                            def construct_model(self):
                                pass
                        bad_model = _Unfinished(h.sim)
                    h.sim.initialize(bad_model, h.make_replication())
                elif cmd == "cleanup":
                    h.sim.cleanup()
                    rec.subscribe(h.sim)
                elif cmd == "start":
                    h.sim.start()
                elif cmd == "step":
                    h.sim.step()
                elif cmd == "stop":
                    h.sim.stop()
                elif cmd == "endrep":
                    h.sim.end_replication()
                elif pcmd == "rut":
                    h.sim.run_up_to(float.fromhex(bound) if isinstance(bound, str) else bound)
                else:
                    h.sim.run_up_to_including(float.fromhex(bound) if isinstance(bound, str) else bound)
            except Exception as e:
                err = e
            st_ = h.settle(allow_limbo=True)
            ctx = {"i": ci, "cmd": cmd, "prefix": case["cmds"][:ci]}
            if st_ != "quiet":
                out.fail("limbo-after-" + cmd, dict(ctx, status=st_))
                break
            notes = rec.log[n0:]
            if rec.skip:
                out.label("listener-not-resubscribed")
                if any(e[0] in rec.skip for e in notes):
                    out.fail("notified-after-listeners-were-removed:" + ghost, dict(ctx, got=_sk2(notes)))
                    break
                want_notes = [w for w in want_notes if (w if isinstance(w, str) else w[0]) not in rec.skip]
            if err is not None and not isinstance(err, DSOLError):
                out.fail("raised-%s-%s" % (type(err).__name__, cmd), dict(ctx, err=repr(err)))
                break
            if accepted and err is not None:
                out.fail("refused-but-protocol-accepts-" + cmd, dict(ctx, err=repr(err), state=before[:3]))
                break
            if not accepted:
                if err is None:
                    out.fail("accepted-but-protocol-refuses-" + cmd, dict(ctx, state=before[:3]))
                    break
                after = snapshot(h)
                if after != before:
                    out.fail("refused-command-changed-state-" + cmd, dict(ctx, before=before[:4], after=after[:4]))
                if notes:
                    out.fail("refused-command-notified-" + cmd, dict(ctx, notes=_sk2(notes)))
                if seen_init:
                    refused_after_init += 1
            else:
                if cmd == "init":
                    seen_init = True
                elif seen_init:
                    accepted_after_init += 1
                sim = h.sim
                if (sim.run_state.name, sim.replication_state.name) != (proto.rs, proto.ps):
                    out.fail("state-after-" + cmd, dict(ctx, got=[sim.run_state.name, sim.replication_state.name],
                                                        want=[proto.rs, proto.ps]))
                # the reported state is one thing, whichever accessor reports it
                preds = [sim.is_initialized(), sim.is_starting_or_running(), sim.is_stopping_or_stopped()]
                if preds != [proto.rs != "NOT_INITIALIZED", False, True]:
                    out.fail("state-predicates-after-" + cmd, dict(ctx, state=proto.rs, got=preds,
                             accessors=["is_initialized", "is_starting_or_running", "is_stopping_or_stopped"]))
                if cmd != "cleanup" and enc_obs(sim.simulator_time) != enc_ref(proto.clock):
                    out.fail("clock-after-" + cmd, dict(ctx, got=enc_obs(sim.simulator_time), want=enc_ref(proto.clock)))
                # (what remains on the event list after the replication ended is not specified)
                if proto.rs not in ("NOT_INITIALIZED", "ENDED") and proto.pending() is not None and cmd != "cleanup":
                    if sim.eventlist().size() != proto.pending():
                        out.fail("pending-after-" + cmd, dict(ctx, got=sim.eventlist().size(), want=proto.pending()))
                if cmd == "endrep":
                    want_names = [x for x in ["END_REPLICATION"] if x not in rec.skip]
                    got_names = [e[0] for e in notes]
                    if got_names != want_names:
                        out.fail("notifications-endrep", dict(ctx, got=got_names))
                elif cmd in ("init", "cleanup"):
                    if notes:
                        out.fail("notifications-" + cmd, dict(ctx, got=_sk2(notes)))
                else:
                    _match_notes(out, notes, want_notes, ctx)
                if proto.rs == "ENDED":
                    if any(w.is_alive() for w in h.workers_all()):
                        out.fail("run-thread-alive-after-end", ctx)
                if cmd == "cleanup":
                    for w in h.workers_all():
                        w.join(2.0)
                        if w.is_alive():
                            out.fail("run-thread-alive-after-cleanup", ctx)
            if out.disc:
                break
    finally:
        if h.finish():
            out.fail("thread-leak", case["cmds"])
    out.nontrivial = accepted_after_init >= 1 and refused_after_init >= 1
    out.info = {"accepted": accepted_after_init, "refused": refused_after_init}
    return out


# =====================================================================================================
# (B) overlaps of a command with the run thread's own transitions - the harness owns the schedule
# =====================================================================================================
import threading
import time as _time

HOLDS = ["handler0", "handler1", "handler2", "n:START", "n:TIME_CHANGED", "n:WARMUP",
         "n:STOP-bounded", "n:STOP-end", "n:END_REPLICATION"]
OCMDS = ["stop", "start", "step", "init", "rut", "cleanup"]
CONSISTENT = {("STOPPED", "STARTED"), ("ENDED", "ENDED"), ("INITIALIZED", "INITIALIZED"),
              ("NOT_INITIALIZED", "NOT_INITIALIZED")}
WAIT_S = 4.0


def overlap_schedules(tier):
    sch = []
    for hold in HOLDS:
        for cmd in OCMDS:
            for issuer in ("helper", "run-thread"):
                sch.append({"overlap": True, "hold": hold, "cmd": cmd, "issuer": issuer, "cmd_hold": None})
    for hold in ("handler0", "handler1", "handler2", "n:TIME_CHANGED", "n:WARMUP"):
        sch.append({"overlap": True, "hold": hold, "cmd": "stop", "issuer": "helper", "cmd_hold": "STOPPING"})
    # two commands from the run thread itself: stop(), then a start-like command before the handler returns
    for hold in ("handler1", "n:TIME_CHANGED"):
        for second in ("start", "step", "rut", "init"):
            sch.append({"overlap": True, "hold": hold, "cmd": "stop+" + second, "issuer": "run-thread", "cmd_hold": None})
    for hold in ("n:STOP-bounded",):
        sch.append({"overlap": True, "hold": hold, "cmd": "start", "issuer": "helper", "cmd_hold": "STARTING"})
        sch.append({"overlap": True, "hold": hold, "cmd": "rut", "issuer": "helper", "cmd_hold": "STARTING"})
    rapid = [{"overlap": True, "rapid": 4 if tier == "quick" else 12, "starter": st_} for st_ in ("start", "rut")]
    # commands issued re-entrantly from a listener of the command's OWN notification (on the commanding thread)
    for outer, notes in (("start", ("START_REPLICATION", "STARTING")), ("rut", ("START_REPLICATION", "STARTING")),
                         ("start-after-pause", ("STARTING",)), ("step", ("START_REPLICATION", "START", "STOP")),
                         ("stop", ("STOPPING",))):
        for note in notes:
            for inner in OCMDS:
                if inner == "cleanup":
                    continue    # cleanup() from a listener of a command that is still in progress: outside its
                                # documented use ("clean up after a replication has finished"), see ASSUMPTIONS
                rapid.append({"overlap": True, "reentrant": note, "outer": outer, "cmd": inner})
    # two simulators in one process: a handler of simulator A (i.e. A's run thread) commands simulator B
    for cmd in ("stop", "cleanup", "stop+step", "stop+start"):
        rapid.append({"overlap": True, "cross": cmd, "target": "running"})
    for cmd in ("start", "step", "cleanup"):
        rapid.append({"overlap": True, "cross": cmd, "target": "paused"})
    # initialize() whose construct_model() raises, then cleanup / another initialize: no run thread is left behind
    for before in ("fresh", "initialized", "paused", "ended"):
        for after in ("cleanup", "init", "init+cleanup"):
            rapid.append({"overlap": True, "failed_init": before, "then": after})
    # a replication without an end (run length inf: "until nothing is left to do")
    for drive in ("start", "rut+start", "steps+start"):
        rapid.append({"overlap": True, "infinite_length": drive})
    # end_replication() issued by the handler of the k-th event (the run thread itself): nothing runs afterwards
    for variant in (0, 1, 2):
        for k in range(0, 7):
            for drive in ("start", "ruti"):
                rapid.append({"overlap": True, "endrep_in_handler": k, "variant": variant, "drive": drive})
    # the tail of the run thread's stop transition: after it has written STOPPED, before it parks again
    for cmd in ("start", "rut", "step"):
        rapid.append({"overlap": True, "tail": "after-STOPPED-write", "cmd": cmd})
    if tier == "quick":
        keep = []
        for s in sch:
            key = (s["hold"], s["cmd"], s["issuer"], s["cmd_hold"])
            if s["cmd"].startswith("stop+") and s["hold"] == "handler1" and s["cmd"] in ("stop+start", "stop+init"):
                keep.append(s)
                continue
            fast = (s["issuer"] == "helper" and s["cmd"] in ("start", "step", "init", "rut")
                    and s["hold"] in ("handler1", "n:TIME_CHANGED", "n:WARMUP", "n:STOP-bounded"))
            if fast or key in {("handler2", "stop", "helper", "STOPPING"), ("handler1", "stop", "helper", None),
                               ("n:STOP-bounded", "start", "helper", "STARTING"),
                               ("handler1", "start", "run-thread", None), ("handler1", "init", "run-thread", None),
                               ("n:TIME_CHANGED", "step", "run-thread", None),
                               ("n:STOP-end", "stop", "helper", None), ("n:END_REPLICATION", "start", "helper", None)}:
                keep.append(s)
        sch = keep
    return sch + rapid


def sched_id(c):
    if "failed_init" in c:
        return "failed-init/%s/%s" % (c["failed_init"], c["then"])
    if "endrep_in_handler" in c:
        return "endrep-in-handler/%d/%d/%s" % (c["variant"], c["endrep_in_handler"], c["drive"])
    if "infinite_length" in c:
        return "infinite-length/" + c["infinite_length"]
    if "cross" in c:
        return "cross/%s/%s" % (c["cross"], c["target"])
    if "rapid" in c:
        return "rapid/%s/%d" % (c["starter"], c["rapid"])
    if "reentrant" in c:
        return "reentrant/%s@%s/%s" % (c["outer"], c["reentrant"], c["cmd"])
    if "tail" in c:
        return "tail/%s/%s" % (c["tail"], c["cmd"])
    return "%s/%s/%s/%s" % (c["hold"], c["cmd"], c["issuer"], c["cmd_hold"] or "-")


_enumerate_a = enumerate_cases


def enumerate_cases(tier):  # noqa: F811  (A) + (B)
    return _enumerate_a(tier) + overlap_schedules(tier)


_run_case_a = run_case


def run_case(case):  # noqa: F811
    # A command takes effect or is refused - in either case it completes.  pydsol itself waits at most one second
    # for its run thread; when the simulator has not come to rest ten seconds after a command (and the harness holds
    # nothing back), the case is run once more on fresh objects: a hang that repeats is a failure of the protocol,
    # a hiccup of the machine does not repeat.
    last = None
    for _attempt in (0, 1):
        try:
            if case.get("overlap"):
                return run_overlap(case)
            return _run_case_a(case)
        except Inconclusive as e:
            # (every Inconclusive of this module is a wait that ran out: no quiescence, a rendezvous point that was
            # not reached because a command on the way to it did not come back)
            last = e
    out = Outcome()
    out.label("overlap" if case.get("overlap") else "len=%d" % len(case.get("cmds", [])))
    out.fail("command-never-completed:" + (sched_id(case) if case.get("overlap") else "sequence"),
             {"twice in a row": str(last)[:200], "case": case if len(str(case)) < 300 else "(long)"})
    return out


def _issue(sim, h, cmd):
    """execute one command, return None or the exception"""
    if cmd.startswith("stop+"):
        first = _issue(sim, h, "stop")
        if first is not None:
            return first
        second = _issue(sim, h, cmd[5:])
        if second is None:
            # stop() was issued from the run thread, which is therefore still running (STOPPING): a start-like
            # command or initialize must be refused until the run thread has actually stopped
            return AssertionError("accepted-while-stopping:" + cmd[5:])
        return second if not isinstance(second, Exception) or type(second).__name__ != "DSOLError" else None
    try:
        if cmd == "stop":
            sim.stop()
        elif cmd == "start":
            sim.start()
        elif cmd == "step":
            sim.step()
        elif cmd == "init":
            sim.initialize(h.model, h.make_replication())
        elif cmd == "rut":
            sim.run_up_to(8.5)
        elif cmd == "cleanup":
            sim.cleanup()
    except Exception as e:
        return e
    return None


def grammar(out, log, warm_hex, sid):
    """well-formedness of one replication's notification stream (EXEC markers interleaved)"""
    g = [e for e in log if e[0] not in ("STARTING", "STOPPING")]
    started = False
    running = False
    ended = False
    warm = 0
    last_t = None
    i = 0
    while i < len(g):
        name, ts = g[i][0], g[i][1]
        if ended:
            out.fail("grammar-after-end:" + sid, [x[:2] for x in g[max(0, i - 3):i + 2]])
            return
        if name == "START_REPLICATION":
            if started or i != 0:
                out.fail("grammar-start-replication:" + sid, i)
                return
            started = True
        elif name == "START":
            if running:
                out.fail("grammar-start-twice:" + sid, i)
                return
            running = True
        elif name == "STOP":
            if not running:
                out.fail("grammar-stop-without-start:" + sid, i)
                return
            running = False
        elif name == "TIME_CHANGED":
            nxt = g[i + 1] if i + 1 < len(g) else None
            if nxt is not None and not (nxt[0] in ("EXEC", "WARMUP") and nxt[1] == ts):
                out.fail("grammar-time-changed-not-before-its-event:" + sid, [x[:2] for x in g[i:i + 2]])
                return
        if name in ("TIME_CHANGED", "EXEC", "WARMUP"):
            if not running:
                out.fail("grammar-%s-outside-run:%s" % (name, sid), i)
                return
            tv = float.fromhex(ts) if isinstance(ts, str) else ts
            if last_t is not None and tv < last_t:
                out.fail("grammar-time-decreases:" + sid, [last_t, tv])
                return
            last_t = tv
        if name == "WARMUP":
            warm += 1
            if warm > 1 or ts != warm_hex:
                out.fail("grammar-warmup:" + sid, [warm, ts])
                return
        if name == "END_REPLICATION":
            ended = True
            if running:
                out.fail("grammar-end-while-running:" + sid, i)
                return
        i += 1


RAPID_PROG = {"clock": "float", "cap": 10 ** 9, "rep": {"start": fx(0.0), "warmup": fx(0.0), "length": fx(1e15)},
              "root": [["rel", fx(1.0), 0, 5]], "nodes": [[["rel", fx(1.0), 0, 5]]]}


def run_infinite_length(c):
    """The replication has no end (run length inf).  The run is over when nothing is left to do: every event was
    carried out, the stream ends with STOP and END_REPLICATION, the simulator is ENDED."""
    import copy
    out = Outcome()
    sid = sched_id(c)
    out.label("overlap", "infinite-length")
    out.nontrivial = True
    prog = copy.deepcopy(PROGS[0])
    prog["rep"]["length"] = fx(float("inf"))
    ref = RefSim(prog)
    ref.initialize()
    ref.run()
    h = Harness(prog)
    h.rec.subscribe(h.sim)
    h.model.on_exec = lambda m, seq, node: h.rec.log.append(["EXEC", enc_obs(m.simulator.simulator_time), seq])
    try:
        h.initialize()
        errs = []
        if c["infinite_length"] == "rut+start":
            errs.append(h.run_piece(["run_up_to", fx(5.0)]))
        elif c["infinite_length"] == "steps+start":
            errs += [h.run_piece(["step"]) for _ in range(3)]
        errs.append(h.run_piece(["start"]))
        bad = [repr(e) for e in errs if e is not None]
        if bad:
            out.fail("overlap-raised:" + sid, bad[:2])
        if h.model.trace != ref.trace:
            out.fail("overlap-trace:" + sid, {"got": h.model.trace[-3:], "want": ref.trace[-3:],
                                              "len": [len(h.model.trace), len(ref.trace)]})
        if (h.sim.run_state.name, h.sim.replication_state.name) != ("ENDED", "ENDED"):
            out.fail("overlap-state:" + sid, [h.sim.run_state.name, h.sim.replication_state.name])
        names = [e[0] for e in h.rec.log if e[0] not in ("STARTING", "STOPPING")]
        if names[-2:] != ["STOP", "END_REPLICATION"]:
            out.fail("overlap-grammar:" + sid, {"tail": names[-4:]})
        grammar(out, h.rec.log, prog["rep"]["warmup"], sid)
    finally:
        if h.finish():
            out.fail("thread-leak", sid)
    return out


def run_endrep_in_handler(c):
    """The handler of the k-th executed event ends the replication (end_replication() on the run thread).  The
    command takes effect: no further event is carried out, the stream ends with END_REPLICATION (once, last), the
    simulator is ENDED and refuses start / step."""
    from pydsol.core.utils import DSOLError
    out = Outcome()
    sid = sched_id(c)
    out.label("overlap", "endrep-in-handler")
    prog = PROGS[c["variant"]]
    ref = RefSim(prog)
    ref.initialize()
    ref.run()
    k = c["endrep_in_handler"]
    if k >= len(ref.model_trace()):
        out.label("endrep-in-handler:run-shorter")
        return out
    out.nontrivial = True
    h = Harness(prog)
    h.rec.subscribe(h.sim)
    sim = h.sim
    box = {}

    def on_exec(m, seq, node):
        if sum(1 for t in m.trace if t[0] != "W") - 1 == k:
            try:
                sim.end_replication()
            except Exception as e:                       # noqa: BLE001
                box["exc"] = e
    h.model.on_done = on_exec          # (the last thing the handler does)
    try:
        h.initialize()
        if c["drive"] == "start":
            err = h.run_piece(["start"])
        else:
            err = h.run_piece(["run_up_to_incl", BOUNDS[c["variant"]][2]])
        if err is not None or "exc" in box:
            out.fail("overlap-raised-%s:%s" % (type(err or box["exc"]).__name__, sid), repr(err or box["exc"]))
            return out
        got = [t for t in h.model.trace if t[0] != "W"]
        if len(got) != k + 1:
            out.fail("event-executed-after-end-replication:" + sid,
                     {"executed": len(got), "want": k + 1, "trace_tail": got[k:k + 4]})
        elif got != ref.model_trace()[:k + 1]:
            out.fail("overlap-trace:" + sid, {"got": got[-3:], "want": ref.model_trace()[:k + 1][-3:]})
        if sim.run_state.name != "ENDED" or sim.replication_state.name != "ENDED":
            out.fail("overlap-state:" + sid, [sim.run_state.name, sim.replication_state.name])
        names = [e[0] for e in h.rec.log]
        if names.count("END_REPLICATION") != 1 or names[-1] != "END_REPLICATION":
            out.fail("overlap-grammar:" + sid, {"tail": names[-5:], "count": names.count("END_REPLICATION")})
        for cmd in ("start", "step"):
            e_ = _issue(sim, h, cmd)
            if not isinstance(e_, DSOLError):
                out.fail("accepted-after-end:%s:%s" % (cmd, sid), repr(e_))
    finally:
        if h.finish():
            out.fail("thread-leak", sid)
    return out


def run_failed_init(c):
    """construct_model() raises in the middle of initialize().  Whatever state the simulator reports afterwards, a
    following cleanup() (the usual try/finally) or a successful initialize() leaves no run thread behind, and the
    simulator is usable: the next replication runs to its end with every event exactly once."""
    from pydsol.core.utils import DSOLError
    out = Outcome()
    sid = sched_id(c)
    out.label("overlap", "failed-initialize")
    out.nontrivial = True
    ref = RefSim(PROGS[0])
    ref.initialize()
    ref.run()
    h = Harness(PROGS[0])
    sim = h.sim
    try:
        if c["failed_init"] != "fresh":
            h.initialize()
            if c["failed_init"] == "paused":
                h.run_piece(["run_up_to", fx(5.0)])
            elif c["failed_init"] == "ended":
                h.run_piece(["start"])
        boom = {"on": True}
        prev = h.model.extra_construct

        def failing_construct(m):
            if boom["on"]:
                raise RuntimeError("construct_model fails")
            if prev is not None:
                prev(m)
        h.model.extra_construct = failing_construct
        try:
            h.initialize()
            out.fail("failed-init-not-reported:" + sid, None)
        except Exception:
            pass
        boom["on"] = False
        for step in c["then"].split("+"):
            if step == "cleanup":
                e_ = _issue(sim, h, "cleanup")
                if e_ is not None:
                    out.fail("overlap-raised-%s:%s" % (type(e_).__name__, sid), repr(e_))
                try:
                    h.settle(allow_limbo=True)
                except Inconclusive:
                    # (no quiescence: a run thread that nobody will ever wake up or end is still there)
                    out.fail("run-thread-alive-after-cleanup", {"schedule": sid, "status": h.status()})
                    break
                alive = [w for w in h.workers_all() if w.is_alive()]
                for w in alive:
                    w.join(2.0)
                if any(w.is_alive() for w in alive):
                    out.fail("run-thread-alive-after-cleanup", {"schedule": sid})
                if (sim.run_state.name, sim.replication_state.name) != ("NOT_INITIALIZED", "NOT_INITIALIZED"):
                    out.fail("overlap-inconsistent-state:" + sid, [sim.run_state.name, sim.replication_state.name])
            else:
                try:
                    h.rec = Recorder()
                    h.initialize()
                except Exception as e_:
                    out.fail("overlap-completion-refused:" + sid, "initialize after a failed initialize: " + repr(e_))
                    break
                e2 = h.run_piece(["start"])
                if e2 is not None:
                    out.fail("overlap-completion-refused:" + sid, repr(e2))
                elif (sim.run_state.name, sim.replication_state.name) != ("ENDED", "ENDED"):
                    out.fail("overlap-completion-not-ended:" + sid, [sim.run_state.name, sim.replication_state.name])
                elif [t for t in h.model.trace if t[0] != "W"] != ref.model_trace():
                    out.fail("overlap-events-lost-or-duplicated:" + sid, {"len": len(h.model.trace)})
            if out.disc:
                break
    finally:
        if h.finish():
            out.fail("overlap-thread-leak:%s" % sid, None)
    out.info = {"schedule": sid}
    return out


def run_cross(c):
    """Simulator B is commanded from an event handler of simulator A (A's run thread is the commanding thread, as in
    a master/slave or lock-step coupling of two models).  For B this is an ordinary command from another thread."""
    from pydsol.core.utils import DSOLError
    out = Outcome()
    sid = sched_id(c)
    out.label("overlap", "cross-simulator", "cmd=" + c["cross"])
    out.nontrivial = True
    ref = RefSim(PROGS[0])
    ref.initialize()
    ref.run()
    hb = Harness(RAPID_PROG)
    ha = Harness(PROGS[0])
    b = hb.sim
    box = {}
    try:
        hb.initialize()
        ha.initialize()
        if c["target"] == "running":
            b.start()
        else:
            e0 = hb.run_piece(["run_up_to", fx(5.0)])
            if e0 is not None:
                raise Inconclusive("set-up run of B failed: %r" % e0)
        n_b0 = None if c["target"] == "running" else len(hb.model.trace)

        def on_exec(m, seq, node):
            if "done" in box:
                return
            box["done"] = True
            errs = []
            for part in c["cross"].split("+"):
                try:
                    getattr(b, part)()
                    errs.append(None)
                except Exception as e:
                    errs.append(e)
                box.setdefault("states", []).append([b.run_state.name, b.replication_state.name])
                if part == "stop":
                    # an accepted stop() returns when B has stopped
                    box["quiet_after_stop"] = hb.status()
            box["errs"] = errs
        ha.model.on_exec = on_exec
        ea = ha.run_piece(["start"])
        if ea is not None:
            out.fail("cross-raised:" + sid, "A: " + repr(ea))
        if "errs" not in box:
            raise Inconclusive("handler of A did not run")
        for part, e_ in zip(c["cross"].split("+"), box["errs"]):
            if e_ is not None:
                out.fail("cross-command-refused:%s:%s" % (part, sid), {"err": repr(e_), "states": box.get("states")})
        parts = c["cross"].split("+")
        if not out.disc:
            if parts[0] == "stop":
                if box["states"][0] != ["STOPPED", "STARTED"] or box.get("quiet_after_stop") != "quiet":
                    out.fail("cross-stop-ineffective:" + sid, {"state_after_stop": box["states"][0],
                                                               "status": box.get("quiet_after_stop")})
            if parts[-1] == "start":
                # B runs again: stop it from here
                if b.run_state.name not in ("STARTING", "STARTED"):
                    out.fail("cross-start-ineffective:" + sid, b.run_state.name)
                else:
                    b.stop()
            st_ = hb.settle(allow_limbo=True)
            if st_ != "quiet":
                out.fail("overlap-limbo:" + sid, {"status": st_, "state": [b.run_state.name, b.replication_state.name]})
            pair = (b.run_state.name, b.replication_state.name)
            want = ("NOT_INITIALIZED", "NOT_INITIALIZED") if parts[-1] == "cleanup" else ("STOPPED", "STARTED")
            if pair != want and not out.disc:
                out.fail("overlap-inconsistent-state:" + sid, {"got": pair, "want": want})
            if parts[-1] in ("step", "start") and not out.disc and n_b0 is not None and \
                    not (len(hb.model.trace) > n_b0):
                out.fail("cross-command-without-effect:" + sid, [n_b0, len(hb.model.trace)])
            if not out.disc and parts[-1] != "cleanup":
                names = [e[0] for e in hb.rec.log if e[0] in ("START", "STOP")]
                if len(names) % 2 or any(n != ("START", "STOP")[i % 2] for i, n in enumerate(names)):
                    out.fail("cross-start-stop-not-alternating:" + sid, names[:12])
                # every event of B exactly once, in order
                seqs = [t[0] for t in hb.model.trace if t[0] != "W"]
                if seqs != list(range(len(seqs))):
                    out.fail("overlap-events-lost-or-duplicated:" + sid, seqs[:10])
        if [t for t in ha.model.trace if t[0] != "W"] != ref.model_trace() and not out.disc:
            out.fail("overlap-events-lost-or-duplicated:" + sid, "simulator A")
    finally:
        try:
            if b.run_state.name in ("STARTED", "STARTING"):
                b.stop()
        except Exception:
            pass
        if hb.finish() or ha.finish():
            out.fail("overlap-thread-leak:%s" % sid, None)
    out.info = {"schedule": sid}
    return out


def run_rapid(c):
    """rapid start/stop alternation within one replication: every accepted stop() must actually stop the run"""
    from pydsol.core.utils import DSOLError
    out = Outcome()
    sid = sched_id(c)
    out.label("overlap", "rapid-alternation")
    out.nontrivial = True
    h = Harness(RAPID_PROG)
    sim = h.sim
    try:
        h.initialize()
        rec = h.rec
        last_clock = None
        for i in range(c["rapid"]):
            try:
                if c["starter"] == "start":
                    sim.start()
                else:
                    sim.run_up_to(1e14)
            except DSOLError as e:
                out.fail("rapid-start-refused:" + sid, {"round": i, "err": repr(e), "state": sim.run_state.name})
                break
            err = None
            try:
                sim.stop()
            except DSOLError as e:
                err = e
            # (stop may legitimately be refused only if the run is not running any more - it cannot end here)
            if err is not None:
                out.fail("rapid-stop-refused:" + sid, {"round": i, "err": repr(err), "state": sim.run_state.name})
                break
            st_ = h.settle(timeout=5.0, allow_limbo=True) if sim.run_state.name in ("STOPPED", "STOPPING") else "busy"
            if sim.run_state.name != "STOPPED" or st_ != "quiet":
                out.fail("rapid-stop-ineffective:" + sid, {"round": i, "state": sim.run_state.name, "status": st_})
                break
            c1 = sim.simulator_time
            deadline = _time.monotonic() + 0.003
            while _time.monotonic() < deadline:
                pass
            if sim.simulator_time != c1 or sim.run_state.name != "STOPPED":
                out.fail("rapid-runs-on-after-stop:" + sid, {"round": i, "clock": [c1, sim.simulator_time]})
                break
            if last_clock is not None and c1 < last_clock:
                out.fail("rapid-clock-decreased:" + sid, [last_clock, c1])
            last_clock = c1
        if not out.disc:
            names = [e[0] for e in rec.log if e[0] in ("START", "STOP")]
            want = ["START", "STOP"] * c["rapid"]
            if names != want:
                out.fail("rapid-start-stop-not-alternating:" + sid, names[:12])
    finally:
        try:
            if sim.run_state.name in ("STARTED", "STARTING"):
                sim.stop()
        except Exception:
            pass
        if h.finish():
            out.fail("overlap-thread-leak:%s" % sid, None)
    out.info = {"schedule": sid}
    return out


def run_reentrant(c):
    """a command issued from a listener of the outer command's own notification, on the commanding thread"""
    from pydsol.core.utils import DSOLError
    out = Outcome()
    sid = sched_id(c)
    out.label("overlap", "reentrant", "cmd=" + c["cmd"])
    out.nontrivial = True
    outer = c["outer"]
    long_run = outer == "stop"
    prog = RAPID_PROG if long_run else PROGS[0]
    ref = RefSim(PROGS[0])
    ref.initialize()
    ref.run()
    full_trace = ref.model_trace()
    h = Harness(prog)
    sim = h.sim
    box = {}
    try:
        h.initialize()
        rec = h.rec
        h.model.on_exec = lambda m, seq, node: rec.log.append(["EXEC", enc_obs(m.simulator.simulator_time), seq])
        rec.hooks.pop("WARMUP", None)
        if outer == "start-after-pause":
            e0 = h.run_piece(["run_up_to", fx(5.0)])
            if e0 is not None:
                raise Inconclusive("set-up run failed: %r" % e0)
        if long_run:
            sim.start()
        main = threading.current_thread()

        def hook(entry):
            if threading.current_thread() is main and "done" not in box:
                box["done"] = True
                box["state_in_listener"] = sim.run_state.name
                box["err"] = _issue(sim, h, c["cmd"])
        rec.hooks[c["reentrant"]] = hook
        if outer in ("start", "start-after-pause"):
            oerr = _issue(sim, h, "start")
        elif outer == "rut":
            oerr = _issue(sim, h, "rut")
        elif outer == "step":
            oerr = _issue(sim, h, "step")
        else:
            oerr = _issue(sim, h, "stop")
        status = h.settle(allow_limbo=True)
        if "done" not in box:
            raise Inconclusive("notification %s not seen on the commanding thread" % c["reentrant"])
        err = box.get("err")
        out.label("result=" + ("refused" if isinstance(err, DSOLError) else "accepted" if err is None else "raised"))
        if status != "quiet":
            out.fail("overlap-limbo:" + sid, {"status": status, "state": [sim.run_state.name, sim.replication_state.name]})
            return out
        for e_, what in ((err, "inner"), (oerr, "outer")):
            if e_ is not None and not isinstance(e_, DSOLError):
                out.fail("overlap-raised-%s:%s" % (type(e_).__name__, sid), what + " " + repr(e_))
        # while a start/step/stop is in progress the simulator is starting/running: start-like commands and
        # initialize must be refused (documented: "when the simulator was already started an exception will be
        # thrown"), whatever notification the listener is handling
        if c["cmd"] in ("start", "step", "rut", "init") and err is None:
            out.fail("reentrant-command-accepted:" + sid, {"state_in_listener": box.get("state_in_listener")})
        pair = (sim.run_state.name, sim.replication_state.name)
        if pair not in CONSISTENT:
            out.fail("overlap-inconsistent-state:" + sid, pair)
            return out
        reset = err is None and c["cmd"] in ("init", "cleanup")
        if not reset and not long_run:
            grammar(out, rec.log, fx(2.5), sid)
        if out.disc or long_run:
            return out
        if pair == ("NOT_INITIALIZED", "NOT_INITIALIZED"):
            h.rec = Recorder()
            h.initialize()
            h.model.on_exec = None
        if (sim.run_state.name, sim.replication_state.name) != ("ENDED", "ENDED"):
            e2 = h.run_piece(["start"])
            if e2 is not None:
                out.fail("overlap-completion-refused:" + sid, repr(e2))
        final = [t for t in h.model.trace if t[0] != "W"]
        if (sim.run_state.name, sim.replication_state.name) != ("ENDED", "ENDED"):
            out.fail("overlap-completion-not-ended:" + sid, [sim.run_state.name, sim.replication_state.name])
        elif final != full_trace:
            out.fail("overlap-events-lost-or-duplicated:" + sid, {"got": final, "want": full_trace})
    finally:
        try:
            if sim.run_state.name in ("STARTED", "STARTING"):
                sim.stop()
        except Exception:
            pass
        if h.finish():
            out.fail("overlap-thread-leak:" + sid, None)
    out.info = {"schedule": sid}
    return out


def run_tail(c):
    """A command issued after the run thread has written STOPPED but before it parks again.  There is no
    notification in that window, so the harness creates a rendezvous: a simulator subclass whose
    `_replication_state` attribute is a property; the run thread reads it right after writing STOPPED
    (harness-only white-box hook, nothing in /repo).  If the attribute is no longer read there, the schedule is
    inconclusive, never a violation."""
    from pydsol.core.simulator import DEVSSimulatorFloat, RunState
    from pydsol.core.utils import DSOLError
    out = Outcome()
    sid = sched_id(c)
    out.label("overlap", "tail", "cmd=" + c["cmd"])
    out.nontrivial = True
    reached = threading.Event()
    release = threading.Event()
    armed = {"on": False}

    class TailSim(DEVSSimulatorFloat):
        @property
        def _replication_state(self):
            if armed["on"] and threading.current_thread().name == self.name \
                    and self.__dict__.get("_run_state") == RunState.STOPPED:
                armed["on"] = False
                reached.set()
                release.wait(WAIT_S * 2)
            return self.__dict__["_rs_value"]

        @_replication_state.setter
        def _replication_state(self, v):
            self.__dict__["_rs_value"] = v

    prog = PROGS[0]
    ref = RefSim(prog)
    ref.initialize()
    ref.run()
    full_trace = ref.model_trace()
    from vlib.simharness import _counter
    sim = TailSim("vsim-%d" % next(_counter))
    h = Harness(prog, sim=sim)
    box = {}
    try:
        h.initialize()
        rec = h.rec
        h.model.on_exec = lambda m, seq, node: rec.log.append(["EXEC", enc_obs(m.simulator.simulator_time), seq])
        rec.hooks.pop("WARMUP", None)
        armed["on"] = True
        st_th = threading.Thread(target=lambda: box.setdefault("e0", _issue(sim, h, "rut5")), name="verif-starter")

        def first_run():
            try:
                sim.run_up_to(5.0)
            except Exception as e:
                box["e0"] = e
        st_th = threading.Thread(target=first_run, name="verif-starter")
        st_th.start()
        if not reached.wait(WAIT_S):
            release.set()
            st_th.join(WAIT_S)
            raise Inconclusive("tail rendezvous not reached (worker no longer reads the replication state there)")
        st_th.join(WAIT_S)
        # the run thread has written STOPPED and is held before parking; the command comes from this thread
        cm_box = {}

        def commander():
            cm_box["err"] = _issue(sim, h, c["cmd"])
        cm = threading.Thread(target=commander, name="verif-commander")
        cm.start()
        cm.join(0.2)          # start() blocks up to 1 s waiting for the run flag; let it get to the wake-up
        release.set()
        cm.join(WAIT_S * 2)
        status = h.settle(allow_limbo=True)
        err = cm_box.get("err")
        out.label("result=" + ("refused" if isinstance(err, DSOLError) else "accepted" if err is None else "raised"))
        if status != "quiet":
            out.fail("overlap-limbo:" + sid, {"status": status, "state": [sim.run_state.name, sim.replication_state.name]})
            return out
        if err is not None and not isinstance(err, DSOLError):
            out.fail("overlap-raised-%s:%s" % (type(err).__name__, sid), repr(err))
        pair = (sim.run_state.name, sim.replication_state.name)
        if pair not in CONSISTENT:
            out.fail("overlap-inconsistent-state:" + sid, pair)
            return out
        if err is None and c["cmd"] == "start" and pair != ("ENDED", "ENDED"):
            out.fail("overlap-start-returned-but-nothing-ran:" + sid, pair)
        if err is None and c["cmd"] == "rut" and pair == ("STOPPED", "STARTED") and enc_obs(sim.simulator_time) != fx(8.5):
            out.fail("overlap-run-up-to-returned-but-did-not-run:" + sid, enc_obs(sim.simulator_time))
        grammar(out, rec.log, fx(2.5), sid)
        if out.disc:
            return out
        if pair != ("ENDED", "ENDED"):
            e2 = h.run_piece(["start"])
            if e2 is not None:
                out.fail("overlap-completion-refused:" + sid, repr(e2))
        final = [t for t in h.model.trace if t[0] != "W"]
        if (sim.run_state.name, sim.replication_state.name) != ("ENDED", "ENDED"):
            out.fail("overlap-completion-not-ended:" + sid, [sim.run_state.name, sim.replication_state.name])
        elif final != full_trace:
            out.fail("overlap-events-lost-or-duplicated:" + sid, {"got": final, "want": full_trace})
    finally:
        release.set()
        if h.finish():
            out.fail("overlap-thread-leak:" + sid, None)
    out.info = {"schedule": sid}
    return out


def run_overlap(c):
    from pydsol.core.utils import DSOLError
    if "tail" in c:
        return run_tail(c)
    if "cross" in c:
        return run_cross(c)
    if "failed_init" in c:
        return run_failed_init(c)
    if "endrep_in_handler" in c:
        return run_endrep_in_handler(c)
    if "infinite_length" in c:
        return run_infinite_length(c)
    if "rapid" in c:
        return run_rapid(c)
    if "reentrant" in c:
        return run_reentrant(c)
    out = Outcome()
    sid = sched_id(c)
    out.label("overlap", "hold=" + c["hold"], "cmd=" + c["cmd"], "issuer=" + c["issuer"])
    out.nontrivial = True
    prog = PROGS[0]
    ref = RefSim(prog)
    ref.initialize()
    ref.run()
    full_trace = ref.model_trace()
    h = Harness(prog)
    sim = h.sim
    rec = h.rec
    reached = threading.Event()
    release = threading.Event()
    cmd_reached = threading.Event()
    cmd_release = threading.Event()
    box = {}
    run_thread_names = set()
    state = {"armed": True, "tc": 0}

    def hold_point():
        """called on the run thread at the chosen point"""
        if not state["armed"]:
            return
        state["armed"] = False
        box["snap_before"] = snapshot(h)
        if c["issuer"] == "run-thread":
            box["err"] = _issue(sim, h, c["cmd"])
            box["snap_after"] = snapshot(h)
            box["done"] = True
            reached.set()
            return
        reached.set()
        release.wait(WAIT_S * 3)

    def on_exec(m, seq, node):
        rec.log.append(["EXEC", enc_obs(m.simulator.simulator_time), seq])
        k = len([t for t in m.trace if t[0] != "W"]) - 1
        if c["hold"] == "handler%d" % k:
            hold_point()

    def mk_hook(name):
        def hook(entry):
            me = threading.current_thread()
            if me.name == h.name:                       # the simulator's worker thread
                want = c["hold"]
                if want == "n:" + name:
                    hold_point()
                elif name == "STOP" and want == "n:STOP-bounded" and box.get("bounded"):
                    hold_point()
                elif name == "STOP" and want == "n:STOP-end" and not box.get("bounded"):
                    hold_point()
            elif me.name == "verif-commander" and c["cmd_hold"] == name:
                cmd_reached.set()
                cmd_release.wait(WAIT_S * 3)
        return hook

    try:
        h.initialize()
        h.model.on_exec = on_exec
        rec.hooks.pop("WARMUP", None)
        for nm in ("START", "TIME_CHANGED", "WARMUP", "STOP", "END_REPLICATION", "STOPPING", "STARTING",
                   "START_REPLICATION"):
            rec.hooks[nm] = mk_hook(nm)
        box["bounded"] = c["hold"] == "n:STOP-bounded"
        # ---- start the run whose transitions we overlap (from a starter thread: start() may block <= 1 s)
        def starter():
            try:
                if box["bounded"]:
                    sim.run_up_to(5.0)
                else:
                    sim.start()
            except Exception as e:       # pragma: no cover
                box["starter_err"] = e
        st_th = threading.Thread(target=starter, name="verif-starter")
        st_th.start()
        if not reached.wait(WAIT_S):
            release.set()
            st_th.join(WAIT_S)
            raise Inconclusive("hold point %s not reached" % c["hold"])
        if c["issuer"] == "helper":
            def commander():
                box["err"] = _issue(sim, h, c["cmd"])
                box["snap_after"] = snapshot(h)
                box["done"] = True
            rs_at_hold = sim.run_state
            cm = threading.Thread(target=commander, name="verif-commander")
            cm.start()
            deadline = _time.monotonic() + WAIT_S
            while _time.monotonic() < deadline:
                if box.get("done") or cmd_reached.is_set():
                    break
                if c["cmd"] in ("stop", "cleanup") and sim.run_state != rs_at_hold:
                    # stop()/cleanup() have written STOPPING and now wait (at most pydsol's 1 s grace) for
                    # the held run thread: release it, a handler blocking longer than that is an artefact
                    break
                _time.sleep(0.0005)
            box["cmd_done_while_held"] = bool(box.get("done"))
            release.set()
            if cmd_reached.is_set():
                # let the run thread get as far as it can while the commander is held
                deadline = _time.monotonic() + 1.5
                while _time.monotonic() < deadline and h.status() == "busy":
                    _time.sleep(0.001)
                cmd_release.set()
            cm.join(WAIT_S * 2)
            if cm.is_alive():
                raise Inconclusive("commander did not return")
        st_th.join(WAIT_S * 2)
        status = h.settle(allow_limbo=True)
        err = box.get("err")
        out.label("result=" + ("refused" if isinstance(err, DSOLError) else "accepted" if err is None else "raised"))
        if status != "quiet":
            out.fail("overlap-limbo:%s" % sid, {"status": status, "state": [sim.run_state.name,
                                                                           sim.replication_state.name]})
            return out
        if err is not None and not isinstance(err, DSOLError):
            out.fail("overlap-raised-%s:%s" % (type(err).__name__, sid), repr(err))
        pair = (sim.run_state.name, sim.replication_state.name)
        if pair not in CONSISTENT:
            out.fail("overlap-inconsistent-state:%s" % sid, pair)
            return out
        # a refused command changes nothing (it completed while the run thread was held)
        if isinstance(err, DSOLError) and (c["issuer"] == "run-thread" or box.get("cmd_done_while_held")):
            if box.get("snap_before") != box.get("snap_after"):
                out.fail("overlap-refused-changed-state:%s" % sid, [box.get("snap_before"), box.get("snap_after")])
        reset = err is None and c["cmd"] in ("init", "cleanup")
        if not reset:
            grammar(out, rec.log, fx(2.5), sid)
        # an accepted command must have taken effect
        if err is None and c["cmd"] in ("start",) and pair != ("ENDED", "ENDED"):
            out.fail("overlap-start-returned-but-nothing-ran:%s" % sid, pair)
        if err is None and c["cmd"] == "rut" and pair == ("STOPPED", "STARTED") and \
                enc_obs(sim.simulator_time) != fx(8.5):
            out.fail("overlap-run-up-to-returned-but-did-not-run:%s" % sid, enc_obs(sim.simulator_time))
        if err is None and c["cmd"] == "stop" and pair not in (("STOPPED", "STARTED"), ("ENDED", "ENDED")):
            out.fail("overlap-stop-returned-in-state:%s" % sid, pair)
        if out.disc:
            return out
        # ---- completion: the replication can be finished and every event ran exactly once, in order
        if pair == ("NOT_INITIALIZED", "NOT_INITIALIZED") or (reset and pair != ("ENDED", "ENDED")):
            if pair == ("NOT_INITIALIZED", "NOT_INITIALIZED"):
                h.rec = Recorder()
                h.initialize()
                h.model.on_exec = None
            e2 = h.run_piece(["start"])
        elif pair == ("ENDED", "ENDED"):
            e2 = None
        else:
            e2 = h.run_piece(["start"])
        if e2 is not None:
            out.fail("overlap-completion-refused:%s" % sid, repr(e2))
        final = [t for t in h.model.trace if t[0] != "W"]
        if (sim.run_state.name, sim.replication_state.name) != ("ENDED", "ENDED"):
            out.fail("overlap-completion-not-ended:%s" % sid, [sim.run_state.name, sim.replication_state.name])
        elif final != full_trace:
            out.fail("overlap-events-lost-or-duplicated:%s" % sid, {"got": final, "want": full_trace})
    finally:
        release.set()
        cmd_release.set()
        if h.finish():
            out.fail("overlap-thread-leak:%s" % sid, None)
    out.info = {"schedule": sid}
    return out
