"""Reference side of C15: independent closed-form cdfs / pmfs (mpmath + math), adaptive
Gauss-Kronrod quadrature of a declared density, Kolmogorov-Smirnov lower bound, pooled chi-square.

Nothing in this file imports pydsol: every formula is written from the textbook definition that
the class docstrings name (Law & Kelton parametrisation: Gamma(shape, scale) mean shape*scale;
Erlang(scale, k) mean k*scale; Exponential(mean); Weibull(alpha=shape, beta=scale);
Pearson5(alpha, beta): 1/X ~ Gamma(alpha, scale 1/beta); Pearson6(alpha1, alpha2, beta):
X/(X+beta) ~ Beta(alpha1, alpha2); LogNormal(mu, sigma): ln X ~ N(mu, sigma);
Geometric / NegBinomial count FAILURES before the first / s-th success).
"""
import bisect
import math

from vlib.runner import Inconclusive

_M = None


def mp():
    """The private mpmath context (25 digits).  Import failure is a harness error."""
    global _M
    if _M is None:
        from vlib import ensure_deps
        if not ensure_deps():
            raise RuntimeError("C15 needs mpmath (offline wheel in /opt/veriftools/wheels); import failed")
        import mpmath
        _M = mpmath.mp.clone()
        _M.dps = 25
    return _M


SQRT2 = math.sqrt(2.0)
INF = math.inf


def phi(z):
    return math.exp(-0.5 * z * z) / math.sqrt(2.0 * math.pi)


def Phi(z):
    return 0.5 * math.erfc(-z / SQRT2)


def Phic(z):
    return 0.5 * math.erfc(z / SQRT2)


# --------------------------------------------------------------------------------------------
# continuous references
# --------------------------------------------------------------------------------------------

class ContRef:
    """cdf/sf of the documented distribution, its closed support, the variable in which the
    declared density is integrated ('id', 'log', 'logit'), kinks of the density, and the branch
    of the sampler that the parameters imply."""

    def __init__(self, cdf, sf, lo, hi, tr, kinks=(), branch="single", scale=1.0, center=0.0):
        self.cdf, self.sf, self.lo, self.hi, self.tr = cdf, sf, lo, hi, tr
        self.kinks = list(kinks)
        self.branch = branch
        self.scale = scale          # a typical width (step of the bracket search in 'id')
        self.center = center

    # transformed variable -------------------------------------------------
    def to_s(self, x):
        if self.tr == "id":
            return x
        if self.tr == "log":
            if x <= 0.0:
                return -INF
            if x == INF:
                return INF
            return math.log(x)
        # logit
        if x <= 0.0:
            return -INF
        if x >= 1.0:
            return INF
        return math.log(x) - math.log1p(-x)

    def from_s(self, s):
        """x(s) and dx/ds"""
        if self.tr == "id":
            return s, 1.0
        if self.tr == "log":
            x = math.exp(s)
            return x, x
        if s < 0:
            e = math.exp(s)
            x = e / (1.0 + e)
            return x, x / (1.0 + e)
        e = math.exp(-s)
        x = 1.0 / (1.0 + e)
        return x, x * e / (1.0 + e)

    def s_limits(self):
        if self.tr == "id":
            return -1e300, 1e300
        if self.tr == "log":
            return -700.0, 700.0
        return -700.0, 36.0      # beyond logit 36.7 a double cannot be told from 1.0


def _gamma_P(a, t):
    M = mp()
    if t <= 0:
        return 0.0
    return float(M.gammainc(a, 0, t, regularized=True))


def _gamma_Q(a, t):
    M = mp()
    if t <= 0:
        return 1.0
    if t == INF:
        return 0.0
    return float(M.gammainc(a, t, M.inf, regularized=True))


def _beta_I(a, b, w):
    M = mp()
    if w <= 0:
        return 0.0
    if w >= 1:
        return 1.0
    return float(M.betainc(a, b, 0, w, regularized=True))


def _beta_Ic(a, b, w):
    M = mp()
    if w <= 0:
        return 1.0
    if w >= 1:
        return 0.0
    return float(M.betainc(a, b, w, 1, regularized=True))


def _gbranch(shape):
    return "shape<1" if shape < 1.0 else ("shape=1" if shape == 1.0 else "shape>1")


def cont_ref(cls, p):
    """p: dict of decoded parameters."""
    if cls == "DistBeta":
        a, b = float(p["alpha1"]), float(p["alpha2"])
        return ContRef(lambda x: _beta_I(a, b, x), lambda x: _beta_Ic(a, b, x), 0.0, 1.0, "logit",
                       branch="gamma(%s)/gamma(%s)" % (_gbranch(a), _gbranch(b)))
    if cls == "DistErlang":
        k, sc = int(p["k"]), float(p["scale"])
        br = "product(k<10)" if k < 10 else "gamma(k>=10)"
        return ContRef(lambda x: _gamma_P(k, x / sc), lambda x: _gamma_Q(k, x / sc), 0.0, INF, "log", branch=br)
    if cls == "DistExponential":
        m = float(p["mean"])
        return ContRef(lambda x: -math.expm1(-x / m) if x > 0 else 0.0,
                       lambda x: math.exp(-x / m) if x > 0 else 1.0, 0.0, INF, "log")
    if cls == "DistGamma":
        a, sc = float(p["shape"]), float(p["scale"])
        return ContRef(lambda x: _gamma_P(a, x / sc), lambda x: _gamma_Q(a, x / sc), 0.0, INF, "log",
                       branch=_gbranch(a))
    if cls == "DistNormal":
        mu, sg = float(p["mu"]), float(p["sigma"])
        return ContRef(lambda x: Phi((x - mu) / sg), lambda x: Phic((x - mu) / sg), -INF, INF, "id",
                       branch="polar", scale=sg, center=mu)
    if cls == "DistLogNormal":
        mu, sg = float(p["mu"]), float(p["sigma"])
        return ContRef(lambda x: Phi((math.log(x) - mu) / sg) if x > 0 else 0.0,
                       lambda x: (Phic((math.log(x) - mu) / sg) if x < INF else 0.0) if x > 0 else 1.0,
                       0.0, INF, "log", branch="exp(polar)")
    if cls == "DistNormalTrunc":
        mu, sg, lo, hi = float(p["mu"]), float(p["sigma"]), float(p["lo"]), float(p["hi"])
        M = mp()
        zl, zh = (lo - mu) / sg, (hi - mu) / sg
        A = M.ncdf(zl) if zl > -INF else M.mpf(0)
        B = M.ncdf(zh) if zh < INF else M.mpf(1)
        W = B - A

        def cdf(x):
            if x <= lo:
                return 0.0
            if x >= hi:
                return 1.0
            return float((M.ncdf((x - mu) / sg) - A) / W)

        def sf(x):
            if x <= lo:
                return 1.0
            if x >= hi:
                return 0.0
            return float((B - M.ncdf((x - mu) / sg)) / W)
        sides = ("two-sided" if (lo > -INF and hi < INF) else "lower-only" if lo > -INF
                 else "upper-only" if hi < INF else "untruncated")
        far = ":far-tail" if (zl >= 2.5 or zh <= -2.5) else ""
        r = ContRef(cdf, sf, lo, hi, "id", branch=sides + far, scale=sg, center=mu)
        r.mass = float(W)
        return r
    if cls == "DistPearson5":
        a, b = float(p["alpha"]), float(p["beta"])
        return ContRef(lambda x: _gamma_Q(a, b / x) if x > 0 else 0.0,
                       lambda x: (_gamma_P(a, b / x) if x < INF else 0.0) if x > 0 else 1.0,
                       0.0, INF, "log", branch="1/gamma(%s)" % _gbranch(a))
    if cls == "DistPearson6":
        a1, a2, b = float(p["alpha1"]), float(p["alpha2"]), float(p["beta"])

        def cdf(x):
            if x <= 0:
                return 0.0
            if x == INF:
                return 1.0
            if x > b:           # x/(x+b) rounds towards 1: use the complementary argument
                return 1.0 - _beta_I(a2, a1, b / (x + b))
            return _beta_I(a1, a2, x / (x + b))

        def sf(x):
            if x <= 0:
                return 1.0
            if x == INF:
                return 0.0
            if x < b:
                return 1.0 - _beta_I(a1, a2, x / (x + b))
            return _beta_I(a2, a1, b / (x + b))
        return ContRef(cdf, sf, 0.0, INF, "log", branch="gamma(%s)/gamma(%s)" % (_gbranch(a1), _gbranch(a2)))
    if cls == "DistTriangular":
        lo, mo, hi = float(p["lo"]), float(p["mode"]), float(p["hi"])

        def cdf(x):
            if x <= lo:
                return 0.0
            if x >= hi:
                return 1.0
            if x <= mo:
                return (x - lo) ** 2 / ((hi - lo) * (mo - lo))
            return 1.0 - (hi - x) ** 2 / ((hi - lo) * (hi - mo))
        br = "mode=lo" if mo == lo else "mode=hi" if mo == hi else "mode-interior"
        return ContRef(cdf, lambda x: 1.0 - cdf(x), lo, hi, "id", kinks=[mo], branch=br,
                       scale=hi - lo, center=mo)
    if cls == "DistUniform":
        lo, hi = float(p["lo"]), float(p["hi"])

        def cdf(x):
            return 0.0 if x <= lo else 1.0 if x >= hi else (x - lo) / (hi - lo)
        return ContRef(cdf, lambda x: 1.0 - cdf(x), lo, hi, "id", scale=hi - lo, center=lo)
    if cls == "DistWeibull":
        a, b = float(p["alpha"]), float(p["beta"])

        def t(x):
            try:
                return math.pow(x / b, a)
            except OverflowError:
                return INF
        return ContRef(lambda x: -math.expm1(-t(x)) if x > 0 else 0.0,
                       lambda x: math.exp(-t(x)) if x > 0 else 1.0, 0.0, INF, "log")
    raise KeyError(cls)


# --------------------------------------------------------------------------------------------
# effective support (tails <= TAIL on each side), found with the reference cdf / sf
# --------------------------------------------------------------------------------------------
TAIL = 1e-9
TAIL_MIN = 1e-12


def effective_range(ref, xmid):
    """(s_lo, s_hi, resolvable): points with reference tail mass in [TAIL_MIN, TAIL], searched outwards
    from xmid (the sample median) with the reference cdf / sf only - so the range does not depend on how
    far a (possibly wrong) sampler strays.  Finite support ends of 'id' references are used exactly."""
    lim_lo, lim_hi = ref.s_limits()
    ok = True

    def search(tailfn, s0, direction, limit):
        step = 1.0 if ref.tr != "id" else max(ref.scale, 1e-300)
        s_in = s0
        s = s0
        n = 0
        while True:
            x, _ = ref.from_s(s)
            t = tailfn(x)
            if t <= TAIL:
                break
            s_in = s
            if (direction < 0 and s <= limit) or (direction > 0 and s >= limit):
                return s, False
            s = s + direction * step
            s = max(s, limit) if direction < 0 else min(s, limit)
            step *= 2.0
            n += 1
            if n > 200:
                raise Inconclusive("effective range search did not terminate")
        if s == s_in:
            return s, True
        # bisection between s_in (tail > TAIL) and s (tail <= TAIL) until TAIL_MIN <= tail <= TAIL
        a, b = s_in, s
        for _ in range(60):
            x, _ = ref.from_s(b)
            t = tailfn(x)
            if t >= TAIL_MIN:
                break
            m = 0.5 * (a + b)
            xm, _ = ref.from_s(m)
            if tailfn(xm) <= TAIL:
                b = m
            else:
                a = m
        return b, True

    s_mid = ref.to_s(xmid) if abs(xmid) < INF else ref.center
    if not (lim_lo <= s_mid <= lim_hi) or ref.cdf(ref.from_s(s_mid)[0]) <= TAIL or ref.sf(ref.from_s(s_mid)[0]) <= TAIL:
        # the sample median is not inside the bulk of the reference (wrong sampler): start from a point
        # that is, found by bisection on the reference cdf over the representable range
        a, b = (max(lim_lo, -1e6 * ref.scale + ref.center), min(lim_hi, 1e6 * ref.scale + ref.center)) \
            if ref.tr == "id" else (lim_lo, lim_hi)
        if ref.tr == "id":
            a, b = max(a, ref.lo), min(b, ref.hi)
        for _ in range(200):
            s_mid = 0.5 * (a + b)
            c = ref.cdf(ref.from_s(s_mid)[0])
            if c < 0.25:
                a = s_mid
            elif c > 0.75:
                b = s_mid
            else:
                break
    if ref.tr == "id" and ref.lo > -INF:
        s_lo = ref.lo
    else:
        s_lo, r = search(ref.cdf, s_mid, -1, lim_lo)
        ok = ok and r
    if ref.tr == "id" and ref.hi < INF:
        s_hi = ref.hi
    else:
        s_hi, r = search(ref.sf, s_mid, +1, lim_hi)
        ok = ok and r
    return s_lo, s_hi, ok


# --------------------------------------------------------------------------------------------
# adaptive Gauss-Kronrod (7, 15)
# --------------------------------------------------------------------------------------------
_XGK = (0.991455371120812639206854697526329, 0.949107912342758524526189684047851,
        0.864864423359769072789712788640926, 0.741531185599394439863864773280788,
        0.586087235467691130294144838258730, 0.405845151377397166906606412076961,
        0.207784955007898467600689403773245, 0.0)
_WGK = (0.022935322010529224963732008058970, 0.063092092629978553290700663189204,
        0.104790010322250183839876322541518, 0.140653259715525918745189590510238,
        0.169004726639267902826583426598550, 0.190350578064785409913256402421014,
        0.204432940075298892414161999234649, 0.209482141084727828012999174891714)
_WG = (0.129484966168869693270611432679082, 0.279705391489276667901467771423780,
       0.381830050505118944950369775488975, 0.417959183673469387755102040816327)


class Quad:
    """Integrates g over [a, b]; counts evaluations; `budget` exhausted -> Inconclusive."""

    def __init__(self, g, budget=600000):
        self.g = g
        self.evals = 0
        self.budget = budget

    def _gk(self, a, b):
        g = self.g
        c = 0.5 * (a + b)
        h = 0.5 * (b - a)
        fc = g(c)
        rk = fc * _WGK[7]
        rg = fc * _WG[3]
        for j in range(7):
            d = h * _XGK[j]
            f = g(c - d) + g(c + d)
            rk += _WGK[j] * f
            if j & 1:
                rg += _WG[j >> 1] * f
        self.evals += 15
        return rk * h, abs((rk - rg) * h)

    def integrate(self, a, b, tol):
        if not a < b:
            return 0.0
        total = 0.0
        stack = [(a, b, tol, 0)]
        while stack:
            a, b, tol, depth = stack.pop()
            v, err = self._gk(a, b)
            if err <= tol or depth >= 60 or not (a < 0.5 * (a + b) < b):
                if err > max(tol, 1e-7) and depth >= 60:
                    raise Inconclusive("quadrature did not converge on [%r, %r]" % (a, b))
                total += v
                continue
            if self.evals > self.budget:
                raise Inconclusive("quadrature budget exhausted")
            m = 0.5 * (a + b)
            stack.append((a, m, 0.5 * tol, depth + 1))
            stack.append((m, b, 0.5 * tol, depth + 1))
        return total

    def cumulative(self, points, tol=2e-10):
        """points ascending; returns the running integral at every point (first = 0)."""
        out = [0.0]
        acc = 0.0
        span = points[-1] - points[0]
        for a, b in zip(points, points[1:]):
            nsub = 1
            if span > 0 and (b - a) > span / 64.0:
                nsub = int(math.ceil((b - a) / (span / 64.0)))
            w = (b - a) / nsub
            for i in range(nsub):
                acc += self.integrate(a + i * w, (a + (i + 1) * w) if i < nsub - 1 else b, tol)
            out.append(acc)
        return out


# --------------------------------------------------------------------------------------------
# Kolmogorov-Smirnov: lower bound of D from ~npts order statistics (ties handled)
# --------------------------------------------------------------------------------------------
ALPHA = 1e-10


def ks_threshold(n):
    """DKW/Massart: P(D > eps) <= 2 exp(-2 n eps^2) = ALPHA."""
    return math.sqrt(math.log(2.0 / ALPHA) / (2.0 * n))


def ks_indices(n, npts=400):
    if n <= npts:
        return list(range(n))
    return sorted(set(int(round(j * (n - 1) / (npts - 1))) for j in range(npts)))


def ks_points(xs_sorted, npts=400):
    """distinct evaluation points with their tie ranges: [(x, first, last)]"""
    n = len(xs_sorted)
    seen = set()
    pts = []
    for i in ks_indices(n, npts):
        x = xs_sorted[i]
        if x in seen:
            continue
        seen.add(x)
        first = bisect.bisect_left(xs_sorted, x)
        last = bisect.bisect_right(xs_sorted, x) - 1
        pts.append((x, first, last))
    return pts


def ks_distance(pts, fvals, n):
    """max over the points of  (last+1)/n - F(x)  and  F(x) - first/n ; returns (D, x_at)"""
    best, at = 0.0, None
    for (x, first, last), f in zip(pts, fvals):
        d = max((last + 1) / n - f, f - first / n)
        if d > best:
            best, at = d, x
    return best, at


# --------------------------------------------------------------------------------------------
# discrete references
# --------------------------------------------------------------------------------------------

def _walk(k0, p0, up_ratio, down_ratio, kmin, kmax, cap=400000):
    """table of pmf values around the mode k0 from ratios pmf(k+1)/pmf(k) and pmf(k-1)/pmf(k);
    stops where the omitted geometric tail is < 1e-13."""
    ups = []
    k, pk = k0, p0
    while kmax is None or k < kmax:
        r = up_ratio(k)
        nxt = pk * r
        k += 1
        ups.append(nxt)
        pk = nxt
        r2 = up_ratio(k) if (kmax is None or k < kmax) else 0.0
        if r2 < 1.0 and pk / (1.0 - r2) < 1e-13:
            break
        if len(ups) > cap:
            raise Inconclusive("reference pmf table too long")
    downs = []
    k, pk = k0, p0
    while k > kmin:
        r = down_ratio(k)
        nxt = pk * r
        k -= 1
        downs.append(nxt)
        pk = nxt
        r2 = down_ratio(k) if k > kmin else 0.0
        if r2 < 1.0 and pk / (1.0 - r2) < 1e-13:
            break
    lo = k0 - len(downs)
    return lo, list(reversed(downs)) + [p0] + ups


def disc_ref(cls, p):
    """returns (k_lo, [pmf...], support_lo, support_hi(None = unbounded), branch)"""
    M = mp()
    if cls == "DistBernoulli":
        pp = float(p["p"])
        return 0, [1.0 - pp, pp], 0, 1, "single"
    if cls == "DistDiscreteUniform":
        lo, hi = int(p["lo"]), int(p["hi"])
        m = hi - lo + 1
        return lo, [1.0 / m] * m, lo, hi, "single"
    if cls == "DistBinomial":
        n, pp = int(p["n"]), float(p["p"])
        if pp == 0.0:
            return 0, [1.0], 0, n, "p=0"
        if pp == 1.0:
            return n, [1.0], 0, n, "p=1"
        q = M.mpf(1) - M.mpf(pp)
        m = min(n, max(0, int(math.floor((n + 1) * pp))))
        p0 = float(M.binomial(n, m) * M.mpf(pp) ** m * q ** (n - m))
        rq = float(M.mpf(pp) / q)
        lo, tab = _walk(m, p0, lambda k: (n - k) / (k + 1.0) * rq, lambda k: k / (n - k + 1.0) / rq, 0, n)
        return lo, tab, 0, n, "n-trials"
    if cls == "DistGeometric":
        pp = float(p["p"])
        q = float(M.mpf(1) - M.mpf(pp))
        lo, tab = _walk(0, pp, lambda k: q, lambda k: 0.0, 0, None)
        return lo, tab, 0, None, "single"
    if cls == "DistNegBinomial":
        s, pp = int(p["s"]), float(p["p"])
        qm = M.mpf(1) - M.mpf(pp)
        q = float(qm)
        m = int(math.floor((s - 1) * q / pp)) if s > 1 else 0
        p0 = float(M.binomial(s + m - 1, m) * M.mpf(pp) ** s * qm ** m)
        lo, tab = _walk(m, p0, lambda k: (s + k) / (k + 1.0) * q, lambda k: k / (s + k - 1.0) / q, 0, None)
        return lo, tab, 0, None, "sum-of-%s-geometrics" % ("1" if s == 1 else "s")
    if cls == "DistPoisson":
        lam = p["rate"]
        L = M.mpf(lam)
        m = int(math.floor(float(lam)))
        p0 = float(M.exp(-L + m * M.log(L) - M.loggamma(m + 1)))
        fl = float(lam)
        lo, tab = _walk(m, p0, lambda k: fl / (k + 1.0), lambda k: k / fl, 0, None)
        return lo, tab, 0, None, "product-of-uniforms"
    raise KeyError(cls)


def chi2_pvalue(chi2, df):
    M = mp()
    if df <= 0:
        return 1.0
    if chi2 <= 0:
        return 1.0
    return float(M.gammainc(M.mpf(df) / 2, M.mpf(chi2) / 2, M.inf, regularized=True))


def pooled_chi2(k_lo, expected, counts, n, emin):
    """expected: list of N*pmf over k_lo.. ; counts: dict k -> observed.  Observations outside the
    table are put into the first / last cell.  Cells are pooled from the left until the expectation
    reaches emin; a short rest joins the last cell.  Returns (chi2, df, worst_cell_description)."""
    k_hi = k_lo + len(expected) - 1
    obs = [0] * len(expected)
    for k, c in counts.items():
        i = min(max(k, k_lo), k_hi) - k_lo
        obs[i] += c
    cells = []
    e_acc = 0.0
    o_acc = 0
    start = k_lo
    for i, e in enumerate(expected):
        e_acc += e
        o_acc += obs[i]
        if e_acc >= emin:
            cells.append([start, k_lo + i, e_acc, o_acc])
            start = k_lo + i + 1
            e_acc, o_acc = 0.0, 0
    if e_acc > 0 or o_acc > 0:
        if cells:
            cells[-1][1] = k_hi
            cells[-1][2] += e_acc
            cells[-1][3] += o_acc
        else:
            cells.append([start, k_hi, e_acc, o_acc])
    chi2 = 0.0
    worst = None
    for a, b, e, o in cells:
        if e <= 0:
            continue
        c = (o - e) ** 2 / e
        chi2 += c
        if worst is None or c > worst[0]:
            worst = (c, a, b, e, o)
    return chi2, len(cells) - 1, worst
