"""C12 - random streams are reproducible, resettable, restorable, independent, in range.

Cases (JSON, big integers are plain JSON integers):
  {"kind": "prog", "seeds": [s0, s1, ...],            1-3 MersenneTwister streams
   "ops": [[k, "f"], [k, "i", lo, hi], [k, "b"],      draws on stream k (k modulo number of streams)
           [k, "seed", s], [k, "reset"],
           [k, "save", slot], [k, "restore", slot, n]]}
      restore(slot, n): restore the state saved in the slot (slot resolved modulo the slots saved so far on
      that stream; dropped when nothing was saved) and re-issue the first n state-relevant ops (draws,
      set_seed, reset) that were performed on the stream after that save - their outputs must repeat.
  {"kind": "cover", "seed": s, "lo": lo, "w": w, "per": m}    m*w draws from [lo, lo+w-1] on a real stream:
      all w values (both bounds in particular) must occur (w <= 8, miss probability < 1e-25 for m = 64)
  {"kind": "stub", "u": "min"|"max"|"eps"|hexfloat, "ranges": [[lo, hi], ...]}
      the wrapped generator (private attribute _random) is replaced by a constant stub; next_int must stay
      in range.  Skipped (label stub-skipped), never failed, when the attribute does not exist.
  {"kind": "grid", "lo": lo, "w": w, "per": m}      stub sweeping u = j/(m*w): every value of the range is hit

The oracle is metamorphic; no formula of the implementation is used.
"""
from hypothesis import strategies as st

from vlib.runner import Outcome

ID = "C12"
RULE = ("(plus 5% 'reseed' cases: one long-lived stream re-seeded step by step through StreamSeedUpdater / "
        "SimpleStreamUpdater, incl. with the seed it already has: afterwards it must produce the sequence of a new "
        "stream with the reported seed) Hypothesis programs over 1-3 MersenneTwister streams (seeds from {0, 1, -1, -2**63, 2**64+1, 2**200} and "
        "arbitrary ints; <=60 quick / <=150 thorough ops next_float / next_int(lo,hi) / next_bool / set_seed / reset / "
        "save(slot) / restore(slot, replay n); integer ranges single-value, negative, crossing zero, widths 2**53+-, "
        "2**64, up to 2**200 and a few beyond the float range). Metamorphic oracle: Twin (same program on a second, "
        "equally seeded set of streams -> bit-identical outputs), Reset / set_seed (from that op on the stream equals a "
        "freshly constructed stream with the current seed under the same subsequent ops), Restore (ops re-issued after "
        "restore(slot) repeat the outputs they had after the save), Independence (every stream alone reproduces its "
        "outputs of the interleaved run), Step (every draw of any type advances the stream by one position: the floats "
        "of a program equal those of the program with all draws replaced by next_float), Ranges/types (float in [0,1), "
        "int of type int in [lo,hi], bool), accessors seed()/original_seed(). Enumerated sub-domain: stubbed generator "
        "returning 0.0 / 1-2**-53 / 2**-53 on a table of ranges, coverage of small ranges (both bounds attained). "
        "Non-trivial = >=2 streams whose draws interleave AND (a restore that replays >=3 draws OR a reset after >=3 "
        "draws since the last (re)seed); distinct = distinct case digests.")
ASSUMPTIONS = [
    "lo <= hi (an inverted range has no meaning); lo, hi, seeds are ints (no bool/float arguments)",
    "Step relies on the anchor of the property (every draw is derived from one call of the wrapped generator) and on "
    "the next_float docstring ('after advancing its state by one step')",
    "a restore into a stream whose current seed differs from the seed at save time makes 'current seed' ambiguous: "
    "seed() and reset are not judged until the next set_seed, and a replay stops at a reset",
    "saved states are restored into the stream that saved them (no cross-stream restore)",
    "coverage of small ranges is statistical with miss probability < 1e-25 per case (64 draws per value)",
    "no statement about uniformity or about the number of distinct values for widths > 2**53",
]
NONTRIVIAL_FLOOR = 0.05
EXHAUSTIVE_NOTE = ("stub generator u in {0.0, 1-2**-53, 2**-53, 0.5} x 17 lower bounds x 21 widths (1 .. 2**1100); "
                   "coverage of all ranges of width 1..8 at 5 lower bounds x 4 seeds; stub grid sweep widths 1..8")

_SEEDS = [0, 1, -1, -2 ** 63, 2 ** 64 + 1, 2 ** 200]
_LOS = [0, 1, -1, -5, 7, -2 ** 31, 2 ** 31 - 1, 2 ** 53, -2 ** 53 - 1, -2 ** 63, 2 ** 63, 2 ** 64 + 1, -2 ** 200, 2 ** 200,
        10 ** 30, -10 ** 30 + 1, 123456789]
_WIDTHS = [1, 2, 3, 10, 1000, 2 ** 31, 2 ** 32 + 1, 2 ** 53 - 1, 2 ** 53, 2 ** 53 + 1, 2 ** 53 + 3, 2 ** 54 + 6,
           2 ** 55 + 12, 2 ** 63, 2 ** 64, 2 ** 200, 2 ** 200 + 12345, 2 ** 1023, 2 ** 1024 - 2 ** 970 - 1]
_BEYOND = [2 ** 1024 - 2 ** 970, 2 ** 1100]          # float(width) overflows
U_MAX = 1.0 - 2.0 ** -53
U_EPS = 2.0 ** -53


def budget(tier):
    if tier == "quick":
        return {"examples": 5000, "shards": 8}
    return {"examples": 300000, "shards": 16}


# ---------------------------------------------------------------- strategy
def _range_strategy():
    lo = st.one_of(st.sampled_from(_LOS), st.integers(-1000, 1000), st.integers())
    w = st.one_of(st.just(1), st.integers(2, 10), st.sampled_from(_WIDTHS), st.integers(1, 2 ** 200),
                  st.integers(1, 2 ** 64))

    @st.composite
    def rng(draw):                            # draws only what the chosen alternative needs (small examples)
        sel = draw(st.integers(0, 79))
        if sel < 12:
            return [-draw(st.integers(1, 2 ** 70)), draw(st.integers(0, 2 ** 70))]     # crossing zero
        l = draw(lo)
        if sel == 12:
            return [l, l + draw(st.sampled_from(_BEYOND)) - 1]                           # float(width) overflows
        return [l, l + draw(w) - 1]

    return rng()


def strategy(tier):
    maxops = 60 if tier == "quick" else 150
    seed = st.one_of(st.sampled_from(_SEEDS), st.integers(-100, 100), st.integers())
    rng = _range_strategy()
    replay = st.sampled_from([0, 1, 3, 4, 6, 8])

    @st.composite
    def op(draw):
        k = draw(st.integers(0, 2))
        w = draw(st.integers(0, 99))
        if w < 27:
            return [k, "f"]
        if w < 50:
            r = draw(rng)
            return [k, "i", r[0], r[1]]
        if w < 62:
            return [k, "b"]
        if w < 68:
            return [k, "seed", draw(seed)]
        if w < 76:
            return [k, "reset"]
        if w < 85:
            return [k, "save", draw(st.integers(0, 2))]
        if w < 89:
            # go back to a saved state and take a new checkpoint at once (no draw in between)
            return [k, "rs", draw(st.integers(0, 2)), draw(st.integers(0, 2))]
        return [k, "restore", draw(st.integers(0, 2)), draw(replay)]

    op = op()
    ustub = st.one_of(st.sampled_from(["min", "max", "eps"]),
                      st.integers(0, 2 ** 53 - 1).map(lambda m: (m / 2.0 ** 53).hex()),
                      st.integers(1, 64).map(lambda m: (1.0 - m / 2.0 ** 53).hex()))

    @st.composite
    def case(draw):
        which = draw(st.integers(0, 19))
        if which == 2:
            k = draw(st.integers(2, 4))
            return {"kind": "info", "objs": draw(st.lists(st.integers(0, 1), min_size=k, max_size=k)),
                    "draws": draw(st.lists(st.integers(0, 5), min_size=k, max_size=k))}
        if which == 3:
            # a long-lived stream re-seeded replication after replication by the library's updaters: whenever the
            # stream reports seed s afterwards, it produces the sequence of a new stream created with s - also when
            # the new seed equals the one it already had
            tab = draw(st.lists(st.sampled_from([42, 42, 43, 7, 0, -5, 2 ** 70]), min_size=1, max_size=5))
            steps = draw(st.lists(st.tuples(st.integers(0, 4), st.integers(0, 4)).map(list), min_size=2, max_size=6))
            return {"kind": "reseed", "orig": draw(seed), "table": tab, "steps": steps,
                    "updater": draw(st.sampled_from(["seeded", "simple"]))}
        if which == 4:
            # a deep copy of a stream (a model or a StreamInformation that is cloned) is a stream of its own
            return {"kind": "clone", "seed": draw(seed), "pre": draw(st.lists(st.sampled_from(["f", "i", "b"]), max_size=6)),
                    "ops": draw(st.lists(st.tuples(st.integers(0, 1), st.sampled_from(["f", "f", "i", "b", "reset"])).map(list),
                                         min_size=2, max_size=20))}
        if which == 0:
            return {"kind": "stub", "u": draw(ustub), "ranges": draw(st.lists(rng, min_size=1, max_size=12))}
        if which == 1:
            return {"kind": "cover", "seed": draw(seed),
                    "lo": draw(st.one_of(st.sampled_from(_LOS), st.integers())),
                    "w": draw(st.integers(1, 8)), "per": 64}
        seeds = draw(st.lists(seed, min_size=draw(st.sampled_from([1, 2, 2, 3])), max_size=3))
        if len(seeds) >= 2 and draw(st.integers(0, 4)) == 0:
            seeds[1] = seeds[0]               # equally seeded neighbours must still be independent
        elif len(seeds) >= 2 and draw(st.integers(0, 5)) == 0:
            # distinct seeds with equal hash() (CPython reduces ints modulo 2**61 - 1; hash(-1) == hash(-2))
            j = draw(st.sampled_from([1, 1, 2, 3, 2 ** 61]))
            seeds[1] = seeds[0] + j * (2 ** 61 - 1) if seeds[0] >= 0 else seeds[0] - j * (2 ** 61 - 1)
            if draw(st.booleans()):
                seeds[0], seeds[1] = seeds[1], seeds[0]
        ops = draw(st.lists(op, min_size=draw(st.sampled_from([1, 10, 25, 40])), max_size=maxops))
        return {"kind": "prog", "seeds": seeds, "ops": ops}

    return case()


def enumerate_cases(tier):
    cases = []
    for u in ("min", "max", "eps", (0.5).hex()):
        for lo in _LOS:
            cases.append({"kind": "stub", "u": u, "ranges": [[lo, lo + w - 1] for w in _WIDTHS + _BEYOND]})
    for seed in (0, 1, -1, 2 ** 200):
        for lo in (0, -3, 5, -2 ** 63, 2 ** 64 + 1):
            for w in range(1, 9):
                cases.append({"kind": "cover", "seed": seed, "lo": lo, "w": w, "per": 64})
    for lo in (0, -4, 2 ** 64 + 1):
        for w in range(1, 9):
            cases.append({"kind": "grid", "lo": lo, "w": w, "per": 16})
    return cases


# ---------------------------------------------------------------- interpreter
_DRAWS = ("f", "i", "b")


def _expand(case):
    """Resolve indices and unfold restore(slot, n) into restore + re-issued ops.

    Returns (flat, notes); a flat op is a dict {"s", "op", "a", "b", "mirror", "amb"}.
    """
    n = len(case["seeds"])
    flat = []
    per_stream = [[] for _ in range(n)]         # indices into flat
    slots = [dict() for _ in range(n)]          # slot -> (position in per_stream, current seed at save)
    cur = list(case["seeds"])
    notes = set()

    def emit(s, name, a=None, b=None, mirror=None):
        flat.append({"s": s, "op": name, "a": a, "b": b, "mirror": mirror})
        per_stream[s].append(len(flat) - 1)
        if name == "seed":
            cur[s] = a

    for op in case["ops"]:
        s = op[0] % n
        name = op[1]
        if name in ("f", "b", "reset"):
            emit(s, name)
        elif name == "i":
            emit(s, "i", op[2], op[3])
        elif name == "seed":
            emit(s, "seed", op[2])
        elif name == "save":
            emit(s, "save", op[2])
            slots[s][op[2]] = (len(per_stream[s]), cur[s])
        elif name == "rs":
            if not slots[s]:
                notes.add("restore-dropped")
                continue
            keys = sorted(slots[s])
            slot = op[2] if op[2] in slots[s] else keys[op[2] % len(keys)]
            if slots[s][slot][1] != cur[s]:
                continue                                   # (across a set_seed: ambiguous, see 'amb')
            emit(s, "restore", slot)
            emit(s, "save", op[3])
            slots[s][op[3]] = (len(per_stream[s]), cur[s])
            notes.add("checkpoint-right-after-restore")
        elif name == "restore":
            if not slots[s]:
                notes.add("restore-dropped")
                continue
            keys = sorted(slots[s])
            slot = op[2] if op[2] in slots[s] else keys[op[2] % len(keys)]
            pos, seed_at_save = slots[s][slot]
            segment = per_stream[s][pos:]
            seed_differs = seed_at_save != cur[s]
            emit(s, "restore", slot)
            if seed_differs:
                flat[-1]["amb"] = True
                notes.add("restore-across-set_seed")
            left = op[3]
            for j in segment:
                if left <= 0:
                    break
                src = flat[j]
                if src["op"] == "restore":
                    break
                if src["op"] == "save":
                    continue
                if src["op"] == "reset" and seed_differs:
                    break
                emit(s, src["op"], src["a"], src["b"], mirror=j)
                left -= 1
    return flat, notes


def _token(kind, v):
    if kind == "f":
        return ["f", v.hex() if isinstance(v, float) else repr(v)]
    if kind == "i":
        return ["i", v if type(v) is int else repr(v)]
    return ["b", v if type(v) is bool else repr(v)]


_HOP = {"on": False, "n": 0}


def _apply(stream, op, slots, raw=None):
    """Apply one flat op; with _HOP on, every third op is carried out by another thread (started and joined: one
    after the other, no concurrency) - which thread draws is no input of a stream."""
    _HOP["n"] += 1
    if not (_HOP["on"] and _HOP["n"] % 3 == 2):
        return _apply_here(stream, op, slots, raw)
    import threading
    box = []
    th = threading.Thread(target=lambda: box.append(_apply_here(stream, op, slots, raw)))
    th.start()
    th.join()
    return box[0]


def _apply_here(stream, op, slots, raw=None):
    """Apply one flat op to a stream; returns the output token (None for non-draws)."""
    name = op["op"]
    try:
        if name == "f":
            v = stream.next_float()
        elif name == "i":
            v = stream.next_int(op["a"], op["b"])
        elif name == "b":
            v = stream.next_bool()
        elif name == "seed":
            stream.set_seed(op["a"])
            return None
        elif name == "reset":
            stream.reset()
            return None
        elif name == "save":
            slots[op["a"]] = stream.save_state()
            return None
        else:
            stream.restore_state(slots[op["a"]])
            return None
    except Exception as e:       # everything the code under test may raise becomes an observable token
        return ["exc", type(e).__name__]
    if raw is not None:
        raw.append(v)
    return _token(name, v)


def _exec(flat, seeds, only=None, all_float=False, accessors=None):
    """Run the flat program on freshly constructed streams; returns the list of output tokens (by flat index)."""
    from pydsol.core.streams import MersenneTwister
    streams = [MersenneTwister(s) if (only is None or i == only) else None for i, s in enumerate(seeds)]
    slots = [dict() for _ in seeds]
    outs = [None] * len(flat)
    raws = [None] * len(flat)
    for j, op in enumerate(flat):
        s = op["s"]
        if streams[s] is None:
            continue
        if all_float and op["op"] in _DRAWS:
            op = {"s": s, "op": "f", "a": None, "b": None}
        raw = []
        outs[j] = _apply(streams[s], op, slots[s], raw)
        if raw:
            raws[j] = raw[0]
        if accessors is not None:
            try:
                accessors.append((j, streams[s].seed(), streams[s].original_seed()))
            except Exception as e:
                accessors.append((j, "exc:" + type(e).__name__, None))
    return outs, raws


def _width_class(lo, hi):
    w = hi - lo + 1
    if w == 1:
        return "single"
    if w <= 10:
        return "small"
    if w <= 2 ** 53:
        return "<=2**53"
    if w < 2 ** 200:
        return "2**53..2**200"
    if w.bit_length() < 1024:
        return ">=2**200"
    return "bits>=1024"


def _judge_value(out, op, tok, raw, where):
    """Range and type of one draw."""
    name = op["op"]
    if tok[0] == "exc":
        if name == "i":
            w = op["b"] - op["a"] + 1
            out.fail("next_int-raises:%s:width-bits%s1024" % (tok[1], ">=" if w.bit_length() >= 1024 else "<"),
                     {"at": where, "lo": op["a"], "hi": op["b"]})
        else:
            out.fail("raises:%s:%s" % (name, tok[1]), {"at": where})
        return
    if name == "f":
        if type(raw) is not float:
            out.fail("type:float", {"at": where, "got": repr(raw)})
        elif not (0.0 <= raw < 1.0):
            out.fail("range:float", {"at": where, "got": raw.hex()})
    elif name == "i":
        if type(raw) is not int:
            out.fail("type:int", {"at": where, "got": repr(raw), "lo": op["a"], "hi": op["b"]})
        elif not (op["a"] <= raw <= op["b"]):
            out.fail("range:int", {"at": where, "got": raw, "lo": op["a"], "hi": op["b"],
                                   "beyond_hi_by": raw - op["b"]})
    elif name == "b":
        if type(raw) is not bool:
            out.fail("type:bool", {"at": where, "got": repr(raw)})


def _run_prog(case, out):
    from pydsol.core.streams import MersenneTwister
    seeds = case["seeds"]
    n = len(seeds)
    flat, notes = _expand(case)
    for nt in notes:
        out.label(nt)
    out.label("streams=%d" % n)
    for s in seeds:
        out.label("seed:" + ("zero" if s == 0 else "negative" if s < 0 else "big" if s.bit_length() > 64 else "pos"))

    acc = []
    outs, raws = _exec(flat, seeds, accessors=acc)

    # ---- ranges, types, exceptions
    any_exc = [False] * n
    for j, op in enumerate(flat):
        if op["op"] in _DRAWS:
            if outs[j][0] == "exc":
                any_exc[op["s"]] = True
            _judge_value(out, op, outs[j], raws[j], j)
            if op["op"] == "i":
                out.label("int-width:" + _width_class(op["a"], op["b"]))
                if op["a"] < 0 <= op["b"]:
                    out.label("int-crosses-zero")
                elif op["b"] < 0:
                    out.label("int-negative")
        elif outs[j] is not None:        # a non-draw op raised
            out.fail("raises:%s:%s" % (op["op"], outs[j][1]), {"at": j, "arg": op["a"]})

    # ---- model of 'current seed' (last set_seed / constructor), ambiguity after restore across set_seed
    cur = list(seeds)
    amb = [False] * n
    cur_at = [None] * len(flat)           # current seed after op j (None while ambiguous)
    draws_since_seed = [0] * n
    reset_after_3 = False
    for j, op in enumerate(flat):
        s = op["s"]
        if op["op"] == "seed":
            cur[s] = op["a"]
            amb[s] = False
            draws_since_seed[s] = 0
        elif op["op"] == "restore":
            if op.get("amb"):
                amb[s] = True
        elif op["op"] == "reset":
            if draws_since_seed[s] >= 3:
                reset_after_3 = True
            if cur[s] != seeds[s] and not amb[s]:
                out.label("reset-after-set_seed")
            draws_since_seed[s] = 0
        elif op["op"] in _DRAWS:
            draws_since_seed[s] += 1
        cur_at[j] = None if amb[s] else cur[s]
    for j, sd, osd in acc:
        s = flat[j]["s"]
        if osd != seeds[s]:
            out.fail("accessor:original_seed", {"at": j, "got": repr(osd), "want": seeds[s]})
            break
        if cur_at[j] is not None and sd != cur_at[j]:
            out.fail("accessor:seed", {"at": j, "got": repr(sd), "want": cur_at[j]})
            break

    # ---- Twin
    outs2, _ = _exec(flat, seeds)
    if outs2 != outs:
        j = next(i for i in range(len(flat)) if outs[i] != outs2[i])
        out.fail("twin", {"at": j, "op": flat[j]["op"], "first": outs[j], "twin": outs2[j]})

    # ---- Restore: re-issued ops repeat the outputs they had after the save
    replayed_draws = {}
    for j, op in enumerate(flat):
        m = op["mirror"]
        if m is not None and op["op"] in _DRAWS:
            if outs[j] != outs[m]:
                out.fail("restore", {"at": j, "mirror_of": m, "op": op["op"], "after_save": outs[m],
                                     "after_restore": outs[j]})
                break
    best_replay = 0
    run = 0
    for j, op in enumerate(flat):
        if op["op"] == "restore":
            run = 0
            k = j + 1
            while k < len(flat) and flat[k]["mirror"] is not None and flat[k]["s"] == op["s"]:
                if flat[k]["op"] in _DRAWS:
                    run += 1
                k += 1
            best_replay = max(best_replay, run)
    if best_replay:
        out.label("restore-replay>=3" if best_replay >= 3 else "restore-replay<3")

    # ---- Independence: every stream alone - and after many other streams were created in between (the sequence
    #      of a stream depends on its seed only, not on which streams the process created before it)
    from vlib.runner import digest
    eqh = any(hash(a) == hash(b) and a != b for a in seeds for b in seeds)
    if eqh:
        out.label("seeds-with-equal-hash")
    if eqh or digest(case)[3] % 4 == 0:
        out.label("unrelated-streams-in-between")
        for i in range(300):
            MersenneTwister(10 ** 6 + i)
    solo = [None] * n
    for s in range(n):
        so, _ = _exec(flat, seeds, only=s)
        solo[s] = so
        if n >= 2:
            for j, op in enumerate(flat):
                if op["s"] == s and so[j] != outs[j]:
                    out.fail("independence", {"stream": s, "at": j, "op": op["op"], "interleaved": outs[j],
                                              "alone": so[j]})
                    break

    # ---- Step: every draw advances the stream by exactly one position
    for s in range(n):
        if any_exc[s]:
            out.label("step-skipped:exception")
            continue
        sk, _ = _exec(flat, seeds, only=s, all_float=True)
        for j, op in enumerate(flat):
            if op["s"] == s and op["op"] == "f" and sk[j] != solo[s][j]:
                prev = [flat[i]["op"] for i in range(j) if flat[i]["s"] == s][-4:]
                out.fail("step", {"stream": s, "at": j, "got": solo[s][j], "all_float_program": sk[j],
                                  "preceding_ops": prev})
                break

    # ---- Reset / set_seed: from there on the stream equals a freshly constructed stream with the current seed
    checked = 0
    for j, op in enumerate(flat):
        if op["op"] not in ("reset", "seed") or cur_at[j] is None:
            continue
        s = op["s"]
        fresh = MersenneTwister(cur_at[j])
        fslots = {}
        for k in range(j + 1, len(flat)):
            o2 = flat[k]
            if o2["s"] != s:
                continue
            if o2["op"] == "restore":
                if o2["a"] not in fslots:
                    break                 # state saved before the reset: not available to the fresh stream
            tok = _apply(fresh, o2, fslots)
            if o2["op"] in _DRAWS:
                checked += 1
                if tok != outs[k]:
                    out.fail("reset" if op["op"] == "reset" else "set_seed-fresh",
                             {"at": j, "current_seed": cur_at[j], "draw_at": k, "op": o2["op"],
                              "stream": outs[k], "fresh_stream": tok})
                    break
        if checked > 4000:
            break

    # ---- non-trivial rule
    interleave = False
    last = None
    for op in flat:
        if op["op"] in _DRAWS:
            if last is not None and last != op["s"]:
                interleave = True
                break
            last = op["s"]
    if interleave:
        out.label("interleaved")
    if reset_after_3:
        out.label("reset-after>=3-draws")
    out.nontrivial = bool(n >= 2 and interleave and (best_replay >= 3 or reset_after_3))
    out.info = {"flat_ops": len(flat), "streams": n}


class _Stub:
    """Stand-in for the wrapped random.Random: constant or scripted uniforms."""

    def __init__(self, values):
        self.values = values
        self.i = 0

    def random(self):
        v = self.values[self.i % len(self.values)]
        self.i += 1
        return v


def _stub_u(u):
    if u == "min":
        return 0.0
    if u == "max":
        return U_MAX
    if u == "eps":
        return U_EPS
    return float.fromhex(u)


def _run_stub(case, out):
    from pydsol.core.streams import MersenneTwister
    m = MersenneTwister(1)
    if not hasattr(m, "_random"):
        out.label("stub-skipped")
        return
    u = _stub_u(case["u"])
    out.label("stub-u:" + (case["u"] if case["u"] in ("min", "max", "eps") else "other"))
    try:
        m._random = _Stub([u])
    except AttributeError:              # (the wrapped generator cannot be replaced in this version of the class)
        out.label("stub-skipped")
        return
    for lo, hi in case["ranges"]:
        op = {"op": "i", "a": lo, "b": hi}
        raw = []
        tok = _apply(m, op, None, raw)
        out.label("int-width:" + _width_class(lo, hi))
        _judge_value(out, op, tok, raw[0] if raw else None, {"u": u.hex()})
    raw = []
    tok = _apply(m, {"op": "f"}, None, raw)
    _judge_value(out, {"op": "f"}, tok, raw[0] if raw else None, {"u": u.hex()})
    raw = []
    tok = _apply(m, {"op": "b"}, None, raw)
    _judge_value(out, {"op": "b"}, tok, raw[0] if raw else None, {"u": u.hex()})


def _run_cover(case, out, grid):
    from pydsol.core.streams import MersenneTwister
    lo, w, per = case["lo"], case["w"], case["per"]
    hi = lo + w - 1
    if grid:
        m = MersenneTwister(1)
        if not hasattr(m, "_random"):
            out.label("stub-skipped")
            return
        total = per * w
        try:
            m._random = _Stub([j / total for j in range(total)])
        except AttributeError:
            out.label("stub-skipped")
            return
        out.label("grid")
    else:
        m = MersenneTwister(case["seed"])
        total = per * w
        out.label("cover")
    seen = set()
    op = {"op": "i", "a": lo, "b": hi}
    for _ in range(total):
        raw = []
        tok = _apply(m, op, None, raw)
        _judge_value(out, op, tok, raw[0] if raw else None, "cover")
        if out.disc:
            return
        seen.add(raw[0])
    missing = [v - lo for v in range(lo, hi + 1) if v not in seen]
    if missing:
        k = "upper" if missing == [w - 1] else "lower" if missing == [0] else "some"
        out.fail("coverage:%s-bound-never-drawn" % k if k != "some" else "coverage:values-never-drawn",
                 {"lo": lo, "hi": hi, "draws": total, "missing_offsets": missing[:10]})
    out.label("cover-width=%d" % w)


def _run_info(case, out):
    """The default streams of separately created StreamInformation / StreamSeedInformation objects are separate
    streams (seed 10 each): draws from one never alter another, each starts at the sequence of MersenneTwister(10)."""
    from pydsol.core.streams import MersenneTwister, StreamInformation, StreamSeedInformation
    classes = [StreamInformation if k == 0 else StreamSeedInformation for k in case["objs"]]
    infos = []
    expected = []
    for cls, n in zip(classes, case["draws"]):
        try:
            info = cls()
            s = info.get_stream("default")
        except Exception as e:
            out.fail("raises:info:" + type(e).__name__, repr(e))
            return
        infos.append(info)
        ref = MersenneTwister(10)
        want = [ref.next_float() for _ in range(n)]
        got = [s.next_float() for _ in range(n)]      # drawn AFTER the earlier objects were used
        if got != want:
            out.fail("independence:default-streams-of-separate-info-objects",
                     {"object": len(infos) - 1, "draws": n, "first_got": got[:2], "first_want": want[:2]})
            return
        expected.append((s, ref))
    for a in range(len(infos)):
        for b in range(a + 1, len(infos)):
            if infos[a].get_stream("default") is infos[b].get_stream("default"):
                out.fail("independence:default-stream-object-shared", [a, b])
                return
    for s, ref in expected:                            # and they continue independently
        if s.next_float() != ref.next_float():
            out.fail("independence:default-streams-of-separate-info-objects", "continuation")
            return
    # an id that is looked up, then registered again with another stream (the documented overwrite), then looked up
    # again: the registry hands out the stream that is registered now
    try:
        first = MersenneTwister(77)
        infos[-1].add_stream("replaced", first)
        if infos[-1].get_stream("replaced") is not first:
            out.fail("registry:stale-stream", "first lookup")
            return
        second = MersenneTwister(78)
        infos[-1].add_stream("replaced", second)
        got = infos[-1].get_stream("replaced")
        if got is not second or infos[-1].get_streams().get("replaced") is not second:
            out.fail("registry:stale-stream", "after add_stream with the same id the old stream is still handed out")
            return
    except Exception as e:
        out.fail("raises:info:" + type(e).__name__, repr(e))
        return
    # one stream object registered under two ids: either both ids name that very object, or - if the container keeps
    # objects of its own - streams that do not influence each other
    try:
        shared = MersenneTwister(5)
        infos[0].add_stream("alias-a", shared)
        infos[0].add_stream("alias-b", shared)
        sa, sb = infos[0].get_stream("alias-a"), infos[0].get_stream("alias-b")
        if sa is not sb:
            ref = MersenneTwister(5)
            for _ in range(3):
                sa.next_float()
            if [sb.next_float() for _ in range(2)] != [ref.next_float() for _ in range(2)]:
                out.fail("independence:two-ids-share-generator-state", "draws from one id advanced the other")
                return
    except Exception as e:
        out.fail("raises:info:" + type(e).__name__, repr(e))
        return
    out.nontrivial = len(infos) >= 2 and sum(case["draws"]) >= 2
    out.label("info-objects=%d" % len(infos))


def _run_reseed(case, out):
    from pydsol.core.streams import MersenneTwister, StreamSeedUpdater, SimpleStreamUpdater
    stream = MersenneTwister(case["orig"])
    other = MersenneTwister(case["orig"])
    # (a second stream - same original seed, idle, so at times in exactly the same state as the first - with its own
    #  seed list is served by the same updater)
    table2 = [case["table"][0]] + [x + 1000 for x in case["table"][1:]]
    upd = StreamSeedUpdater({"s": list(case["table"]), "t": table2}) if case["updater"] == "seeded" \
        else SimpleStreamUpdater()
    ties = 0
    drawn = 0
    for si, (r, n) in enumerate(case["steps"]):
        if case["updater"] == "seeded":
            r = r % len(case["table"])
        before = stream.seed()
        used = n_prev = drawn
        try:
            if si % 2:
                upd.update_seed("s", stream, r)
            else:
                upd.update_seeds({"s": stream, "t": other}, r)        # the bulk entry point
                if case["updater"] == "seeded" and other.seed() != table2[r]:
                    out.fail("set_seed-fresh", {"r": r, "stream": "t", "seed": other.seed(), "want": table2[r]})
                    return
                if si % 4 == 0 and [other.next_float().hex() for _ in range(2)] != \
                        [f_.next_float().hex() for f_ in [MersenneTwister(other.seed())] for _ in range(2)]:
                    out.fail("reseed-with-unchanged-seed", {"r": r, "stream": "t"})
                    return
        except Exception as e:
            out.fail("raises:update_seed:" + type(e).__name__, {"r": r, "error": repr(e)})
            return
        sd = stream.seed()
        if case["updater"] == "seeded" and sd != case["table"][r]:
            out.fail("set_seed-fresh", {"r": r, "stream": "s", "seed": sd, "want": case["table"][r]})
            return
        if sd == before and used:
            ties += 1
        ref = MersenneTwister(sd)
        got = [stream.next_float().hex() for _ in range(n)]
        want = [ref.next_float().hex() for _ in range(n)]
        drawn = n
        if got != want:
            out.fail("set_seed-fresh" if sd != before else "reseed-with-unchanged-seed",
                     {"r": r, "seed": sd, "seed_before": before, "drawn_before": n_prev, "got": got[:2], "want": want[:2]})
            return
    if ties:
        out.label("re-seeded-with-its-current-seed")
    out.nontrivial = ties >= 1
    out.label("updater=" + case["updater"])


def _run_clone(case, out):
    import copy
    from pydsol.core.streams import MersenneTwister

    def draw(st_, k):
        if k == "f":
            return st_.next_float().hex()
        if k == "i":
            return st_.next_int(-7, 1000)
        if k == "b":
            return st_.next_bool()
        st_.reset()
        return "reset"
    try:
        orig = MersenneTwister(case["seed"])
        pre = [draw(orig, k) for k in case["pre"]]
        import pickle
        by_pickle = case["seed"] % 2 == 1
        clone = pickle.loads(pickle.dumps(orig)) if by_pickle else copy.deepcopy(orig)
        # references: two more streams brought to the same point, each then sees only its own operations
        refs = []
        for _ in range(2):
            r = MersenneTwister(case["seed"])
            if [draw(r, k) for k in case["pre"]] != pre:
                out.fail("twin", "same seed, same draws, different outputs")
                return
            refs.append(r)
        pair = [orig, clone]
        for who, k in case["ops"]:
            got = draw(pair[who], k)
            want = draw(refs[who], k)
            if got != want:
                out.fail("independence:deep-copy-shares-state", {"stream": "copy" if who else "original", "op": k,
                                                                 "got": got, "want": want})
                return
        if clone.seed() != orig.seed() or clone.original_seed() != orig.original_seed():
            out.fail("independence:deep-copy-shares-state", "seed accessors differ")
        # a stream created without a seed has a seed all the same (it reports it): reset() replays its sequence
        # and a stream created with that seed repeats it
        if case["seed"] % 4 == 0:
            un = MersenneTwister()
            first = [un.next_float().hex() for _ in range(3)]
            un.reset()
            again = [un.next_float().hex() for _ in range(3)]
            other = MersenneTwister(un.seed())
            same = [other.next_float().hex() for _ in range(3)]
            if first != again or first != same or un.seed() != un.original_seed():
                out.fail("reset:unseeded-stream", {"seed": un.seed(), "first": first, "after_reset": again,
                                                   "stream_with_that_seed": same})
                return
        # a copy (shallow, deep or pickled) of a stream that was given another seed has that seed: it reports it and
        # reset() replays it
        for how, copier in (("copy", copy.copy), ("deepcopy", copy.deepcopy),
                            ("pickle", lambda x: pickle.loads(pickle.dumps(x)))):
            src = MersenneTwister(case["seed"])
            other_seed = case["seed"] + 12345
            src.set_seed(other_seed)
            src.next_float()
            c = copier(src)
            seeds = [c.seed(), c.original_seed()]
            c.reset()
            first = c.next_float().hex()
            want = MersenneTwister(other_seed).next_float().hex()
            if seeds != [other_seed, case["seed"]] or first != want:
                out.fail("reset:copied-stream:" + how, {"seeds": seeds, "want_seeds": [other_seed, case["seed"]],
                                                        "first_after_reset": first, "want": want})
                return
    except Exception as e:
        out.fail("raises:clone:" + type(e).__name__, repr(e))
        return
    both = {w for w, _ in case["ops"]}
    out.nontrivial = len(both) == 2 and "f" in case["pre"]
    out.label("deep-copy")


def run_case(case):
    out = Outcome()
    kind = case.get("kind", "prog")
    out.label("kind=" + kind)
    if kind == "prog":
        from vlib.runner import digest
        _HOP["on"], _HOP["n"] = digest(case)[0] % 3 == 0, 0
        if _HOP["on"]:
            out.label("draws-from-several-threads")
        try:
            _run_prog(case, out)
        finally:
            _HOP["on"] = False
    elif kind == "stub":
        _run_stub(case, out)
    elif kind == "cover":
        _run_cover(case, out, grid=False)
    elif kind == "grid":
        _run_cover(case, out, grid=True)
    elif kind == "info":
        _run_info(case, out)
    elif kind == "reseed":
        _run_reseed(case, out)
    elif kind == "clone":
        _run_clone(case, out)
    else:
        raise ValueError("unknown case kind %r" % kind)
    return out


LEVEL_TEXT = "exploration"
LEVEL_NOTE = ("metamorphic relations on generated programs; the stub supplement is exhaustive only over the listed "
              "table of ranges and three extreme uniforms")
TECHNIQUE = "Hypothesis op-list programs + metamorphic oracle (twin / reset / restore / independence / step) + stubbed generator"


RULE = RULE + " " + 'Later additions: in a third of the histories every third operation is carried out by another thread (started and joined, no concurrency).'
RULE = RULE + (" Round 20: in a quarter of the cases (and whenever two seeds have equal hash()) 300 unrelated streams are created between the interleaved run and the run of every stream "
               "alone; one case in six pairs two distinct seeds with equal hash().")
