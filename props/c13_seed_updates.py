"""C13 - seed updates depend only on stream name, original seed / seed list and replication number.

Case (JSON):
  {"streams": [[name, original_seed, pre, cur], ...]   distinct names in listing order; before the update the stream
                                                       gets set_seed(cur) (cur != null) and consumes `pre` floats
   "table":   [[k | "foreign name", [seed, ...]], ...] seed lists; k = index into streams (modulo), str = a name that
                                                       is not a stream (must be irrelevant)
   "r":       ["int", r] | ["rel", k, off] | ["float", hex] | ["str", s] | ["none"]
                                                       rel: r = len(k-th seed list) + off (boundary of that list)
   "perm":    int      second listing order (Lehmer code; reversed when that is the identity)
   "drop":    int      bit mask of streams removed in the 'remove' variant
   "extra":   [[name, original_seed], ...]             streams added in the 'add' variant
   "prior":   null | r0                                an earlier update for replication r0 precedes the update}

run_case judges one interpreter; parent_checks runs the same observations in child interpreters started with
different PYTHONHASHSEED values and compares them (props/_c13_child.py).
"""
import json
import os
import subprocess
import sys

from vlib.runner import Inconclusive, Outcome, digest

ID = "C13"
RULE = ("Hypothesis configurations: 1-5 named streams (ASCII, Unicode, empty, blank, NUL, 1000-char names), original "
        "seeds from {0, 1, -1, 10, +-2**63, 2**64+1} and arbitrary ints, prior history of each stream (set_seed, 0-5 "
        "draws, an earlier update) and of the updater instance (it served other streams with the same names), seed tables over a subset of the names with lists of length 0-8 plus foreign "
        "names, replication numbers 0-8, list-length boundaries (len-1, len, len+1), 10**6, 2**40, 2**64, negative, "
        "float, str, None; two listing orders. In-process oracle: listed stream -> seed == table[name][r] and draws "
        "of a fresh stream with that seed; unlisted stream -> exactly what get_fallback_stream_updater() alone gives "
        "(also with a custom fallback double); both listing orders, sub-/supersets of the streams, singletons, two StreamInformation sets (default stream included) updated one after the other, and any "
        "prior history give every stream the same (seed, 3 draws); fallback seed changes with the original seed and "
        "with r; negative / ill-typed / beyond-list r raises TypeError or ValueError and the refused stream keeps seed "
        "and next draws. Cross-process oracle (parent_checks): the observation of every configuration (both updaters, "
        "both orders, singletons) is identical in 5 child interpreters with PYTHONHASHSEED 0, 1, 4242, random, random. "
        "Non-trivial = >=2 names of which >=1 unlisted, valid r >= 1; distinct = distinct case digests.")
ASSUMPTIONS = [
    "stream names contain no lone surrogates (Hypothesis text default); bool is not used as replication number",
    "when update_seeds refuses (r beyond the list of one stream) the other streams may be updated or not - only the "
    "refused streams are required to be unchanged (the property speaks about 'that stream')",
    "a listed stream whose list covers r gets exactly table[name][r] (class docstring: seeds are predetermined per "
    "replication number)",
    "'depends on' is read as: the fallback seed differs for original seeds s / s+1 and for r / r+1 (module docstring: "
    "different replications use different values); collisions between different names are not judged",
    "child interpreters are CPython /venv/bin/python on this machine; other platforms are not covered",
]
NONTRIVIAL_FLOOR = 0.10
HASHSEEDS = ["0", "1", "4242", "random", "random"]
CHILD = os.path.join(os.path.dirname(os.path.abspath(__file__)), "_c13_child.py")

_NAMES = ["default", "a", "b", "arrivals", "service", "", " ", "\t", "\x00", "0", "流", "séjour", "Ω",
          "\U0001f600", "x" * 1000, "é" * 300, "default ", "Default", "a\nb", "stream-1", "stream-2",
          "\ud800", "run-\udcff.dat"]     # lone surrogates (e.g. os.fsdecode of a non-UTF-8 file name) are valid str
_ORIG = [0, 1, -1, 10, 2 ** 63, -2 ** 63, 2 ** 64 + 1, 101]
_BIG_R = [10 ** 6, 2 ** 40, 2 ** 64]


def budget(tier):
    if tier == "quick":
        return {"examples": 2400, "shards": 8, "configs": 200}
    return {"examples": 80000, "shards": 16, "configs": 20000}


# ---------------------------------------------------------------- strategy
def _case_strategy(valid_only=False):
    from hypothesis import strategies as st
    name = st.one_of(st.sampled_from(_NAMES), st.text(max_size=6),
                     st.text(alphabet="abcdefgXYZ_0123456789", min_size=1, max_size=10))
    orig = st.one_of(st.sampled_from(_ORIG), st.integers(-1000, 1000), st.integers())
    seedval = st.one_of(st.integers(0, 1000), st.integers())

    @st.composite
    def case(draw):
        n = draw(st.sampled_from([1, 2, 2, 3, 3, 4, 5]))
        names = draw(st.lists(name, min_size=n, max_size=n, unique=True))
        streams = []
        for nm in names:
            hist = draw(st.integers(0, 3))
            pre = draw(st.integers(1, 5)) if hist in (1, 3) else 0
            cur = draw(orig) if hist in (2, 3) else None
            streams.append([nm, draw(orig), pre, cur])
        w = draw(st.integers(0, 99))
        if valid_only:
            w = w % 75
        if w < 45:
            r = ["int", draw(st.sampled_from([0, 0, 1, 1, 2, 3, 4, 5, 8]))]
        elif w < 65:
            r = ["rel", draw(st.integers(0, 4)), draw(st.sampled_from([-1, -1, 0, 0, 1, 2]))]
        elif w < 75:
            r = ["int", draw(st.sampled_from(_BIG_R))]
        elif w < 84:
            r = ["int", -draw(st.one_of(st.integers(1, 3), st.integers(1, 2 ** 70)))]
        elif w < 91:
            r = ["float", draw(st.sampled_from([1.0, 0.0, 0.5, -1.0, 2.0, float("nan"), float("inf")])).hex()]
        elif w < 97:
            r = ["str", draw(st.sampled_from(["1", "0", "", "one", "-1"]))]
        else:
            r = ["none"]
        # seed lists: mostly long enough for a small r (so that whole-dict updates succeed), otherwise any length
        cover = r[1] + 1 if (r[0] == "int" and 0 <= r[1] <= 8 and draw(st.integers(0, 9)) < 7) else None
        table = []
        for k in range(n):
            if draw(st.integers(0, 9)) < 5:
                if cover is not None:
                    ln = cover + draw(st.sampled_from([0, 0, 1, 3]))
                else:
                    ln = draw(st.sampled_from([0, 1, 2, 3, 3, 5, 8]))
                table.append([k, draw(st.lists(seedval, min_size=ln, max_size=ln))])
        if draw(st.integers(0, 5)) == 0:
            table.append(["~foreign~" + draw(st.text(max_size=3)), draw(st.lists(seedval, max_size=3))])
        extra = []
        for _ in range(draw(st.integers(0, 2))):
            extra.append([draw(name), draw(orig)])
        prior = draw(st.one_of(st.none(), st.integers(0, 8)))
        return {"streams": streams, "table": table, "r": r, "perm": draw(st.integers(0, 119)),
                "drop": draw(st.integers(0, 31)), "extra": extra, "prior": prior}

    return case()


def strategy(tier):
    return _case_strategy()


# ---------------------------------------------------------------- decoding
def _perm(n, k):
    items = list(range(n))
    out = []
    for i in range(n, 0, -1):
        k, j = divmod(k, i)
        out.append(items.pop(j))
    if out == list(range(n)):
        out.reverse()
    return out


def _decode(case):
    """-> (specs, table, r, rkind): specs = [(name, orig, pre, cur)], table = {name: [seeds]} in listing order."""
    specs = []
    seen = set()
    for nm, og, pre, cur in case["streams"]:
        if nm in seen:
            continue
        seen.add(nm)
        specs.append((nm, og, pre, cur))
    table = {}
    lists_in_order = []
    for key, seeds in case["table"]:
        if isinstance(key, int):
            nm = specs[key % len(specs)][0]
        else:
            nm = key
            if nm in seen:
                continue
        if nm not in table:
            lists_in_order.append(seeds)
        table[nm] = list(seeds)
    rs = case["r"]
    if rs[0] == "int":
        r, rkind = rs[1], ("negative" if rs[1] < 0 else "int")
    elif rs[0] == "rel":
        if lists_in_order:
            r = len(lists_in_order[rs[1] % len(lists_in_order)]) + rs[2]
        else:
            r = 1 + rs[2]
        rkind = "negative" if r < 0 else "int"
    elif rs[0] == "float":
        r, rkind = float.fromhex(rs[1]), "float"
    elif rs[0] == "str":
        r, rkind = rs[1], "str"
    else:
        r, rkind = None, "none"
    return specs, table, r, rkind


def _build(specs, plain=False):
    """Dict name -> MersenneTwister in the order of specs, brought into its prior history."""
    from pydsol.core.streams import MersenneTwister
    d = {}
    for nm, og, pre, cur in specs:
        s = MersenneTwister(og)
        if not plain:
            if cur is not None:
                s.set_seed(cur)
            if cur is not None and pre:
                # the generator state of another stream was copied into this one earlier (restore_state): that is a
                # state, not an identity - the stream keeps its own original seed
                donor = MersenneTwister(og + 123)
                donor.next_float()
                s.restore_state(donor.save_state())
            for i_ in range(pre):
                s.next_float()
                for _b in range(i_ + 1):       # 1, 2, 3.. boolean draws: not a multiple of any word size
                    s.next_bool()
                s.next_int(0, 9)
        d[nm] = s
    return d


def _obs(stream):
    sd = stream.seed()
    # saving and restoring the state right after the update is a no-op (a model may snapshot its streams at the start
    # of a replication): the draws are still those of the seed
    stream.restore_state(stream.save_state())
    obs = [sd, stream.next_float().hex(), stream.next_float().hex(), stream.next_float().hex(),
           "".join("1" if stream.next_bool() else "0" for _ in range(8)), stream.next_int(-5, 1000)]
    # a replication that is run again on the kept stream object: reset() replays the sequence of the CURRENT seed
    stream.reset()
    obs.append([stream.seed(), stream.next_float().hex()])
    return obs


def _obs_all(d):
    return {nm: _obs(s) for nm, s in d.items()}


def _call(fn, *a):
    """-> name of the exception type or None."""
    try:
        fn(*a)
    except Exception as e:
        return type(e).__name__
    return None


def _simple():
    from pydsol.core.streams import SimpleStreamUpdater
    return SimpleStreamUpdater()


def _seeded(table):
    from pydsol.core.streams import StreamSeedUpdater
    return StreamSeedUpdater({k: list(v) for k, v in table.items()})


def _whole(make, specs, r, plain=False, prior=None, other_first=None):
    """update_seeds over all streams of specs; -> {"exc": name|None, "obs": {name: obs}}.
    other_first: the same updater instance first serves ANOTHER set of streams (same names, other original seeds)"""
    d = _build(specs, plain)
    upd = make()
    if other_first is not None:
        _call(upd.update_seeds, _build(other_first, True), r)
    if prior is not None:
        _call(upd.update_seeds, d, prior)
    exc = _call(upd.update_seeds, d, r)
    return {"exc": exc, "obs": _obs_all(d)}


def observe(case):
    """Observation of one configuration that must be the same in every interpreter process (JSON-able)."""
    specs, table, r, rkind = _decode(case)
    order2 = [specs[i] for i in _perm(len(specs), case["perm"])]
    table2 = dict(reversed(list(table.items())))
    res = {}
    for uname, mk1, mk2 in (("simple", _simple, _simple),
                            ("seeded", lambda: _seeded(table), lambda: _seeded(table2))):
        res[uname] = {
            "order1": _whole(mk1, specs, r),
            "order2": _whole(mk2, order2, r),
            "single": {sp[0]: _whole(mk1, [sp], r) for sp in specs},
        }
    return res


# ---------------------------------------------------------------- in-process oracle
REFUSAL = ("TypeError", "ValueError")


class _Fallback:
    """Custom fallback updater double (built lazily because the base class comes from the code under test)."""
    _cls = None

    @classmethod
    def make(cls):
        if cls._cls is None:
            from pydsol.core.streams import StreamUpdater

            class ProbeUpdater(StreamUpdater):
                def __init__(self):
                    self.calls = []

                def update_seed(self, key, stream, replication_nr):
                    self.calls.append(key)
                    stream.set_seed(424242 + 7 * replication_nr)

            cls._cls = ProbeUpdater
        return cls._cls()


def _judge_refusal(out, what, rkind, res, unchanged, names):
    """res = {"exc","obs"} of a call that must be refused for the streams in `names`."""
    if res["exc"] is None:
        out.fail("refusal-missing:%s:%s" % (rkind, what), {"streams": sorted(names)[:3], "obs": res["obs"]})
    elif res["exc"] not in REFUSAL:
        out.fail("refusal-wrong-exception:%s:%s:%s" % (res["exc"], rkind, what), {"streams": sorted(names)[:3]})
    for nm in names:
        if res["obs"][nm] != unchanged[nm]:
            out.fail("refusal-changed-stream:%s:%s" % (rkind, what),
                     {"stream": nm, "before": unchanged[nm], "after": res["obs"][nm], "exc": res["exc"]})
            break


def run_case(case):
    from pydsol.core.streams import MersenneTwister
    out = Outcome()
    specs, table, r, rkind = _decode(case)
    names = [sp[0] for sp in specs]
    n = len(specs)
    order2 = [specs[i] for i in _perm(n, case["perm"])]
    table2 = dict(reversed(list(table.items())))
    listed = [nm for nm in names if nm in table]
    unlisted = [nm for nm in names if nm not in table]
    out.label("r:" + rkind, "streams=%d" % n)
    if unlisted and listed:
        out.label("mixed-listed-unlisted")
    elif unlisted:
        out.label("all-unlisted")
    else:
        out.label("all-listed")
    for nm in names:
        if nm == "" or nm.isspace() or nm == "\x00":
            out.label("name:empty-ish")
        elif len(nm) >= 300:
            out.label("name:long")
        elif not nm.isascii():
            out.label("name:unicode")
    unchanged = _obs_all(_build(specs))
    makers = (("simple", lambda: _simple(), lambda: _simple()),
              ("seeded", lambda: _seeded(table), lambda: _seeded(table2)))

    # ------------------------------------------------------------ refused replication numbers
    if rkind != "int":
        for uname, mk1, _mk2 in makers:
            _judge_refusal(out, uname + ":update_seeds", rkind, _whole(mk1, specs, r), unchanged, names)
            d = _build(specs)
            upd = mk1()
            for nm in names:
                exc = _call(upd.update_seed, nm, d[nm], r)
                _judge_refusal(out, uname + ":update_seed", rkind, {"exc": exc, "obs": {nm: _obs(d[nm])}},
                               unchanged, [nm])
        out.info = {"r": repr(r)}
        return out

    beyond = [nm for nm in listed if r >= len(table[nm])]
    if beyond:
        out.label("beyond-list")
    if any(r == len(table[nm]) for nm in listed):
        out.label("r==len(list)")
    if any(r == len(table[nm]) - 1 for nm in listed):
        out.label("r==len(list)-1")
    if r >= 10 ** 6:
        out.label("r:large")

    # ------------------------------------------------------------ SimpleStreamUpdater alone
    exp_simple = {}
    simple_ok = True
    for sp in specs:
        res = _whole(_simple, [sp], r)
        if res["exc"] is not None:
            out.fail("simple-raises:" + res["exc"], {"stream": sp[0], "r": r})
            simple_ok = False
        exp_simple[sp[0]] = res["obs"][sp[0]]
    if simple_ok:
        _relations(out, "simple", _simple, _simple, specs, order2, r, exp_simple, unchanged, [], case)
        # the seed reported after the update is the seed of the sequence that is drawn
        for nm in names:
            f = MersenneTwister(exp_simple[nm][0])
            if [f.next_float().hex() for _ in range(3)] != exp_simple[nm][1:4] or \
                    exp_simple[nm][6] != [exp_simple[nm][0], exp_simple[nm][1]]:
                out.fail("seed-draws-mismatch:simple", {"stream": nm, "obs": exp_simple[nm]})
                break
        # sensitivity: the fallback seed depends on the original seed and on the replication number
        for nm, og, pre, cur in specs[:3]:
            o1 = _whole(_simple, [(nm, og + 1, pre, cur)], r)
            if o1["exc"] is None and o1["obs"][nm][0] == exp_simple[nm][0]:
                out.fail("fallback-insensitive:original-seed", {"stream": nm, "orig": [og, og + 1], "r": r,
                                                                "seed": exp_simple[nm][0]})
            o2 = _whole(_simple, [(nm, og, pre, cur)], r + 1)
            if o2["exc"] is None and o2["obs"][nm][0] == exp_simple[nm][0]:
                out.fail("fallback-insensitive:replication", {"stream": nm, "r": [r, r + 1],
                                                              "seed": exp_simple[nm][0]})

    # ------------------------------------------------------------ stream sets held by StreamInformation objects
    if simple_ok and r <= 10 ** 6:
        _info_sets(out, specs, r)
        _copies(out, specs, r)

    # ------------------------------------------------------------ StreamSeedUpdater
    exp_seeded = {}
    seeded_ok = True
    for sp in specs:
        nm = sp[0]
        res = _whole(lambda: _seeded(table), [sp], r)
        exp_seeded[nm] = res["obs"][nm]
        if nm in beyond:
            _judge_refusal(out, "seeded:update_seeds", "beyond", res, unchanged, [nm])
            d = _build([sp])
            exc = _call(_seeded(table).update_seed, nm, d[nm], r)
            _judge_refusal(out, "seeded:update_seed", "beyond", {"exc": exc, "obs": _obs_all(d)}, unchanged, [nm])
            exp_seeded[nm] = unchanged[nm]
        elif nm in table:
            if res["exc"] is not None:
                out.fail("listed-raises:" + res["exc"], {"stream": nm, "r": r, "list_len": len(table[nm])})
                seeded_ok = False
                continue
            want = table[nm][r]
            if res["obs"][nm][0] != want:
                out.fail("listed-seed", {"stream": nm, "r": r, "list": table[nm][:9], "got": res["obs"][nm][0],
                                         "want": want})
            got = res["obs"][nm][0]
            f = MersenneTwister(got if type(got) is int else want)
            if [f.next_float().hex() for _ in range(3)] != res["obs"][nm][1:4] or \
                    res["obs"][nm][6] != [res["obs"][nm][0], res["obs"][nm][1]]:
                out.fail("seed-draws-mismatch:seeded", {"stream": nm, "obs": res["obs"][nm]})
        else:
            if res["exc"] is not None:
                out.fail("unlisted-raises:" + res["exc"], {"stream": nm, "r": r, "table_names": sorted(table)[:5]})
                seeded_ok = False
                continue
            # exactly what the fallback updater alone gives
            upd = _seeded(table)
            d = _build([sp])
            exc = _call(upd.get_fallback_stream_updater().update_seed, nm, d[nm], r)
            alone = _obs(d[nm])
            if exc is not None or alone != res["obs"][nm]:
                out.fail("fallback-mismatch", {"stream": nm, "r": r, "via_seed_updater": res["obs"][nm],
                                               "fallback_alone": alone, "fallback_exc": exc})
            # the seed table may be any dict - also one that makes up entries when it is asked for a missing key
            import collections
            from pydsol.core.streams import StreamSeedUpdater as _SSU
            dd = collections.defaultdict(list, {k: list(v) for k, v in table.items()})
            d = _build([sp])
            exc = _call(_SSU(dd).update_seeds, d, r)
            if exc is not None or _obs(d[nm]) != alone or nm in dd:
                out.fail("fallback-mismatch:defaultdict-table", {"stream": nm, "r": r, "exc": exc,
                                                                "table_gained_the_name": nm in dd})
            # a custom fallback is the one that serves the stream
            upd = _seeded(table)
            probe = _Fallback.make()
            upd.set_fallback_stream_updater(probe)
            d = _build([sp])
            exc = _call(upd.update_seeds, d, r)
            if exc is not None or probe.calls != [nm] or d[nm].seed() != 424242 + 7 * r:
                out.fail("custom-fallback-not-used", {"stream": nm, "exc": exc, "calls": probe.calls,
                                                      "seed": d[nm].seed()})
            # a chained fallback - another seed updater that does list the stream - serves it as long as it is the
            # fallback; once the fallback is replaced, the stream is served by the new one, and an updater built on
            # the same configuration never knew the chained list
            if not (type(r) is int and 0 <= r <= 64):
                continue
            from pydsol.core.streams import StreamSeedUpdater
            own = {k: list(v) for k, v in table.items()}
            upd = StreamSeedUpdater(own)
            chained = {nm: [9001 + 13 * i for i in range(r + 2)]}
            upd.set_fallback_stream_updater(_seeded(chained))
            d = _build([sp])
            exc = _call(upd.update_seeds, d, r)
            if exc is not None or d[nm].seed() != 9001 + 13 * r:
                out.fail("chained-fallback-not-used", {"stream": nm, "r": r, "exc": exc, "seed": d[nm].seed()})
            # a chained updater that lists nothing itself hands the stream on to ITS fallback (the default one)
            upd2 = StreamSeedUpdater({k: list(v) for k, v in table.items()})
            upd2.set_fallback_stream_updater(_seeded({}))
            d = _build([sp])
            exc = _call(upd2.update_seeds, d, r)
            if exc is not None or _obs(d[nm]) != alone:
                out.fail("chained-fallback-not-used", {"stream": nm, "r": r, "exc": exc, "second tier": "empty table"})
            probe = _Fallback.make()
            upd.set_fallback_stream_updater(probe)
            d = _build([sp])
            exc = _call(upd.update_seeds, d, r)
            if exc is not None or probe.calls != [nm] or d[nm].seed() != 424242 + 7 * r:
                out.fail("replaced-fallback-not-used", {"stream": nm, "exc": exc, "calls": probe.calls,
                                                        "seed": d[nm].seed(), "r": r})
            d = _build([sp])
            exc = _call(StreamSeedUpdater(own).update_seeds, d, r)
            if exc is not None or _obs(d[nm]) != alone:
                out.fail("configuration-changed-by-chained-fallback", {"stream": nm, "r": r, "exc": exc,
                                                                        "listed_now": sorted(own)[:6]})
            out.label("chained-fallback")
    if listed and not beyond and seeded_ok:
        upd = _seeded(table)
        probe = _Fallback.make()
        upd.set_fallback_stream_updater(probe)
        _call(upd.update_seeds, _build(specs), r)
        used = [c for c in probe.calls if c in table]
        if used:
            out.fail("custom-fallback-used-for-listed", {"streams": used[:3]})
    if seeded_ok:
        _relations(out, "seeded", lambda: _seeded(table), lambda: _seeded(table2), specs, order2, r, exp_seeded,
                   unchanged, beyond, case)

    out.nontrivial = bool(n >= 2 and unlisted and r >= 1)
    out.info = {"r": r, "listed": len(listed), "unlisted": len(unlisted), "beyond": len(beyond)}
    return out


def _copies(out, specs, r):
    """A stream that was already prepared for an earlier replication is handed to a worker (pickled) or copied
    (deepcopy): the copy is the same stream - same name, same original seed - so an update of the copy for replication
    r gives what an update of a fresh stream gives."""
    import copy
    import pickle
    from pydsol.core.streams import MersenneTwister
    nm, og = specs[0][0], specs[0][1]
    fresh = MersenneTwister(og)
    exc_f = _call(_simple().update_seed, nm, fresh, r)
    want = _obs(fresh)
    for how, copier in (("deepcopy", copy.deepcopy), ("pickle", lambda x: pickle.loads(pickle.dumps(x)))):
        used = MersenneTwister(og)
        _call(_simple().update_seed, nm, used, 1)
        used.next_float()
        try:
            c = copier(used)
        except Exception as e:                                    # noqa: BLE001
            out.fail("copy-raises:%s:%s" % (how, type(e).__name__), repr(e)[:200])
            return
        exc_c = _call(_simple().update_seed, nm, c, r)
        if exc_c != exc_f or _obs(c) != want:
            out.fail("history-dependence:copied-stream:" + how,
                     {"stream": nm, "original_seed": og, "r": r, "copy": _obs(c)[:2], "fresh": want[:2],
                      "exc": [exc_c, exc_f]})
            return
    out.label("copied-streams")


def _info_sets(out, specs, r):
    """Two stream sets (StreamInformation objects: the library's own 'default' stream + the case's named streams,
    e.g. two scenarios compared with common random numbers): updating one set for a replication does not touch the
    other, and both get the seeds that a set alone gets."""
    from pydsol.core.streams import MersenneTwister, StreamInformation

    def make():
        info = StreamInformation()
        for nm, og, _pre, _cur in specs:
            if nm != "default":
                info.add_stream(nm, MersenneTwister(og))
        return info
    try:
        alone = make()
        _simple().update_seeds(alone.get_streams(), r)
        want = {nm: st.seed() for nm, st in alone.get_streams().items()}
        a, b = make(), make()
        upd = _simple()
        upd.update_seeds(a.get_streams(), r)
        seeds_a = {nm: st.seed() for nm, st in a.get_streams().items()}
        drawn = {nm: st.next_float().hex() for nm, st in a.get_streams().items()}
        upd.update_seeds(b.get_streams(), r + 1)
        after = {nm: st.seed() for nm, st in a.get_streams().items()}
        upd.update_seeds(b.get_streams(), r)
        seeds_b = {nm: st.seed() for nm, st in b.get_streams().items()}
        first_b = {nm: st.next_float().hex() for nm, st in b.get_streams().items()}
    except Exception as e:
        out.fail("info-sets-raise:" + type(e).__name__, repr(e))
        return
    # two StreamSeedInformation objects: the seed lists configured in one are not the seed lists of the other
    try:
        from pydsol.core.streams import StreamSeedInformation
        nm0 = next((sp[0] for sp in specs if sp[0] != "default"), None)
        if nm0 is not None:
            ia = StreamSeedInformation()
            ia.add_stream(nm0, MersenneTwister(specs[0][1]))
            ia.add_seed_values(nm0, [900 + k for k in range(r + 2)] if r < 64 else [900])
            # one list registered for two streams (common random numbers), then a new list for one of them:
            # the other stream keeps the seeds it was configured with
            common = [500 + k for k in range(4)]
            ia.add_stream("crn-twin", MersenneTwister(1))
            ia.add_stream("crn-first", MersenneTwister(2))
            ia.add_seed_values("crn-twin", common)
            ia.add_seed_values("crn-first", common)
            ia.add_seed_values("crn-first", [700, 701])
            if list(ia.get_seed_values("crn-twin")) != [500, 501, 502, 503]:
                out.fail("stream-sets:seed-list-of-another-stream-rewritten",
                         {"stream": "crn-twin", "now": list(ia.get_seed_values("crn-twin"))[:5]})
                return
            # the "default" stream of the set is replaced (after somebody already asked for it): from then on the
            # new generator is the default stream, for get_stream, get_streams and the updaters
            idf = StreamSeedInformation()
            idf.get_stream("default")
            idf.get_streams()                      # (somebody looked at the whole set before, too)
            new_default = MersenneTwister(specs[0][1] + 5)
            idf.add_stream("default", new_default)
            if idf.get_stream("default") is not new_default or idf.get_streams().get("default") is not new_default:
                out.fail("stream-sets:replaced-default-stream-not-used", {"get_stream": repr(idf.get_stream("default"))})
                return
            exc = _call(_simple().update_seeds, idf.get_streams(), r)
            alone_d = MersenneTwister(specs[0][1] + 5)
            exc_d = _call(_simple().update_seed, "default", alone_d, r)
            if exc != exc_d or idf.get_stream("default").seed() != alone_d.seed():
                out.fail("stream-sets:replaced-default-stream-not-used",
                         {"r": r, "seed": idf.get_stream("default").seed(), "want": alone_d.seed(), "exc": [exc, exc_d]})
                return
            # the list configured last for a name is the list of that name
            if list(ia.get_seed_values("crn-first")) != [700, 701]:
                out.fail("stream-sets:replaced-seed-list-not-used",
                         {"stream": "crn-first", "now": list(ia.get_seed_values("crn-first"))[:6]})
                return
            for r_ in (0, 1):
                exc = _call(_seeded(ia.get_seeds()).update_seed, "crn-first", ia.get_stream("crn-first"), r_)
                if exc is not None or ia.get_stream("crn-first").seed() != 700 + r_:
                    out.fail("stream-sets:replaced-seed-list-not-used",
                             {"stream": "crn-first", "r": r_, "exc": exc, "seed": ia.get_stream("crn-first").seed()})
                    return
            # an updater built on the configuration while it is still empty; the lists are configured afterwards
            if type(r) is int and 0 <= r < 64:
                ic = StreamSeedInformation()
                ic.add_stream(nm0, MersenneTwister(specs[0][1]))
                from pydsol.core.streams import StreamSeedUpdater
                upd_c = StreamSeedUpdater(ic.get_seeds())
                ic.add_seed_values(nm0, [310 + 3 * k for k in range(r + 2)])
                exc = _call(upd_c.update_seed, nm0, ic.get_stream(nm0), r)
                if exc is not None or ic.get_stream(nm0).seed() != 310 + 3 * r:
                    out.fail("stream-sets:list-configured-after-the-updater-was-built-not-used",
                             {"stream": nm0, "r": r, "exc": exc, "seed": ic.get_stream(nm0).seed(), "want": 310 + 3 * r})
                    return
                exc = _call(upd_c.update_seed, nm0, ic.get_stream(nm0), r + 2)
                if exc is None:
                    out.fail("stream-sets:list-configured-after-the-updater-was-built-not-used",
                             {"stream": nm0, "r": r + 2, "beyond the list": "accepted"})
                    return
            # the generator registered under a name is replaced by another object (e.g. between two replications):
            # the seed list is configured for the NAME and still applies
            if type(r) is int and 0 <= r < 64:
                upd_a = _seeded(ia.get_seeds())
                ia.get_streams()
                ia.add_stream(nm0, MersenneTwister(specs[0][1] + 17))
                exc = _call(upd_a.update_seed, nm0, ia.get_stream(nm0), r)
                got_seed = ia.get_stream(nm0).seed()
                exc2 = _call(_seeded(ia.get_seeds()).update_seed, nm0, ia.get_stream(nm0), r)
                if exc is not None or exc2 is not None or got_seed != 900 + r or ia.get_stream(nm0).seed() != 900 + r:
                    out.fail("stream-sets:seed-list-lost-when-the-generator-was-replaced",
                             {"stream": nm0, "r": r, "exc": [exc, exc2], "seeds": [got_seed, ia.get_stream(nm0).seed()],
                              "want": 900 + r})
                    return
            ib = StreamSeedInformation()
            ib.add_stream(nm0, MersenneTwister(specs[0][1]))
            try:
                ib.get_seed_values(nm0)          # a query for a stream without a seed list configures nothing
            except Exception:
                pass
            if nm0 in ib.get_seeds() and ib.get_seeds()[nm0] is not None:
                out.fail("stream-sets:seed-list-of-another-set-used", {"stream": nm0, "seeds": ib.get_seeds()[nm0][:3]})
                return
            _seeded(ib.get_seeds()).update_seeds(ib.get_streams(), r)
            alone_b = MersenneTwister(specs[0][1])
            _simple().update_seed(nm0, alone_b, r)
            if ib.get_stream(nm0).seed() != alone_b.seed():
                out.fail("stream-sets:seed-list-of-another-set-used",
                         {"stream": nm0, "got": ib.get_stream(nm0).seed(), "fallback": alone_b.seed(), "r": r})
                return
    except Exception as e:
        out.fail("info-sets-raise:" + type(e).__name__, repr(e))
        return
    if seeds_a != want or seeds_b != want:
        out.fail("stream-sets:seed-differs-from-a-set-alone", {"r": r, "alone": want, "a": seeds_a, "b": seeds_b})
    elif after != seeds_a:
        out.fail("stream-sets:updating-one-set-changed-the-other",
                 {"r": r, "changed": [nm for nm in after if after[nm] != seeds_a[nm]][:3]})
    elif first_b != drawn:
        out.fail("stream-sets:same-seeds-different-draws", {"r": r})
    out.label("two-stream-sets")


def _relations(out, uname, mk1, mk2, specs, order2, r, expected, unchanged, beyond, case):
    """Whole-dict updates in both orders, sub-/supersets, histories: every stream gets `expected` (or is refused)."""
    names = [sp[0] for sp in specs]

    def judge(kind, res, sps):
        ns = [sp[0] for sp in sps]
        bad = [nm for nm in ns if nm in beyond]
        if bad:
            _judge_refusal(out, uname + ":update_seeds", "beyond", res, unchanged, bad)
            for nm in ns:
                if nm not in bad and res["obs"][nm] not in (expected[nm], unchanged[nm]):
                    out.fail(kind + ":" + uname, {"stream": nm, "got": res["obs"][nm], "alone": expected[nm],
                                                  "r": r, "note": "update refused for " + repr(bad[:2])})
                    return
            return
        if res["exc"] is not None:
            out.fail("update_seeds-raises:%s:%s" % (res["exc"], uname), {"r": r, "streams": ns[:5]})
            return
        for nm in ns:
            if res["obs"][nm] != expected[nm]:
                out.fail(kind + ":" + uname, {"stream": nm, "got": res["obs"][nm], "alone": expected[nm], "r": r,
                                              "listing": ns[:5]})
                return

    judge("remove-others", _whole(mk1, specs, r), specs)              # expected = singleton results
    judge("order-dependence", _whole(mk2, order2, r), order2)
    sub = [sp for i, sp in enumerate(specs) if not (case["drop"] >> i) & 1]
    if sub and len(sub) < len(specs):
        judge("remove-others", _whole(mk2, sub, r), sub)
    extra = [(nm, og, 0, None) for nm, og in case["extra"] if nm not in names]
    if extra and uname == "seeded":
        probe = _whole(mk1, extra[:1], r)
        if probe["exc"] is not None:          # an added stream is unlisted: it must be served by the fallback
            out.fail("unlisted-raises:" + probe["exc"], {"r": r, "added_unlisted": extra[0][0]})
            extra = []
    if extra:
        dedup = {}
        for e in extra:
            dedup.setdefault(e[0], e)
        sup = [dedup[k] for k in dedup]
        mixed = sup[:1] + list(specs) + sup[1:]
        res = _whole(mk1, mixed, r)
        res = {"exc": res["exc"], "obs": {nm: res["obs"][nm] for nm in names}}
        judge("add-others", res, specs)
    # prior history must not matter: brand-new streams, and an earlier update for another replication
    plain = _whole(mk1, specs, r, plain=True)
    plain_unch = _obs_all(_build(specs, plain=True))
    for nm in names:
        if nm in beyond:
            if plain["obs"][nm] != plain_unch[nm]:
                out.fail("refusal-changed-stream:beyond:%s:update_seeds" % uname, {"stream": nm})
        elif not beyond and plain["obs"][nm] != expected[nm]:
            out.fail("history-dependence:" + uname, {"stream": nm, "fresh_stream": plain["obs"][nm],
                                                     "used_stream": expected[nm], "r": r})
            break
    if case.get("prior") is not None and not beyond:
        judge("history-dependence:prior-update", _whole(mk1, specs, r, prior=case["prior"]), specs)
    if not beyond:
        # the updater instance has served another experiment's streams under the same names before
        other = [(nm, og + 17 + 3 * i, 0, None) for i, (nm, og, _p, _c) in enumerate(specs)]
        judge("history-dependence:updater-served-other-streams", _whole(mk1, specs, r, other_first=other), specs)


# ---------------------------------------------------------------- cross-process part
def _collect_configs(n, seed):
    import hypothesis
    from hypothesis import HealthCheck, Phase, Verbosity, given, settings
    cases = []

    @hypothesis.seed(seed)
    @settings(max_examples=n, phases=[Phase.generate], database=None, deadline=None, derandomize=False,
              suppress_health_check=list(HealthCheck), verbosity=Verbosity.quiet)
    @given(_case_strategy(valid_only=True))
    def collect(c):
        cases.append(c)

    collect()
    return cases


def _diff_path(a, b, path=()):
    """Key path (tuple) of the first place where two JSON values differ, or None."""
    if type(a) is not type(b):
        return path
    if isinstance(a, dict):
        for k in a:
            if k not in b:
                return path + (k,)
            p = _diff_path(a[k], b[k], path + (k,))
            if p is not None:
                return p
        return None if len(a) == len(b) else path
    if isinstance(a, list):
        if len(a) != len(b):
            return path
        for i, (x, y) in enumerate(zip(a, b)):
            p = _diff_path(x, y, path + (i,))
            if p is not None:
                return p
        return None
    return None if a == b else path


def parent_checks(tier, seed):
    import vlib
    n = budget(tier)["configs"]
    cases = _collect_configs(n, seed)
    payload = json.dumps(cases)
    procs = []
    for hs in HASHSEEDS:
        env = dict(os.environ)
        env.update({"PYTHONHASHSEED": hs, "PYTHONPATH": vlib.SRC, "PYTHONDONTWRITEBYTECODE": "1",
                    "VERIF_REPO": vlib.REPO})
        p = subprocess.Popen(["/venv/bin/python", "-W", "ignore", CHILD], stdin=subprocess.PIPE,
                             stdout=subprocess.PIPE, stderr=subprocess.PIPE, env=env, text=True)
        procs.append((hs, p))
    # feed all children first, then collect (they run concurrently)
    import threading
    results = [None] * len(procs)

    def talk(i, p):
        try:
            results[i] = p.communicate(payload, timeout=600 if tier == "quick" else 3600)
        except Exception as e:                    # noqa
            p.kill()
            results[i] = ("", "communicate failed: %r" % (e,))

    threads = [threading.Thread(target=talk, args=(i, p)) for i, (_, p) in enumerate(procs)]
    for t in threads:
        t.start()
    for t in threads:
        t.join()
    children = []
    for (hs, p), (so, se) in zip(procs, results):
        if p.returncode != 0:
            raise Inconclusive("child PYTHONHASHSEED=%s failed (exit %s): %s" % (hs, p.returncode, se[-800:]))
        data = json.loads(so)
        if not os.path.abspath(data["src"]).startswith(os.path.abspath(vlib.SRC)):
            raise Inconclusive("child imported pydsol from %s, expected under %s" % (data["src"], vlib.SRC))
        if len(data["results"]) != len(cases):
            raise Inconclusive("child returned %d results for %d configurations" % (len(data["results"]), len(cases)))
        children.append({"PYTHONHASHSEED": hs, "hash_default": data["hash_default"], "results": data["results"]})
    distinct_hashes = len({c["hash_default"] for c in children})
    if distinct_hashes < 3:
        raise Inconclusive("hash randomisation did not vary between the children (%d distinct values of "
                           "hash('default')) - the cross-process check would be vacuous" % distinct_hashes)

    violations = {}
    labels = {}
    nontrivial = []
    samples = []
    agree = 0
    for i, case in enumerate(cases):
        specs, table, r, rkind = _decode(case)
        unl = [sp[0] for sp in specs if sp[0] not in table]
        if len(specs) >= 2 and unl and r >= 1:
            nontrivial.append(digest(case).hex())
            if len(samples) < 1:
                samples.append({"case": case, "labels": ["cross-process"], "info": {"children": len(children)}})
        lb = "xproc:" + ("unlisted+listed" if unl and len(unl) < len(specs) else "all-unlisted" if unl else "all-listed")
        labels[lb] = labels.get(lb, 0) + 1
        base = children[0]["results"][i]
        same = True
        for ch in children[1:]:
            p = _diff_path(base, ch["results"][i])
            if p is None:
                continue
            same = False
            parts = list(p)
            uname = parts[0] if parts else "?"
            last = parts[-1] if parts else None
            what = "exception" if last == "exc" else "seed" if last == 0 and isinstance(last, int) else "draws"
            kind = "cross-process:%s:%s-differs" % (uname, what)
            cand = {"kind": kind, "case": case,
                    "detail": {"path": parts, "PYTHONHASHSEED": [children[0]["PYTHONHASHSEED"], ch["PYTHONHASHSEED"]],
                               "first": _at(base, parts), "other": _at(ch["results"][i], parts)}}
            old = violations.get(kind)
            if old is None or len(json.dumps(case)) < len(json.dumps(old["case"])):
                violations[kind] = cand
        agree += same
    return {
        "violations": list(violations.values()),
        "evaluations": len(cases) * len(children),
        "nontrivial": nontrivial,
        "labels": labels,
        "samples": samples,
        "evidence": {"cross_process": {
            "configurations": len(cases), "children": [{"PYTHONHASHSEED": c["PYTHONHASHSEED"],
                                                        "hash('default')": c["hash_default"]} for c in children],
            "distinct_hash_values": distinct_hashes, "configurations_identical_in_all_children": agree}},
    }


def _at(obj, parts):
    for p in parts[:-1]:
        obj = obj[p]
    return obj


LEVEL_TEXT = "exploration"
LEVEL_NOTE = ("in-process metamorphic oracle plus differential comparison of 5 child interpreters with different hash "
              "randomisation on one machine / one CPython build")
TECHNIQUE = ("Hypothesis configurations + metamorphic oracle (order, add/remove, history, fallback equality, refusal) "
             "+ differential execution across interpreter processes with different PYTHONHASHSEED")


RULE = RULE + " " + 'Later additions: chained StreamSeedUpdater as fallback, replaced later; replaced seed list of a name; seed lists configured after the updater was built; generator object replaced under its name.'
