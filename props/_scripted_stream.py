"""Streams for the distribution checks (C14): every one counts what it hands out, logs the
delivered numbers and aborts with ``Inconclusive`` after a budget of consumed numbers.

* ``CountingMT``     - the genuine pydsol ``MersenneTwister`` (subclass, same numbers) with counters.
* ``ScriptedStream`` - own ``StreamInterface`` implementation: a FINITE prefix of chosen uniforms,
                       then a seeded ``random.Random`` tail.  Never constant: pydsol's rejection
                       samplers (normal polar method, Poisson, gamma) loop for ever on a constant
                       stream.
* ``ReplayStream``   - replays a typed log (("f", u) / ("i", lo, hi, v) / ("b", v)) recorded from
                       another stream, then a seeded tail; a call of the wrong type is a mismatch.
"""
import math
import random

from pydsol.core.streams import MersenneTwister, StreamInterface

from vlib.runner import Inconclusive

DEFAULT_BUDGET = 60000


class _Counting:
    """mixin: bookkeeping shared by all three streams"""

    def _init_counting(self, budget):
        self.count = 0
        self.budget = budget
        self.log = []           # typed log of everything delivered
        self.frozen = False     # set by the check when the stream must not be consumed any more
        self.consumed_while_frozen = 0

    def _book(self, entry):
        if self.frozen:
            self.consumed_while_frozen += 1
        self.count += 1
        if self.count > self.budget:
            raise Inconclusive("stream budget of %d numbers exhausted" % self.budget)
        self.log.append(entry)

    def floats_since(self, pos):
        return [e[1] for e in self.log[pos:] if e[0] == "f"]


class CountingMT(_Counting, MersenneTwister):
    def __init__(self, seed, budget=DEFAULT_BUDGET):
        self._init_counting(budget)
        MersenneTwister.__init__(self, seed)

    def next_float(self):
        u = MersenneTwister.next_float(self)
        self._book(("f", u))
        return u

    def next_int(self, lo, hi):
        v = MersenneTwister.next_int(self, lo, hi)
        self._book(("i", lo, hi, v))
        return v

    def next_bool(self):
        v = MersenneTwister.next_bool(self)
        self._book(("b", v))
        return v


class _OwnStream(_Counting, StreamInterface):
    """the administrative part of StreamInterface, irrelevant for the draws"""
    _seed_value = 0

    def seed(self):
        return self._seed_value

    def original_seed(self):
        return self._seed_value

    def set_seed(self, seed):
        raise Inconclusive("set_seed on a scripted stream")

    def reset(self):
        raise Inconclusive("reset on a scripted stream")

    def save_state(self):
        raise Inconclusive("save_state on a scripted stream")

    def restore_state(self, state):
        raise Inconclusive("restore_state on a scripted stream")


class ScriptedStream(_OwnStream):
    def __init__(self, prefix, tail_seed, budget=DEFAULT_BUDGET):
        self._init_counting(budget)
        self._prefix = list(prefix)
        self._pos = 0
        self._tail = random.Random(tail_seed)
        self._seed_value = tail_seed

    def _next(self):
        if self._pos < len(self._prefix):
            u = self._prefix[self._pos]
            self._pos += 1
        else:
            u = self._tail.random()
        return u

    @property
    def prefix_used(self):
        return self._pos

    def next_float(self):
        u = self._next()
        self._book(("f", u))
        return u

    def next_int(self, lo, hi):
        u = self._next()
        v = lo + math.floor((hi - lo + 1) * u)
        self._book(("i", lo, hi, v))
        return v

    def next_bool(self):
        v = self._next() < 0.5
        self._book(("b", v))
        return v


class ReplayStream(_OwnStream):
    def __init__(self, entries, tail_seed, budget=DEFAULT_BUDGET):
        self._init_counting(budget)
        self._entries = [tuple(e) for e in entries]
        self._pos = 0
        self._tail = random.Random(tail_seed)
        self._seed_value = tail_seed
        self.mismatch = None

    def _take(self, tag, *args):
        if self._pos < len(self._entries):
            e = self._entries[self._pos]
            self._pos += 1
            if e[0] != tag or (tag == "i" and tuple(e[1:3]) != tuple(args)):
                if self.mismatch is None:
                    self.mismatch = {"pos": self._pos - 1, "recorded": list(e), "asked": [tag] + list(args)}
                return None
            return e[-1]
        return None

    def next_float(self):
        v = self._take("f")
        if v is None:
            v = self._tail.random()
        self._book(("f", v))
        return v

    def next_int(self, lo, hi):
        v = self._take("i", lo, hi)
        if v is None:
            v = lo + math.floor((hi - lo + 1) * self._tail.random())
        self._book(("i", lo, hi, v))
        return v

    def next_bool(self):
        v = self._take("b")
        if v is None:
            v = self._tail.random() < 0.5
        self._book(("b", v))
        return v
