"""C10 - weighted and time-weighted tallies compute weight / time integrals of their input.

Case (JSON):
  {"variant": "wt" | "eb_wt" | "eb_wt_sub" | "tw" | "eb_tw" | "eb_tw_sub",
   "via": "register" | "notify" | "producer"  (event-based variants: feed through notify(Event / TimedEvent), or
                                             fired by an EventProducer the statistic listens to)
   "cls": label of the data class the generator used (informative only)
   "t0":  first timestamp (int or float.hex()), timestamped variants only
   "ops": both:         ["q", which, a, x]  the observation (a, x) with the value / the weight or time / both given as
                                            quantities in their base unit (accepted as their float value or refused)
          weighted:     ["r", w, x] | ["blk", n, seed, [gen,a,b], [wgen,wa,wb], pz] | ["init"] | ["bad", what]
          timestamped:  ["r", dt, x]  register(last+dt, x), dt >= 0 (|dt| is used; before the first observation of a
                                      period the sign is kept, so a period may start earlier than the previous one)
                        ["blk", n, seed, [gen,a,b], [wgen,wa,wb], pz]   dt from the weight generator
                        ["end", dt]   end_observations(last+dt)
                        ["early", back, x]  a timestamp before the last one: must raise, state unchanged
                        ["init"] | ["init", t]  initialize (optionally continue from another base time t)
                        ["bad", what]}
numbers are ints or float.hex() strings; pz = per-mille probability of a zero weight / repeated timestamp in a block.
Every op is always applicable.  After EVERY op every public getter is called (totality); values are compared with the
exact oracle after every explicit op and at check-points inside blocks.
"""
import math
from fractions import Fraction

from hypothesis import strategies as st

from vlib.runner import Outcome, digest

ID = "C10"
RULE = ("Hypothesis op lists for WeightedTally / EventBasedWeightedTally (without, with subscriber; through register or "
        "notify): (w, x) observations with w >= 0 incl. zero and -0.0 weights, all-zero weights, equal values, weight "
        "magnitudes spread over 2^-60..2^60, offsets, extremes, rejected input (negative / NaN weight, NaN value, "
        "non-numbers), initialize; and for TimestampWeightedTally / EventBasedTimestampWeightedTally: (time, value) "
        "sequences built from non-negative increments with repeats, int and float clocks, large time offsets, "
        "end_observations at or after the last timestamp, observations after closing, earlier timestamps, "
        "re-initialisation (also restarting at an earlier time).  Long runs are expanded deterministically from a "
        "drawn integer seed (splitmix64).  Oracle: exact fractions.Fraction sums: sum(w x), sum(w x)/sum(w), "
        "sum(w (x-mu)^2)/sum(w), times M/(M-1) with M the number of positive weights; n, min, max over all "
        "observations; for the timestamped variant the exact integral of the step function (the latest value at a "
        "repeated timestamp holds) from the first timestamp to the last registered / closing time: weighted_sum = "
        "integral, weighted_mean = integral / span, population variance = time average of (x-mean)^2.  Every getter "
        "is called after every op and must not raise (also when the sum of weights is 0, where any value or NaN is "
        "accepted); rejected inputs and earlier timestamps must raise and leave every getter bit-identical; after "
        "closing no statistical getter may change until initialize; published values equal the getters.  Accuracy: "
        "|got-exact| <= C*M*eps*S^p (S = |mu| + max|x-mu| over positive weights; sum: C*M*eps*sum(w|x|)).  "
        "Non-trivial = a compared state with >=1 zero and >=2 positive weights; or (timestamped) a repeated timestamp, "
        "a closing and an observation after closing in one period; distinct = distinct case digests.")
ASSUMPTIONS = [
    "weights, timestamps and values are finite ints (|.| <= 2^53) or finite doubles; +-inf is excluded",
    "accuracy is compared only when all non-zero magnitudes of values and positive weights / durations lie in "
    "[1e-70, 1e70]; outside only totality, rejection and the ignore-after-close rule are checked",
    "when the sum of weights is 0 the weighted mean, variance and stdev are undefined: any value or NaN is accepted",
    "for the timestamped variant n, min, max, the unbiased variance and last_value() are not asserted (the "
    "property does not define them); they are only called (totality) and must not change after closing",
    "an earlier timestamp after closing may either raise or be ignored",
]
NONTRIVIAL_FLOOR = 0.15
LEVEL_TEXT = "exploration"
LEVEL_NOTE = "exact rational oracle; accuracy relative to the stated conditioning-scaled tolerance C*M*eps*S^p"
TECHNIQUE = "property-based testing (Hypothesis op lists) against an exact fractions.Fraction oracle / exact integration"

EPS = 2.0 ** -52
C_TOL = 64.0
RANGE_LO, RANGE_HI = 1e-70, 1e70
_CALIB = None
TINY = 4 * 5e-324


def budget(tier):
    if tier == "quick":
        return {"examples": 8000, "shards": 16}
    return {"examples": 160000, "shards": 16}


# ---------------------------------------------------------------- deterministic expansion of blocks
_M64 = (1 << 64) - 1


def _mix(seed, i):
    z = (seed + (i + 1) * 0x9E3779B97F4A7C15) & _M64
    z = ((z ^ (z >> 30)) * 0xBF58476D1CE4E5B9) & _M64
    z = ((z ^ (z >> 27)) * 0x94D049BB133111EB) & _M64
    return z ^ (z >> 31)


def _u(seed, i):
    return (_mix(seed, i) >> 11) / 9007199254740992.0


def _dec(v):
    return float.fromhex(v) if isinstance(v, str) else v


def _gen(spec, seed, i, positive=False):
    gen, a, b = spec[0], _dec(spec[1]), _dec(spec[2])
    if gen == "uni":
        x = a + b * _u(seed, i)
    elif gen == "int":
        x = int(a) + _mix(seed, i) % (max(0, int(b)) + 1)
    elif gen == "mag":
        lo, hi = sorted((int(a), int(b)))
        r = _mix(seed, i)
        e = lo + (r & 0xFFFF) % (hi - lo + 1)
        x = math.ldexp(0.5 + _u(seed ^ 0x5555, i) / 2.0, max(-1073, min(1024, e)))
        if math.isinf(x):
            x = 1.7976931348623157e308
        if (r >> 20) & 1 and not positive:
            x = -x
    elif gen == "two":
        x = a if _mix(seed, i) & 1 else b
    else:                                   # const
        x = a
    if positive:
        x = abs(x)
    return x


def _finite(x):
    return (isinstance(x, int) and not isinstance(x, bool)) or (isinstance(x, float) and math.isfinite(x))


# ---------------------------------------------------------------- strategy
def _hx(x):
    return float(x).hex()


def _e(v):
    return v if isinstance(v, int) else _hx(v)


_VCLASSES = ["small_int", "unit", "offset", "equal", "two", "mixed", "extreme", "small_int", "unit", "equal"]
_WCLASSES = ["unit", "int", "wide", "ones", "allzero", "extreme", "unit", "int", "wide"]
_EXT = [1.7976931348623157e308, 1e308, 5e-324, 0.0, 1e154, 1e200, 1e-200, 2.2250738585072014e-308, 1.0, 1e-77, 1e77,
        4.5e235, 8.6e157]


def _value_class(draw, cls):
    fl = st.floats(allow_nan=False, allow_infinity=False)
    if cls == "small_int":
        return st.integers(-9, 9), ("int", -9, 18)
    if cls == "unit":
        return st.floats(-1.0, 1.0).map(_hx), ("uni", _hx(-1.0), _hx(2.0))
    if cls == "offset":
        off = (10.0 ** draw(st.integers(2, 8))) * draw(st.sampled_from([1.0, -1.0]))
        return st.floats(-0.5, 0.5).map(lambda d: _hx(off + d)), ("uni", _hx(off - 0.5), _hx(1.0))
    if cls == "equal":
        v = draw(st.one_of(st.sampled_from([0.0, 0.1, 1.0, -3.0, 7, 0, 1e8 + 0.5]), st.floats(-1e6, 1e6)))
        return st.just(_e(v)), ("const", _e(v), 0)
    if cls == "two":
        a = draw(st.one_of(st.integers(-9, 9), st.floats(-10, 10)))
        b = draw(st.one_of(st.integers(-9, 9), st.floats(-10, 10)))
        return st.sampled_from([_e(a), _e(b)]), ("two", _e(a), _e(b))
    if cls == "mixed":
        val = st.tuples(st.floats(1e-3, 1e6), st.booleans()).map(lambda t: _hx(-t[0] if t[1] else t[0]))
        return val, ("mag", -10, 20)
    val = st.one_of(st.sampled_from(_EXT + [-v for v in _EXT]).map(_hx), fl.map(_hx))
    return val, draw(st.sampled_from([("mag", -1073, 1023), ("mag", 1000, 1023), ("two", _hx(1e308), _hx(-1e308))]))


def _weight_class(draw, cls):
    """strategy of explicit non-negative weights / time increments, block generator, per-mille of zeros"""
    zero = st.sampled_from([0, _hx(0.0), _hx(-0.0)])
    if cls == "unit":
        return st.one_of(st.floats(0.0, 2.0).map(_hx), zero), ("uni", _hx(0.0), _hx(2.0)), 150
    if cls == "int":
        return st.one_of(st.integers(0, 5), zero), ("int", 0, 5), 100
    if cls == "wide":
        w = st.tuples(st.floats(0.5, 1.0), st.integers(-60, 60)).map(lambda t: _hx(math.ldexp(t[0], t[1])))
        return st.one_of(w, w, w, st.sampled_from([_hx(1e-3), _hx(1e14), _hx(1.0), _hx(1e17), 1]), zero), \
            ("mag", -60, 60), 100
    if cls == "ones":
        return st.one_of(st.just(1), st.just(_hx(1.0)), zero), ("const", 1, 0), 100
    if cls == "allzero":
        return zero, ("const", 0, 0), 1000
    w = st.one_of(st.sampled_from(_EXT).map(_hx), st.floats(min_value=0.0, allow_nan=False, allow_infinity=False).map(_hx))
    return st.one_of(w, zero), ("mag", -1073, 1023), 100


def strategy(tier):
    sizes = [2, 3, 4, 5, 8, 13, 21, 34, 55, 89, 144, 233, 300]
    if tier != "quick":
        sizes = sizes + [500, 1000, 2000, 5000]
    maxops = 30 if tier == "quick" else 60

    @st.composite
    def case(draw):
        variant = draw(st.sampled_from(["wt", "eb_wt", "eb_wt_sub", "eb_wt_sub", "wt",
                                        "tw", "tw", "eb_tw", "eb_tw_sub", "eb_tw_sub"]))
        via = draw(st.sampled_from(["register", "register", "notify", "producer"]))
        vcls = draw(st.sampled_from(_VCLASSES))
        wcls = draw(st.sampled_from(_WCLASSES))
        if (vcls == "extreme") != (wcls == "extreme") and draw(st.booleans()):
            vcls = wcls = "extreme"
        val, vblk = _value_class(draw, vcls)
        wgt, wblk, pz = _weight_class(draw, wcls)
        big = draw(st.integers(0, 9))
        szs = st.sampled_from(sizes if big >= 7 else sizes[:6])
        blk = st.tuples(szs, st.integers(0, 2 ** 32)).map(
            lambda t: ["blk", t[0], t[1], list(vblk), list(wblk), pz])
        if variant in ("wt", "eb_wt", "eb_wt_sub"):
            rop = st.tuples(wgt, val).map(lambda t: ["r", t[0], t[1]])
            bad = st.sampled_from(["neg-weight", "neg-tiny", "nan-weight", "nan-value", "str-weight", "none-value",
                                   "str-value", "none-weight"]).map(lambda w: ["bad", w])
            qop = st.tuples(st.sampled_from(["value", "weight", "both"]), wgt, val).map(
                lambda t: ["q", t[0], t[1], t[2]])
            op = st.one_of(rop, rop, rop, rop, rop, rop, rop, blk, st.just(["init"]), bad, qop)
            ops = draw(st.lists(op, min_size=draw(st.sampled_from([1, 4, 8])), max_size=maxops))
            return {"variant": variant, "via": via, "cls": vcls + "/" + wcls, "ops": ops}
        # timestamped: periods  observations.. [early] [end, observations after closing..] [init]
        clock = draw(st.sampled_from(["float", "float", "int", "offset", "bigint"]))
        if clock == "bigint" and via != "register":
            clock = "int"      # notify() documents float timestamps (it converts them): no exactness beyond 2**53 there
        if clock == "bigint":
            # integer ticks beyond 2**53 (epoch nanoseconds): exact as ints, not representable as floats
            t0 = 2 ** 60 + draw(st.integers(0, 1000))
            wgt = st.integers(0, 300)
        elif clock == "int":
            t0 = draw(st.integers(-100, 100))
        elif clock == "offset":
            t0 = _hx((10.0 ** draw(st.integers(3, 12))) * draw(st.sampled_from([1.0, -1.0])))
        else:
            t0 = _hx(draw(st.one_of(st.sampled_from([0.0, -1.5, 10.0]), st.floats(-1e3, 1e3))))
        if wcls == "extreme":
            t0 = _hx(draw(st.sampled_from([0.0, -1e308, 1e300, -1.7976931348623157e308, 5e-324])))
        rop = st.tuples(wgt, val).map(lambda t: ["r", t[0], t[1]])
        early = st.tuples(st.sampled_from([_hx(1.0), _hx(1e-9), 1, _hx(5e-324), _hx(1e6)]), val).map(
            lambda t: ["early", t[0], t[1]])
        bad = st.sampled_from(["nan-time", "nan-value", "str-time", "none-value", "str-value"]).map(lambda w: ["bad", w])
        ops = []
        for _ in range(draw(st.integers(1, 3))):
            qop = st.tuples(st.sampled_from(["value", "time", "both"]), wgt, val).map(
                lambda t: ["q", t[0], t[1], t[2]])
            ops += draw(st.lists(st.one_of(rop, rop, rop, rop, rop, blk, early, bad, qop),
                                 min_size=draw(st.sampled_from([0, 3, 6])), max_size=maxops // 3))
            if draw(st.integers(0, 5)) > 0:
                ops.append(["end", draw(wgt)])
                ops += draw(st.lists(st.one_of(rop, rop, rop, early, bad, st.tuples(wgt).map(lambda t: ["end", t[0]])),
                                     min_size=draw(st.sampled_from([0, 1, 2])), max_size=4))
            if draw(st.booleans()):
                ops.append(draw(st.one_of(st.just(["init"]),
                                          st.sampled_from([_hx(0.0), _hx(-5.0), 3, t0]).map(lambda t: ["init", t]))))
        if clock == "bigint":
            # keep the timestamps exact ints: no float blocks / quantity operands / float restarts
            ops = [o for o in ops if o[0] not in ("blk", "q") and not (o[0] == "init" and len(o) > 1 and
                                                                        not isinstance(o[1], int))]
        if not ops:
            ops = [draw(rop)]
        return {"variant": variant, "via": via, "cls": vcls + "/" + wcls + "/" + clock, "t0": t0, "ops": ops}

    return case()


# ---------------------------------------------------------------- helpers
class _Raised:
    def __repr__(self):
        return "<raised>"


_RAISED = _Raised()

GETTERS = [("n", "n", ()), ("min", "min", ()), ("max", "max", ()), ("weighted_sum", "weighted_sum", ()),
           ("weighted_mean", "weighted_mean", ()),
           ("weighted_variance", "weighted_variance", (True,)), ("weighted_variance_u", "weighted_variance", (False,)),
           ("weighted_stdev", "weighted_stdev", (True,)), ("weighted_stdev_u", "weighted_stdev", (False,))]
PUBLISHED = {"N_EVENT": "n", "MIN_EVENT": "min", "MAX_EVENT": "max", "WEIGHTED_SUM_EVENT": "weighted_sum",
             "WEIGHTED_MEAN_EVENT": "weighted_mean", "WEIGHTED_POPULATION_STDEV_EVENT": "weighted_stdev",
             "WEIGHTED_POPULATION_VARIANCE_EVENT": "weighted_variance",
             "WEIGHTED_SAMPLE_STDEV_EVENT": "weighted_stdev_u", "WEIGHTED_SAMPLE_VARIANCE_EVENT": "weighted_variance_u"}


def _enc(v):
    if isinstance(v, float):
        return "nan" if v != v else v.hex()
    return repr(v)


def _isnan(v):
    return isinstance(v, float) and v != v


def _f(fr):
    try:
        return float(fr)
    except OverflowError:
        return math.inf if fr > 0 else -math.inf


def _sqrt_tol(a2, sd):
    t = math.sqrt(a2)
    if sd > 0:
        t = min(t, a2 / sd)
    return t + 4 * EPS * sd + 5e-324


class _Model:
    """Exact weighted sums of the positively weighted observations since the last reset."""

    def __init__(self):
        self.reset()

    def reset(self):
        self.n = 0
        self.M = 0
        self.zeros = 0
        self.W = Fraction(0)
        self.WX = Fraction(0)
        self.WXX = Fraction(0)
        self.WA = Fraction(0)
        self.vmin = self.vmax = None          # over all observations
        self.pmin = self.pmax = None          # over positively weighted observations
        self.in_range = True
        self.x_in_range = True
        self.wlo = self.whi = None
        self.wmax_ratio = False

    def add(self, w, x):
        self.n += 1
        if self.vmin is None or x < self.vmin:
            self.vmin = x
        if self.vmax is None or x > self.vmax:
            self.vmax = x
        if w == 0:
            self.zeros += 1
            return
        self.M += 1
        fw, fx = Fraction(w), Fraction(x)
        self.wlo = fw if self.wlo is None or fw < self.wlo else self.wlo
        self.whi = fw if self.whi is None or fw > self.whi else self.whi
        if self.whi > self.wlo * (1 << 53):
            self.wmax_ratio = True
        self.W += fw
        self.WX += fw * fx
        self.WXX += fw * fx * fx
        self.WA += fw * abs(fx)
        if self.pmin is None or x < self.pmin:
            self.pmin = x
        if self.pmax is None or x > self.pmax:
            self.pmax = x
        if not (RANGE_LO <= fw <= RANGE_HI) or (x != 0 and not (RANGE_LO <= abs(fx) <= RANGE_HI)):
            self.in_range = False
        if x != 0 and not (RANGE_LO <= abs(fx) <= RANGE_HI):
            self.x_in_range = False


def _size_label(n):
    return "n:" + next(lb for b, lb in ((0, "0"), (1, "1"), (3, "2-3"), (10, "4-10"), (50, "11-50"), (300, "51-300"),
                                        (10 ** 9, ">300")) if n <= b)


def _context(stat, model):
    if model.n > 0 and model.W == 0:
        return "zero-weight-sum"
    try:
        v = stat.weighted_variance()
        if isinstance(v, float) and v < 0:
            return "negative-variance"
    except Exception:                                             # noqa: BLE001
        pass
    return "other"


def _call_all(out, stat, model, failed, extra=()):
    got = {}
    for name, meth, args in list(GETTERS) + list(extra):
        try:
            got[name] = getattr(stat, meth)(*args)
        except Exception as e:                                    # noqa: BLE001 - the property forbids any
            got[name] = _RAISED
            kind = "getter-raises:%s:%s:%s" % (meth, type(e).__name__, _context(stat, model))
            if kind not in failed:
                failed.add(kind)
                out.fail(kind, {"getter": name, "n": model.n, "positive_weights": model.M, "error": repr(e)})
    return got


def _snapshot(stat, extra=()):
    snap = []
    for name, meth, args in list(GETTERS) + list(extra):
        try:
            snap.append((name, _enc(getattr(stat, meth)(*args))))
        except Exception as e:                                    # noqa: BLE001
            snap.append((name, "raises:" + type(e).__name__))
    return snap


def _cmp(out, name, g, want, tol, info):
    if g is _RAISED:
        return
    if not isinstance(g, (int, float)) or g != g:
        out.fail("nan-structure:%s:unexpected-nan" % name, dict(info, got=_enc(g), want=_enc(want)))
        return
    err = abs(g - want)
    if _CALIB is not None and info.get("unit"):
        r = err / info["unit"]
        if r > _CALIB.get(name, (0.0,))[0]:
            _CALIB[name] = (r, info.get("M"))
    if not err <= tol:
        out.fail("value:%s" % name, dict(info, got=_enc(g), want=_enc(want), err=err, tol=tol))


def _check_weighted_values(out, got, m, prefix="", unbiased=True):
    """weighted sum / mean / variance / stdev against the exact sums in model m (sum of weights > 0, in range)."""
    Mf = float(max(m.M, 1))
    unit0 = Mf * EPS * _f(m.WA)
    _cmp(out, prefix + "weighted_sum", got["weighted_sum"], _f(m.WX), C_TOL * unit0 + TINY, {"M": m.M, "unit": unit0})
    mu = m.WX / m.W
    S_ = abs(mu) + max(abs(Fraction(m.pmax) - mu), abs(Fraction(m.pmin) - mu))
    S = _f(S_)
    unit1 = Mf * EPS * S
    _cmp(out, prefix + "weighted_mean", got["weighted_mean"], _f(mu), C_TOL * unit1 + TINY, {"M": m.M, "unit": unit1})
    var = m.WXX / m.W - mu * mu
    unit2 = Mf * EPS * S * S
    A2 = C_TOL * unit2
    vf = _f(var)
    _cmp(out, prefix + "weighted_variance", got["weighted_variance"], vf, A2 + TINY, {"M": m.M, "unit": unit2})
    _cmp(out, prefix + "weighted_stdev", got["weighted_stdev"], math.sqrt(vf), _sqrt_tol(A2, math.sqrt(vf)), {"M": m.M})
    if unbiased and m.M >= 2:
        f = Mf / (Mf - 1.0)
        vu = _f(var * m.M / (m.M - 1))
        _cmp(out, prefix + "weighted_variance_u", got["weighted_variance_u"], vu, A2 * f + TINY,
             {"M": m.M, "unit": unit2 * f})
        _cmp(out, prefix + "weighted_stdev_u", got["weighted_stdev_u"], math.sqrt(vu),
             _sqrt_tol(A2 * f, math.sqrt(vu)), {"M": m.M})


def _plain(c):
    """the float value of a float subclass (a quantity handed in as observation may be published as it came)"""
    return float.__float__(c) if isinstance(c, float) and type(c) is not float else c


def _check_published(out, events, got, x):
    seen = {}
    for tname, content in events:
        seen[tname] = content
    if "OBSERVATION_ADDED_EVENT" in seen and not (_plain(seen["OBSERVATION_ADDED_EVENT"]) == x):
        out.fail("publish:observation", {"got": _enc(seen["OBSERVATION_ADDED_EVENT"]), "want": _enc(x)})
    for tname, gname in PUBLISHED.items():
        g = got.get(gname)
        if g is _RAISED:
            continue
        if tname not in seen:
            if not any(d["kind"].startswith("register-raises") for d in out.disc):
                out.fail("publish:missing:" + tname, {"seen": sorted(seen)})
            continue
        if _enc(seen[tname]) != _enc(g):
            out.fail("publish:differs:" + tname, {"published": _enc(seen[tname]), "getter": _enc(g)})


_BAD = {"neg-weight": (-1.0, 1.0, ValueError), "neg-tiny": (-5e-324, 1.0, ValueError),
        "nan-weight": (math.nan, 1.0, ValueError), "nan-value": (1.0, math.nan, ValueError),
        "str-weight": ("1.0", 1.0, TypeError), "none-value": (1.0, None, TypeError),
        "str-value": (1.0, "x", TypeError), "none-weight": (None, 1.0, TypeError),
        "nan-time": (math.nan, 1.0, ValueError), "str-time": ("1.0", 1.0, TypeError)}


def _only_raises(out):
    return all(d["kind"].startswith(("getter-raises", "register-raises")) for d in out.disc)


# ---------------------------------------------------------------- interpreter
def run_case(case):
    from pydsol.core.interfaces import StatEvents
    from pydsol.core.pubsub import Event, EventListener, TimedEvent
    from pydsol.core import statistics as S

    class Rec(EventListener):
        def __init__(self):
            self.events = []

        def notify(self, event):
            self.events.append((event.event_type.name, event.content))
            if event.event_type.name == "INITIALIZED_EVENT":
                # the statistic announces that it has been reset: at this moment it reports no observations
                try:
                    self.at_init.append(event.content.n())
                except Exception as e:                            # noqa: BLE001
                    self.at_init.append("raises:" + type(e).__name__)

        at_init = []

    out = Outcome()
    Rec.at_init = []
    variant, via = case["variant"], case.get("via", "register")
    out.label("variant=" + variant)
    for key, part in zip(("values=", "weights=", "clock="), str(case.get("cls", "")).split("/")):
        out.label(key + part)
    timed = "tw" in variant
    cls = {"wt": S.WeightedTally, "eb_wt": S.EventBasedWeightedTally, "eb_wt_sub": S.EventBasedWeightedTally,
           "tw": S.TimestampWeightedTally, "eb_tw": S.EventBasedTimestampWeightedTally,
           "eb_tw_sub": S.EventBasedTimestampWeightedTally}[variant]
    stat = cls("s")
    event_based = variant.startswith("eb")
    rec = None
    if variant.endswith("_sub"):
        rec = Rec()
        for tname in list(PUBLISHED) + ["OBSERVATION_ADDED_EVENT", "INITIALIZED_EVENT"]:
            stat.add_listener(getattr(StatEvents, tname), rec)
    if event_based:
        out.label("via=" + via)

    prod = None
    if event_based and via == "producer":
        from pydsol.core.pubsub import EventProducer
        prod = EventProducer()
        data_type = StatEvents.TIMESTAMP_DATA_EVENT if timed else StatEvents.WEIGHT_DATA_EVENT

        class OneShot(EventListener):
            """another listener of the same data event that unsubscribes itself when it is notified"""

            def notify(self, event):
                prod.remove_listener(data_type, self)

    def feed(a, x):
        """a = weight or timestamp"""
        numbers = isinstance(a, (int, float)) and isinstance(x, (int, float))
        if prod is not None and numbers:
            # the statistic listens to a producer (subscribed twice: the repeated subscription is ignored), behind a
            # self-removing listener; the observation is fired by the producer
            prod.remove_all_listeners()
            prod.add_listener(data_type, OneShot())
            prod.add_listener(data_type, stat)
            prod.add_listener(data_type, stat)
            if timed:
                prod.fire_timed(a, data_type, x)
            else:
                prod.fire(data_type, (a, x))
        elif event_based and via == "notify" and numbers:
            if timed:
                stat.notify(TimedEvent(a, StatEvents.TIMESTAMP_DATA_EVENT, x))
            else:
                stat.notify(Event(StatEvents.WEIGHT_DATA_EVENT, (a, x)))
        else:
            stat.register(a, x)

    ctx = {"out": out, "stat": stat, "rec": rec, "feed": feed, "failed": set(), "case": case}
    if timed:
        _run_timed(ctx)
    else:
        _run_weighted(ctx)
    if not out.disc and not str(case.get("cls", "")).endswith("bigint"):
        _second_use(out, stat, cls, timed, case)
    return out


def _same(a, b):
    return (a == b and type(a) is type(b)) or (isinstance(a, float) and isinstance(b, float) and a != a and b != b)


def _second_use(out, stat, cls, timed, case):
    """The statistic of this case is used for two more observation periods of equal length (initialize() in between),
    and after each period ONE query is made - the way a model asks for one result per replication.  The answer must
    be the one a fresh statistic gives for the same observations (same arithmetic, so identical)."""
    h = digest(case)
    name, meth, args = GETTERS[h[2] % len(GETTERS)]
    k = 2 + h[3] % 5
    seed = int.from_bytes(h[4:8], "big")
    for period in (0, 1):
        fresh = cls("fresh")
        try:
            stat.initialize()
            t = 0.0
            for i in range(k):
                a = float(_mix(seed, 4 * i + period) % 7) / 2.0            # weights / time steps 0 .. 3
                x = float(_mix(seed, 4 * i + 2 + period) % 1000) / 8.0 - 50.0
                t += a
                for st_ in (stat, fresh):
                    st_.register(t if timed else a, x)
            if timed:
                for st_ in (stat, fresh):
                    st_.end_observations(t + 1.5)
            got, want = getattr(stat, meth)(*args), getattr(fresh, meth)(*args)
        except Exception as e:                                    # noqa: BLE001
            out.fail("second-use-raises:" + type(e).__name__, {"period": period, "getter": name, "error": repr(e)})
            return
        if not _same(got, want):
            out.fail("second-use-differs:" + name, {"period": period, "observations": k, "got": _enc(got),
                                                    "fresh_statistic": _enc(want)})
            return
    out.label("second-use-single-query:" + name)


def _register(ctx, a, x, model, what="register"):
    """feed one accepted observation; a raising register is a totality failure (subscriber variants)."""
    out, rec = ctx["out"], ctx["rec"]
    if rec is not None and not ctx.get("already_fed"):
        del rec.events[:]
    try:
        if ctx.pop("already_fed", False):
            pass                       # (a quantity observation that was fed - and accepted - by the caller)
        elif what == "end":
            ctx["stat"].end_observations(a)
        else:
            ctx["feed"](a, x)
    except Exception as e:                                        # noqa: BLE001
        kind = "%s-raises:%s:%s" % ("register" if what == "register" else "end_observations",
                                    type(e).__name__, _context(ctx["stat"], model))
        if kind not in ctx["failed"]:
            ctx["failed"].add(kind)
            out.fail(kind, {"n": model.n, "arg": _enc(a), "value": _enc(x), "error": repr(e)})
        return True
    return False


def _reject(ctx, a, x, want, extra=(), may_ignore=False):
    out, stat = ctx["out"], ctx["stat"]
    before = _snapshot(stat, extra)
    try:
        ctx["feed"](a, x)
        if not may_ignore:
            out.fail("reject:accepted", {"input": [repr(a), repr(x)]})
    except want:
        pass
    except Exception as e:                                        # noqa: BLE001
        out.fail("reject:wrong-exception", {"input": [repr(a), repr(x)], "error": repr(e), "want": want.__name__})
    after = _snapshot(stat, extra)
    if before != after:
        out.fail("reject:state-changed", {"input": [repr(a), repr(x)], "before": before, "after": after})
    out.label("rejected-input")


def _quantity_observation(ctx, which, a, x, extra=()):
    """feed (a, x) with one or both operands given as quantities in their base unit (float subclasses whose float
    value is a / x).  Returns True when it was accepted (the caller then books the plain observation); a refusal
    must leave every getter unchanged."""
    from pydsol.core.units import Duration, Length
    out, stat, rec = ctx["out"], ctx["stat"], ctx["rec"]
    qa = Duration(a, "s") if which in ("weight", "time", "both") else a
    qx = Length(x, "m") if which in ("value", "both") else x
    before = _snapshot(stat, extra)
    if rec is not None:
        del rec.events[:]
    try:
        ctx["feed"](qa, qx)
    except Exception as e:                                        # noqa: BLE001
        after = _snapshot(stat, extra)
        if before != after:
            out.fail("reject:state-changed", {"input": [repr(qa), repr(qx)], "error": repr(e), "before": before,
                                              "after": after})
        out.label("quantity-observation-rejected")
        return False
    out.label("quantity-observation-accepted")
    return True


def _run_weighted(ctx):
    out, stat, rec, failed = ctx["out"], ctx["stat"], ctx["rec"], ctx["failed"]
    m = _Model()
    nontrivial = False
    compared = 0
    nmax = 0

    def observe(w, x, compare):
        nonlocal nontrivial, compared, nmax
        m.add(w, x)
        nmax = max(nmax, m.n)
        _register(ctx, w, x, m)
        got = _call_all(out, stat, m, failed)
        if rec is not None:
            _check_published(out, rec.events, got, x)
        check_state(got, compare)

    def check_state(got, compare):
        nonlocal nontrivial, compared
        g = got["n"]
        if g is not _RAISED and (g != m.n or not isinstance(g, int)):
            out.fail("value:n", {"got": repr(g), "want": m.n})
        for name, want in (("min", m.vmin), ("max", m.vmax)):
            g = got[name]
            if g is _RAISED:
                continue
            if m.n == 0:
                if not _isnan(g):
                    out.fail("nan-structure:%s:expected-nan" % name, {"got": _enc(g)})
            elif not (g == want):
                out.fail("value:%s" % name, {"got": _enc(g), "want": _enc(want), "n": m.n})
        if m.n == 0:
            for name in ("weighted_mean", "weighted_variance", "weighted_variance_u", "weighted_stdev",
                         "weighted_stdev_u"):
                if got[name] is not _RAISED and not _isnan(got[name]):
                    out.fail("nan-structure:%s:expected-nan" % name, {"got": _enc(got[name]), "n": 0})
        if m.W == 0:
            g = got["weighted_sum"]
            if g is not _RAISED and not (g == 0):
                out.fail("value:weighted_sum", {"got": _enc(g), "want": 0, "sum_of_weights": 0})
            if m.n > 0:
                out.label("zero-weight-sum")
            return
        if m.M == 1:
            for name in ("weighted_variance_u", "weighted_stdev_u"):
                if got[name] is not _RAISED and not _isnan(got[name]):
                    out.fail("nan-structure:%s:expected-nan" % name, {"got": _enc(got[name]), "positive_weights": 1})
        if not compare:
            return
        if not m.in_range:
            out.label("accuracy:out-of-range")
            # weights of any finite magnitude (subnormal, huge) with values of ordinary magnitude: the mean is a
            # convex combination of the values - it needs no product of a weight with a value, so it is as accurate
            # as with ordinary weights as long as the sum of the weights is finite
            g = got["weighted_mean"]
            if m.x_in_range and m.M >= 1 and g is not _RAISED and m.W < Fraction(1.7e308) and m.whi < m.wlo * (1 << 40):
                exact = float(m.WX / m.W)
                scale = max(abs(m.pmin), abs(m.pmax))
                if not (isinstance(g, float) and abs(g - exact) <= 1e-9 * scale * max(1, m.M)):
                    out.fail("value:weighted_mean:extreme-weights",
                             {"got": _enc(g), "exact": _enc(exact), "positive_weights": m.M,
                              "weights_between": [_enc(float(m.wlo)), _enc(float(m.whi))]})
                out.label("mean-checked-with-extreme-weights")
            return
        compared += 1
        _check_weighted_values(out, got, m)
        if m.zeros >= 1 and m.M >= 2:
            nontrivial = True

    for op in ctx["case"]["ops"]:
        name = op[0]
        if name == "r":
            w, x = _dec(op[1]), _dec(op[2])
            if _finite(w) and _finite(x) and w >= 0:
                observe(w, x, True)
        elif name == "q":
            w, x = _dec(op[2]), _dec(op[3])
            if _finite(w) and _finite(x) and w >= 0:
                if _quantity_observation(ctx, op[1], float(w), float(x)):
                    ctx["already_fed"] = True
                    observe(float(w), float(x), True)
        elif name == "blk":
            n, seed, vspec, wspec, pz = op[1], op[2], op[3], op[4], op[5]
            for i in range(n):
                x = _gen(vspec, seed, i)
                w = 0.0 if _mix(seed ^ 0xABCDEF, i) % 1000 < pz else _gen(wspec, seed ^ 0x1234567, i, positive=True)
                if _finite(w) and _finite(x):
                    observe(w, x, i + 1 == n or i < 4 or (i & (i + 1)) == 0)
        elif name == "init":
            try:
                stat.initialize()
            except Exception as e:                                # noqa: BLE001
                out.fail("initialize-raises:" + type(e).__name__, repr(e))
            if rec is not None and any(x != 0 for x in rec.at_init):
                out.fail("publish:initialized-event-before-reset", {"n_seen_by_listener": rec.at_init[-3:]})
            if m.n:
                out.label("initialize-after-observations")
            m.reset()
            check_state(_call_all(out, stat, m, failed), False)
        elif name == "bad" and op[1] in _BAD:
            a, x, want = _BAD[op[1]]
            _reject(ctx, a, x, want)
        if not _only_raises(out):
            break
    out.nontrivial = nontrivial and compared > 0
    out.label(_size_label(nmax))
    if m.wmax_ratio:
        out.label("weight-ratio>=2^53")
    out.info = {"final_n": m.n, "positive_weights": m.M, "compared_states": compared}


TW_EXTRA = (("isactive", "isactive", ()),)


def _run_timed(ctx):
    out, stat, rec, failed = ctx["out"], ctx["stat"], ctx["rec"], ctx["failed"]
    m = _Model()                 # the intervals counted so far (weights = exact durations)
    base = _dec(ctx["case"].get("t0", 0))
    if not _finite(base):
        base = 0.0
    last = None                  # latest accepted timestamp of this period
    cur = None                   # value holding from `last`
    closed = False
    repeated = closed_seen = after_close = False
    nontrivial = False
    compared = 0
    nobs = 0

    def advance(dt):
        """next timestamp: base/last + dt, finite, never before `last`"""
        ref = base if last is None else last
        if last is not None:
            dt = abs(dt)
        t = ref + dt
        if not _finite(t) or (last is not None and t < last):
            t = ref
        return t

    def account(t):
        """the interval [last, t) with the current value enters the statistics"""
        nonlocal repeated
        if t > last:
            m.add(Fraction(t) - Fraction(last), cur)
        else:
            repeated = True

    def check_state(compare):
        nonlocal compared, nontrivial
        got = _call_all(out, stat, m, failed, TW_EXTRA + (("last_value", "last_value", ()),))
        if got["isactive"] is not _RAISED and got["isactive"] is not (not closed):
            out.fail("value:isactive", {"got": repr(got["isactive"]), "closed": closed})
        if m.W == 0:
            g = got["weighted_sum"]
            if g is not _RAISED and not (g == 0):
                out.fail("value:weighted_sum", {"got": _enc(g), "want": 0, "span": 0})
            return got
        if compare and m.in_range:
            compared += 1
            _check_weighted_values(out, got, m, unbiased=False)
        elif compare:
            out.label("accuracy:out-of-range")
        return got

    def observe(t, x, compare):
        nonlocal last, cur, after_close, nontrivial, nobs
        nobs += 1
        if closed:
            # ignored until initialize: no statistical getter may change
            before = _snapshot(stat, TW_EXTRA)
            _register(ctx, t, x, m)
            after = _snapshot(stat, TW_EXTRA)
            if before != after:
                out.fail("after-close:state-changed", {"t": _enc(t), "x": _enc(x), "before": before, "after": after})
            after_close = True
            out.label("observation-after-close")
            if repeated and closed_seen:
                nontrivial = True
            return
        if last is None:
            last = t
        else:
            account(t)
            last = t
        cur = x
        _register(ctx, t, x, m)
        got = check_state(compare)
        if rec is not None:
            _check_published(out, rec.events, got, x)

    for op in ctx["case"]["ops"]:
        name = op[0]
        if name == "r":
            dt, x = _dec(op[1]), _dec(op[2])
            if _finite(dt) and _finite(x):
                observe(advance(dt), x, True)
        elif name == "q":
            dt, x = _dec(op[2]), _dec(op[3])
            if _finite(dt) and _finite(x) and not closed:
                t = float(advance(dt))
                if math.isfinite(t) and _quantity_observation(ctx, op[1], t, float(x), TW_EXTRA):
                    ctx["already_fed"] = True
                    observe(t, float(x), True)
        elif name == "blk":
            n, seed, vspec, wspec, pz = op[1], op[2], op[3], op[4], op[5]
            for i in range(n):
                x = _gen(vspec, seed, i)
                dt = 0.0 if _mix(seed ^ 0xABCDEF, i) % 1000 < pz else _gen(wspec, seed ^ 0x1234567, i, positive=True)
                if _finite(dt) and _finite(x):
                    observe(advance(dt), x, i + 1 == n or i < 4 or (i & (i + 1)) == 0)
        elif name == "end":
            dt = _dec(op[1])
            if not _finite(dt):
                continue
            t = advance(dt)
            if closed:
                before = _snapshot(stat, TW_EXTRA)
                _register(ctx, t, None, m, what="end")
                if _snapshot(stat, TW_EXTRA) != before:
                    out.fail("after-close:state-changed", {"op": "end_observations", "t": _enc(t)})
            else:
                if last is not None:
                    account(t)
                last = t
                raised = _register(ctx, t, None, m, what="end")
                closed = True
                if raised:
                    # already reported as end_observations-raises; whether the tally got closed is then undefined:
                    # follow the implementation so that the consequence is not reported a second time
                    try:
                        closed = not stat.isactive()
                    except Exception:                             # noqa: BLE001
                        pass
                closed_seen = True
                check_state(True)
                out.label("closed")
        elif name == "early":
            back, x = _dec(op[1]), _dec(op[2])
            if not (_finite(back) and _finite(x)):
                continue
            if last is None:
                observe(advance(-abs(back)), x, True)
                continue
            t = last - abs(back)
            if not t < last:
                t = math.nextafter(float(last), -math.inf)
            if not _finite(t) or not t < last:
                continue
            _reject(ctx, t, x, ValueError, TW_EXTRA, may_ignore=closed)
            out.label("earlier-timestamp")
            if not closed:
                # closing at a time before the last observation (or at NaN) is refused too - and the tally stays open
                for bad_end in (t, math.nan):
                    before = _snapshot(stat, TW_EXTRA)
                    try:
                        stat.end_observations(bad_end)
                        out.fail("reject:accepted", {"end_observations": repr(bad_end), "last": _enc(last)})
                    except (ValueError, TypeError):
                        pass
                    except Exception as e:                        # noqa: BLE001
                        out.fail("reject:wrong-exception", {"end_observations": repr(bad_end), "error": repr(e)})
                    after = _snapshot(stat, TW_EXTRA)
                    if before != after:
                        out.fail("reject:state-changed", {"end_observations": repr(bad_end), "before": before,
                                                          "after": after})
                out.label("rejected-closing")
        elif name == "init":
            try:
                stat.initialize()
            except Exception as e:                                # noqa: BLE001
                out.fail("initialize-raises:" + type(e).__name__, repr(e))
            if rec is not None and any(x != 0 for x in rec.at_init):
                out.fail("publish:initialized-event-before-reset", {"n_seen_by_listener": rec.at_init[-3:]})
            if last is not None:
                out.label("initialize-after-observations")
                base = last
            if len(op) > 1 and _finite(_dec(op[1])):
                base = _dec(op[1])
            m.reset()
            last = cur = None
            closed = False
            repeated = closed_seen = False
            check_state(False)
        elif name == "bad" and op[1] in ("nan-time", "str-time", "nan-value", "none-value", "str-value"):
            a, x, want = _BAD[op[1]]
            if op[1] in ("nan-value", "none-value", "str-value"):
                a = advance(1.0) if not isinstance(a, str) else a
                if not _finite(a):
                    continue
            _reject(ctx, a, x, want, TW_EXTRA)
        if not _only_raises(out):
            break
    if repeated:
        out.label("repeated-timestamp")
    out.nontrivial = nontrivial and compared > 0
    out.label(_size_label(nobs))
    out.info = {"observations": nobs, "intervals": m.M, "compared_states": compared}


RULE = RULE + " " + 'Later additions: second use - two further periods of equal length with ONE query per period, compared with a fresh statistic.'
