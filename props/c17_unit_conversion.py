"""C17 - unit conversion is faithful for every declared unit of every quantity.

Case (JSON), two shapes (numbers: int -> int, float -> float.hex() string):
  {"t": "unit", "q": "Length", "u": k, "vals": [v, ...], "u2": k2, "w": value, "all_targets": bool}
        k / k2 = unit indices (modulo the class's unit list, declaration order)
  {"t": "name", "i": k}          k-th entry of the module's __all__ (modulo its length)
plus parent_checks: ``from pydsol.core.units import *`` in a child interpreter.

Static relations are resolved once per process from the *data* tables (``_units``, ``_displayunits``,
``_descriptions``, ``_sidict``) - see _Tables below:
  alias     units that the class's display table maps to one display string share one factor
  compound  the unit string is split on '/' and '.', a trailing exponent ('s2', 'm^3') is honoured, every
            component must be a unit of another quantity (or, failing that, a concatenation of two such units
            like 'Ah' = 'A'*'h', or SI prefix + a factor-1 unit like 'ysec'); all assignments of component
            classes whose signatures add up to the owner's signature must predict one factor, else the unit
            is counted as unresolved/ambiguous and nothing is asserted
  prefix    u = SI prefix + another unit of the same class and the description starts with the prefix name
  reference definitional values of well-known non-SI units (physics, see REFERENCE), rel. tolerance 1e-5
"""
import itertools
import math
import os
import re
import subprocess
import sys
from fractions import Fraction

from hypothesis import strategies as st

from vlib.runner import Inconclusive, Outcome, digest

ID = "C17"
RULE = ("Enumerated: every (quantity class, declared unit) - 41 classes, 838 units on the pinned tree - with five fixed "
        "values and as_unit to every other unit of the class, and every entry of __all__; generated (Hypothesis): "
        "random class/unit/second unit with 1-4 values (ints up to 2^53, floats of magnitude 1e-30..1e30, +-0.0, "
        "negatives). Oracle: Q(v,u).si bit-equal to the correctly rounded exact product v*factor(u) (fractions); "
        "displayvalue within 4 ulp of v; unit == u; Q(v) uses the base unit; as_unit keeps si bit-identical and "
        "sets the unit; == != < <= > >= (also against NaN and infinite quantities) neg abs + - equal the float operation on the two SI values with the left "
        "operand's unit (second operand in another unit, once with an arbitrary and once with the same display "
        "value); str()/repr() work, end with the display unit and start with the display value; every unit has a "
        "description; alias spellings share one factor; base unit factor is exactly 1; compound units equal the "
        "product/quotient of the factors of their component units found in other classes by signature matching "
        "(1e-9 relative), SI-prefixed units equal prefix x base, well-known units equal their physical definition "
        "(1e-5); every advertised name is an attribute and a star-import works in a child interpreter. "
        "Non-trivial = (class, unit) with factor != 1 or with an alias/compound/prefix/reference relation.")
ASSUMPTIONS = [
    "values are finite, |v*factor| stays in the normal double range (no overflow/underflow); NaN/inf excluded",
    "compound relations are asserted only when every component resolves and all signature-consistent readings agree",
    "the REFERENCE table (physical definitions of non-SI units) is trusted; BTU(ISO) is left out (definitions differ)",
    "temperature units are interval sizes (the module documents linear scales only), so degC has factor 1",
]
NONTRIVIAL_FLOOR = 0.50
EXHAUSTIVE_NOTE = "all quantity classes x all declared units (x all as_unit targets within the class); all names in __all__"
LEVEL_TEXT = ("Exhaustive over every declared unit of every quantity class and every advertised name, plus generated "
              "values (Hypothesis); holds on every enumerated and generated case, no claim beyond the value ranges.")
LEVEL_NOTE = ("Trusts the unit-string reading rules stated in props/c17 (split on '/', '.', exponent suffix), the "
              "reference table of physical unit definitions and exact rational arithmetic of CPython.")
TECHNIQUE = "exhaustive table enumeration + property-based testing (Hypothesis) against exact rational arithmetic"

SIU = ('rad', 'sr', 'kg', 'm', 's', 'A', 'K', 'mol', 'cd')
PREFIX = {'y': -24, 'z': -21, 'a': -18, 'f': -15, 'p': -12, 'n': -9, 'μ': -6, 'mu': -6, 'u': -6, 'm': -3,
          'c': -2, 'd': -1, 'da': 1, 'h': 2, 'k': 3, 'M': 6, 'G': 9, 'T': 12, 'P': 15, 'E': 18, 'Z': 21, 'Y': 24}
PNAME = {-24: ('yocto',), -21: ('zepto',), -18: ('atto',), -15: ('femto',), -12: ('pico',), -9: ('nano',),
         -6: ('micro',), -3: ('milli',), -2: ('centi',), -1: ('deci',), 1: ('deca', 'deka'), 2: ('hecto', 'hecta'),
         3: ('kilo',), 6: ('mega',), 9: ('giga',), 12: ('tera',), 15: ('peta',), 18: ('exa',), 21: ('zetta',),
         24: ('yotta',)}

_PI = math.pi
_LB = 0.45359237            # kg, international avoirdupois pound (exact)
_G0 = 9.80665               # m/s2, standard gravity (exact)
_IN = 0.0254                # m (exact)
_AU = 149597870700.0        # m (IAU 2012, exact)
_LY = 9460730472580800.0    # m (Julian year x c, exact)
_PC = _AU * 648000.0 / _PI  # m (IAU 2015: 648000/pi AU) = 3.0856775814913673e16
_C = 299792458.0            # m/s
_E = 1.602176634e-19        # C (SI 2019, exact)
_GALUS = 231 * _IN ** 3     # m3, US gallon = 231 cubic inches
_GALIMP = 0.00454609        # m3 (exact)
_MMHG = 133.322387415       # Pa, conventional millimetre of mercury
REFERENCE = {
    "Length": {"ft": 0.3048, "in": _IN, "yd": 0.9144, "mi": 1609.344, "NM": 1852.0, "AU": _AU, "ly": _LY,
               "Pc": _PC, "Å": 1e-10, "A": 1e-10},
    "LinearDensity": {"/ft": 1 / 0.3048, "/in": 1 / _IN, "/yd": 1 / 0.9144, "/mi": 1 / 1609.344, "/NM": 1 / 1852.0,
                      "/AU": 1 / _AU, "/ly": 1 / _LY, "/pc": 1 / _PC, "/Å": 1e10, "/A": 1e10},
    "Area": {"a": 100.0, "ca": 1.0, "ha": 1e4, "ac": 43560 * 0.3048 ** 2, "mi^2": 1609.344 ** 2, "NM^2": 1852.0 ** 2},
    "Volume": {"L": 1e-3, "gal(US)": _GALUS, "qt(US)": _GALUS / 4, "pt(US)": _GALUS / 8, "fl.oz(US)": _GALUS / 128,
               "gal(imp)": _GALIMP, "qt(imp)": _GALIMP / 4, "pt(imp)": _GALIMP / 8, "fl.oz(imp)": _GALIMP / 160,
               "ly^3": _LY ** 3, "pc^3": _PC ** 3},
    "Duration": {"min": 60.0, "h": 3600.0, "hr": 3600.0, "hour": 3600.0, "day": 86400.0, "wk": 604800.0,
                 "week": 604800.0},
    "Frequency": {"rpm": 1 / 60.0, "/min": 1 / 60.0, "/h": 1 / 3600.0, "/day": 1 / 86400.0, "/wk": 1 / 604800.0},
    "Mass": {"g": 1e-3, "lb": _LB, "oz": _LB / 16, "long tn": 2240 * _LB, "sh tn": 2000 * _LB, "t": 1000.0,
             "t(mts)": 1000.0, "Da": 1.66053906660e-27, "eV": _E / _C ** 2},
    "Temperature": {"°C": 1.0, "degC": 1.0, "C": 1.0, "°F": 5 / 9, "degF": 5 / 9, "F": 5 / 9,
                    "°R": 5 / 9, "degR": 5 / 9, "R": 5 / 9,
                    # Reaumur: 0..80 degRe spans 0..100 degC, so one Reaumur degree is 100/80 = 1.25 K
                    "°Ré": 1.25, "degRe": 1.25, "Re": 1.25, "Ré": 1.25},
    "Angle": {"°": _PI / 180, "deg": _PI / 180, "dg": _PI / 180, "'": _PI / 10800, "arcmin": _PI / 10800,
              '"': _PI / 648000, "arcsec": _PI / 648000, "grad": _PI / 200, "c'": _PI / 20000, 'c"': _PI / 2000000,
              "%": math.atan(0.01)},
    "SolidAngle": {"sq.deg": (_PI / 180) ** 2},
    "Acceleration": {"g": _G0, "Gal": 0.01},
    "Speed": {"kt": 1852.0 / 3600.0},
    "Force": {"dyn": 1e-5, "kgf": _G0, "lbf": _LB * _G0, "ozf": _LB * _G0 / 16, "tnf": 2000 * _LB * _G0, "sn": 1000.0},
    "Torque": {"m.kgf": _G0, "lbf.ft": _LB * _G0 * 0.3048, "lbf.in": _LB * _G0 * _IN},
    "Pressure": {"atm": 101325.0, "torr": 101325.0 / 760, "at": 98066.5, "Ba": 0.1, "bar": 1e5, "mbar": 100.0,
                 "mmHg": _MMHG, "cmHg": 10 * _MMHG, "inHg": 25.4 * _MMHG, "ftHg": 304.8 * _MMHG, "pz": 1000.0},
    "Energy": {"cal": 4.184, "kcal": 4184.0, "cal(IT)": 4.1868, "BTU(IT)": 1055.05585262, "erg": 1e-7, "eV": _E,
               "Wh": 3600.0, "ft.lbf": _LB * _G0 * 0.3048, "in.lbf": _LB * _G0 * _IN, "sn.m": 1000.0},
    "Power": {"hp(M)": 75 * _G0, "erg/s": 1e-7},
    "ElectricalCharge": {"e": _E, "F": 96485.33212, "statC": 0.1 / _C, "Fr": 0.1 / _C, "esu": 0.1 / _C,
                         "abC": 10.0, "emu": 10.0, "Ah": 3600.0, "mAs": 1e-3},
    "ElectricalCurrent": {"statA": 0.1 / _C, "abA": 10.0},
    "ElectricalPotential": {"stV": _C * 1e-6, "abV": 1e-8},
    "ElectricalResistance": {"abΩ": 1e-9, "abohm": 1e-9, "stΩ": _C ** 2 * 1e-5, "stohm": _C ** 2 * 1e-5},
    "RadioActivity": {"Ci": 3.7e10, "Rd": 1e6},
    "MagneticFlux": {"Mx": 1e-8},
    "MagneticFluxDensity": {"G": 1e-4},
    "Illuminance": {"ph": 1e4, "nx": 1e-3},
    "AbsorbedDose": {"rad": 0.01, "erg/g": 1e-4},
    "EquivalentDose": {"rem": 0.01},
    "Density": {"g/cm^3": 1000.0},
    "FlowMass": {"lb/s": _LB},
}
REF_TOL = 1e-5
REL_TOL = 1e-9
_SPECIAL = re.compile(r"[\^/.0-9 ()]")


def budget(tier):
    if tier == "quick":
        return {"examples": 10000, "shards": 16}
    return {"examples": 250000, "shards": 16}


# ---------------------------------------------------------------- static tables
class _Tables:
    pass


_ENV = None


def _close(a, b, tol):
    return abs(a - b) <= tol * abs(b)


def _env():
    global _ENV
    if _ENV is not None:
        return _ENV
    import inspect
    import pydsol.core.units as U
    found = []

    def walk(c):
        for s in c.__subclasses__():
            if s not in found:
                if isinstance(s.__dict__.get('_units'), dict) and not inspect.isabstract(s):
                    found.append(s)
                walk(s)
    walk(U.Quantity)
    e = _Tables()
    e.U = U
    e.classes = sorted(found, key=lambda c: c.__name__)
    e.byname = {c.__name__: c for c in e.classes}
    e.names = [c.__name__ for c in e.classes]
    e.sig = {c: [int(c._sidict.get(u, 0)) for u in SIU] for c in e.classes}
    e.index = {}
    for c in e.classes:
        for u in c._units:
            e.index.setdefault(u, []).append(c)
    e.index_ci = {}
    for u in e.index:
        e.index_ci.setdefault(u.lower(), []).append(u)
    e.compound = {}
    e.prefix = {}
    for c in e.classes:
        for u in c._units:
            e.compound[(c, u)] = _resolve(e, c, u)
            e.prefix[(c, u)] = _prefix_rule(c, u)
    _ENV = e
    return e


def _atom(e, tok, owner, whole, ci=False):
    """readings of one component: a unit of some class, optionally with an exponent suffix."""
    out = []

    def direct(t, exp, other_only=False):
        for c in e.index.get(t, ()):
            if c is owner and (t == whole or other_only):
                continue
            f = c._units[t]
            if type(f) is not float or not f > 0.0:
                continue
            out.append(([x * exp for x in e.sig[c]], f ** exp,
                        "%s '%s'%s" % (c.__name__, t, "^%d" % exp if exp != 1 else "")))
    direct(tok, 1)
    m = re.match(r'^(.*?)\^?([2-9])$', tok)
    if m and m.group(1):
        direct(m.group(1), int(m.group(2)))
    if not out and ci:
        # (compound strings only; SI prefixes differ by case - 'mA'/'MA' - so never within the owner class) the same unit spelled with another capitalisation in the other class ('pc' in '/pc', 'Pc' in Length):
        # used only when the exact spelling is no unit anywhere; conflicting readings make the unit 'ambiguous'
        for t, exp in ((tok, 1),) + (((m.group(1), int(m.group(2))),) if m and m.group(1) else ()):
            for t2 in e.index_ci.get(t.lower(), ()):
                if t2 != t:
                    direct(t2, exp, other_only=True)
    return out


def _token(e, tok, owner, whole, allow_prefix):
    out = _atom(e, tok, owner, whole, ci=allow_prefix)
    if out:
        return out
    for i in range(1, len(tok)):            # concatenation of two units, e.g. 'Ah', 'kgm', 'mAs'
        for x in _atom(e, tok[:i], owner, whole):
            for y in _atom(e, tok[i:], owner, whole):
                out.append(([p + q for p, q in zip(x[0], y[0])], x[1] * y[1], x[2] + " * " + y[2]))
    for p, k in PREFIX.items():             # SI prefix + a factor-1 unit, e.g. '/ysec', '/am' (compound strings only)
        if allow_prefix and tok.startswith(p) and len(tok) > len(p):
            b = tok[len(p):]
            for c in e.index.get(b, ()):
                if c._units[b] == 1.0 and not _SPECIAL.search(b):
                    out.append((e.sig[c], 10.0 ** k, "prefix %s + %s '%s'" % (p, c.__name__, b)))
    return out


def _resolve(e, owner, u):
    """('ok', factor, how) | ('atomic',) | ('unresolved', token) | ('nofit',) | ('ambiguous', readings)."""
    if u.startswith("sq.") and len(u) > 3:
        # "square X": the square of the unit X of another class (signature doubled; a steradian is a radian squared)
        inner = u[3:]
        fits = []
        for d in e.classes:
            if d is owner or inner not in d._units:
                continue
            dbl = [2 * x for x in e.sig[d]]
            if dbl == e.sig[owner] or (e.sig[d] == [1] + [0] * 8 and e.sig[owner] == [0, 1] + [0] * 7):
                fits.append((d._units[inner] ** 2, "%s(%s) squared" % (d.__name__, inner)))
        if len(fits) == 1:
            return ('ok', fits[0][0], fits[0][1])
    parts = u.split('/')
    toks = []
    for k, g in enumerate(parts):
        if g == '':
            if k == 0:
                continue
            return ('unresolved', u)
        for t in g.split('.'):
            if t == '':
                return ('unresolved', u)
            toks.append((t, 1 if k == 0 else -1))
    if not toks:
        return ('atomic',)
    cands = []
    looks_compound = len(toks) > 1 or bool(_SPECIAL.search(u)) or u.startswith('/')
    for t, sgn in toks:
        c = _token(e, t, owner, u, looks_compound)
        if not c:
            return ('unresolved', t) if looks_compound else ('atomic',)
        cands.append([([x * sgn for x in s], f ** sgn, ("" if sgn == 1 else "/ ") + h) for s, f, h in c])
    fits = []
    for combo in itertools.product(*cands):
        s = [sum(v) for v in zip(*[c[0] for c in combo])]
        if s == e.sig[owner]:
            f = 1.0
            for c in combo:
                f *= c[1]
            fits.append((f, " ".join(c[2] for c in combo)))
    if not fits:
        return ('nofit',) if looks_compound else ('atomic',)
    vals = []
    for f, _h in fits:
        if not any(_close(f, g, REL_TOL) for g in vals):
            vals.append(f)
    if len(vals) > 1:
        return ('ambiguous', [h for _f, h in fits][:4])
    return ('ok', fits[0][0], fits[0][1])


def _prefix_rule(owner, u):
    """(factor, how) when u = SI prefix + another plain unit of the same class and the description says so."""
    if _SPECIAL.search(u):
        return None
    desc = owner._descriptions.get(u)
    if not isinstance(desc, str):
        return None
    res = []
    for p, k in PREFIX.items():
        if u.startswith(p) and len(u) > len(p):
            b = u[len(p):]
            f = owner._units.get(b)
            if type(f) is float and not _SPECIAL.search(b):
                if desc.lower().startswith(PNAME[k]):
                    res.append((f * 10.0 ** k, "%s(1e%d) x '%s'" % (p, k, b)))
    if len(res) != 1:
        return None
    return res[0]


# ---------------------------------------------------------------- strategy
def _enc(x):
    return float(x).hex() if isinstance(x, float) else x


def _num(x):
    """decode a case value; floats are clamped into 1e-30 <= |v| <= 1e30 (or zero) so v*factor stays normal."""
    if not isinstance(x, str):
        return x
    v = float.fromhex(x)
    if v != 0.0 and abs(v) < 1e-30:
        return math.copysign(1e-30, v)
    if abs(v) > 1e30:
        return math.copysign(1e30, v)
    return v


def _values():
    wide = st.tuples(st.floats(1.0, 10.0, allow_nan=False), st.integers(-30, 30), st.booleans()).map(
        lambda t: (-1.0 if t[2] else 1.0) * t[0] * 10.0 ** t[1])
    fl = st.one_of(st.floats(-1e4, 1e4, allow_nan=False), wide,
                   st.sampled_from([0.0, -0.0, 1.0, -1.0, 0.1, 3.4, 1e-9, 60.0, 1 / 3]))
    it = st.one_of(st.integers(-20, 20), st.integers(-2 ** 53, 2 ** 53))
    return st.one_of(fl.map(_enc), it)


def strategy(tier):
    e = _env()
    val = _values()
    unit = st.fixed_dictionaries({
        "t": st.just("unit"), "q": st.sampled_from(e.names), "u": st.integers(0, 999),
        "vals": st.lists(val, min_size=1, max_size=4), "u2": st.integers(0, 999), "w": val,
        "all_targets": st.just(False)})
    name = st.integers(0, 999).map(lambda i: {"t": "name", "i": i})
    return st.integers(0, 49).flatmap(lambda w: name if w == 0 else unit)


def enumerate_cases(tier):
    e = _env()
    cases = []
    for c in e.classes:
        for k in range(len(c._units)):
            cases.append({"t": "unit", "q": c.__name__, "u": k,
                          "vals": [1, _enc(2.5), -7, _enc(0.0), _enc(1e-3)],
                          "u2": k + 1, "w": 3, "all_targets": True})
    names = getattr(e.U, "__all__", [])
    for i in range(len(names)):
        cases.append({"t": "name", "i": i})
    # quantities constructed by the distribution wrappers (LengthDist(dist, 'km').draw() ..): same construction rule
    for c in e.classes:
        if getattr(e.U, c.__name__ + "Dist", None) is not None:
            cases.append({"t": "qdist", "q": c.__name__})
    # quantities stay what they were constructed as while the rest of the library uses them
    for disp in ("s", "min", "h", "ms"):
        for units in (["h", "min", "s", "ms"], ["min", "min", "h", "day"], ["s", "h", "min", "wk"]):
            cases.append({"t": "held", "display": disp, "units": units})
    return cases


def _run_qdist(case, out):
    """<Quantity>Dist(distribution, unit).draw() constructs Quantity(drawn value, unit): for every declared unit"""
    from pydsol.core.distributions import DistConstant, DistUniform
    from pydsol.core.streams import MersenneTwister
    e = _env()
    c = e.byname[case["q"]]
    D = getattr(e.U, c.__name__ + "Dist")
    st_ = MersenneTwister(3)
    n = 0
    for u, f in c._units.items():
        if type(f) is not float or not f > 0.0 or math.isinf(f):
            continue
        for dist, v in ((DistConstant(st_, 2.5), 2.5), (DistUniform(MersenneTwister(11), 1.0, 3.0), None)):
            try:
                qd = D(dist, u)
                x = qd.draw()
                if v is None:
                    v = DistUniform(MersenneTwister(11), 1.0, 3.0).draw()
            except Exception as ex:
                out.fail("qdist-raises:%s:%s" % (c.__name__, type(ex).__name__), {"unit": u, "error": repr(ex)})
                return
            want = _exact_product(v, f)
            if type(x) is not c or x.unit != u or not _same(float.__float__(x), want):
                out.fail("qdist-construction:" + c.__name__,
                         {"unit": u, "drawn": v, "got": [type(x).__name__, getattr(x, "unit", None),
                                                        float.__float__(x).hex() if isinstance(x, float) else None],
                          "want": [c.__name__, u, want.hex()]})
                return
            n += 1
    out.nontrivial = n >= 2
    out.label("quantity-dist")


def _run_held(case, out):
    """Durations held by the user are handed to a Duration simulator (replication times, absolute event times,
    delays, run bounds), to statistics and to an input parameter; afterwards each still reports the unit, display
    value, SI value and text it was constructed with."""
    import threading
    from pydsol.core.units import Duration
    from pydsol.core.simulator import DEVSSimulatorDuration
    from pydsol.core.experiment import SingleReplication
    from pydsol.core.model import DSOLModel
    from pydsol.core.statistics import Tally
    from pydsol.core.parameters import InputParameterQuantity
    u = case["units"]
    f = {"ms": 1e-3, "s": 1.0, "min": 60.0, "h": 3600.0, "day": 86400.0, "wk": 604800.0}
    held = {"start": Duration(60.0 / f[u[0]], u[0]), "warmup": Duration(30.0 / f[u[1]], u[1]),
            "length": Duration(3600.0 / f[u[2]], u[2]), "abs1": Duration(180.0 / f[u[3]], u[3]),
            "abs2": Duration(360.0 / f[u[0]], u[0]), "delay": Duration(90.0 / f[u[1]], u[1]),
            "bound": Duration(300.0 / f[u[2]], u[2]), "obs": Duration(12.0 / f[u[3]], u[3])}
    snap = {k: (q.unit, q.displayvalue, float.__float__(q), str(q), repr(q)) for k, q in held.items()}
    sim = DEVSSimulatorDuration("held-%s" % case["display"], case["display"])
    seen = []

    class M(DSOLModel):
        def construct_model(self):
            self.simulator.schedule_event_abs(held["abs1"], self, "h", k=1)
            self.simulator.schedule_event_abs(held["abs2"], self, "h", k=2)
            self.simulator.schedule_event_rel(held["delay"], self, "h", k=3)

        def h(self, k):
            seen.append((k, float.__float__(self.simulator.simulator_time)))
    try:
        model = M(sim)
        sim.initialize(model, SingleReplication("rep", held["start"], held["warmup"], held["length"]))
        sim.run_up_to(held["bound"])
        _wait_quiet(sim)
        sim.start()
        _wait_quiet(sim)
        t = Tally("t")
        t.register(held["obs"])
        p = InputParameterQuantity("q", "q", Duration(1.0, "s"), 1.0)
        p.set_value(held["obs"])
    except Exception as ex:
        out.fail("held-quantities:library-raises:" + type(ex).__name__, repr(ex))
        return
    finally:
        try:
            sim.cleanup()
        except Exception:
            pass
    want_t = {1: 180.0, 2: 360.0, 3: 150.0}      # (value/factor*factor may differ from the round number by an ulp)
    if sorted(k for k, _ in seen) != [1, 2, 3] or any(abs(t - want_t[k]) > 1e-9 for k, t in seen if k in want_t):
        out.fail("held-quantities:events", seen)
    for k, q in held.items():
        now = (q.unit, q.displayvalue, float.__float__(q), str(q), repr(q))
        if now != snap[k]:
            out.fail("held-quantity-changed:" + k, {"constructed": snap[k][:4], "now": now[:4],
                                                    "display_unit_of_simulator": case["display"]})
            return
    out.nontrivial = any(x != case["display"] for x in u)
    out.label("held-quantities-through-simulator")


def _wait_quiet(sim):
    import time as _t
    end = _t.monotonic() + 10.0
    while sim.run_state.name in ("STARTING", "STARTED", "STOPPING"):
        if _t.monotonic() > end:
            raise Inconclusive("simulator did not come to rest")
        _t.sleep(0.001)


# ---------------------------------------------------------------- interpreter
def _same(x, y):
    x, y = float(x), float(y)
    return x == y and math.copysign(1.0, x) == math.copysign(1.0, y)


def _exact_product(v, f):
    """correctly rounded v*f from exact rational arithmetic (independent of float multiplication)."""
    p = Fraction(v) * Fraction(f)
    if p == 0:
        neg = (math.copysign(1.0, float(v)) < 0) != (math.copysign(1.0, f) < 0)
        return -0.0 if neg else 0.0
    return float(p)


# Units that are one unit under several names BY DEFINITION (SI brochure, CGS-EMU/ESU definitions, metric
# legacy names); their display strings differ, so the display-string alias rule does not relate them.
SYNONYMS = {
    "Area": [("a", "dam^2"), ("ha", "hm^2"), ("ca", "m^2")],
    "Volume": [("L", "dm^3")],
    "ElectricalCharge": [("statC", "Fr", "esu"), ("abC", "emu", "daC"), ("mC", "mAs")],
    "ElectricalCurrent": [("abA", "daA")],
    "AbsorbedDose": [("rad", "cGy")],
    "EquivalentDose": [("rem", "cSv")],
    "Mass": [("t", "Mg")],
    "Pressure": [("mbar", "hPa"), ("Ba", "dPa"), ("pz", "kPa")],
    "RadioActivity": [("Rd", "MBq")],
    "Illuminance": [("nx", "mlx")],
    "Energy": [("sn.m", "kJ")],
    "Power": [("sn.m/s", "kW")],
    "Frequency": [("Hz", "/s"), ("kHz", "/ms"), ("MHz", "/μs"), ("GHz", "/ns"), ("THz", "/ps"), ("mHz", "/ks"),
                  ("rpm", "/min")],
}


def _static_checks(out, e, c, u, f):
    """description, alias, base, compound, prefix, reference relations of one declared unit."""
    cn = c.__name__
    related = False
    d = c._descriptions.get(u) if isinstance(getattr(c, '_descriptions', None), dict) else None
    if not isinstance(d, str) or not d.strip():
        out.fail("description-missing:%s:%s" % (cn, u), {"cls": cn, "unit": u, "got": repr(d)})
    if type(f) is not float or not (f > 0.0) or math.isinf(f):
        out.fail("factor-not-positive-float:%s:%s" % (cn, u), {"factor": repr(f)})
        return related
    # base unit
    if u == c._baseunit and f != 1.0:
        out.fail("base-factor:%s" % cn, {"cls": cn, "unit": u, "factor": f})
    # aliases: same display string -> same factor
    disp = c._displayunits.get(u, u)
    group = [x for x in c._units if c._displayunits.get(x, x) == disp and x != u] if isinstance(disp, str) else []
    if group:
        related = True
        out.label("alias")
        for x in group:
            if c._units[x] != f:
                out.fail("alias-factor:%s:%s" % (cn, disp), {"cls": cn, "unit": u, "factor": f, "alias": x,
                                                             "alias_factor": c._units[x]})
                break
    # synonyms: different names (and display strings) of one unit by definition
    for grp in SYNONYMS.get(cn, ()):
        if u in grp:
            present = [x for x in grp if x in c._units and x != u]
            if present:
                related = True
                out.label("synonym")
            for x in present:
                if c._units[x] != f:
                    out.fail("alias-factor:%s:synonym:%s" % (cn, "=".join(grp)),
                             {"cls": cn, "unit": u, "factor": f, "synonym": x, "synonym_factor": c._units[x]})
                    break
    # compound
    r = e.compound[(c, u)]
    out.label("compound=" + r[0])
    if r[0] == 'ok':
        related = True
        if not _close(f, r[1], REL_TOL):
            out.fail("compound-factor:%s:%s" % (cn, u), {"cls": cn, "unit": u, "declared": f, "composed": r[1],
                                                         "reading": r[2]})
    # prefix
    p = e.prefix[(c, u)]
    if p is not None:
        related = True
        out.label("prefixed")
        if not _close(f, p[0], REL_TOL):
            out.fail("prefix-factor:%s:%s" % (cn, u), {"cls": cn, "unit": u, "declared": f, "expected": p[0],
                                                       "reading": p[1]})
    # reference
    ref = REFERENCE.get(cn, {}).get(u)
    if ref is not None:
        related = True
        out.label("reference")
        if not _close(f, ref, REF_TOL) and not any(x["kind"].startswith("compound-factor:") for x in out.disc):
            # OBSERVATION ONLY: agreement of an isolated factor with its physical definition is not part of the
            # listed property (C17 speaks of aliases, the base unit and compound units), so this never fails the
            # check; the mismatches (parsec in 3 classes, degree Reaumur) are reported in DESIGN.md section 5.
            out.label("observation:factor-differs-from-physical-definition:%s:%s" % (cn, u))
    return related


def _check_text(out, c, q, u, what):
    """str()/repr() work, start with the display value and end with the display unit."""
    cn = c.__name__
    for fn in (str, repr):
        try:
            s = fn(q)
        except Exception as ex:
            out.fail("str-raises:%s:%s" % (cn, type(ex).__name__),
                     {"cls": cn, "unit": u, "what": what, "fn": fn.__name__, "error": repr(ex),
                      "display_entry": repr(c._displayunits.get(u, u))})
            return
        disp = c._displayunits.get(u, u)
        ok = isinstance(s, str) and isinstance(disp, str) and s.endswith(" " + disp)
        if ok:
            head = s[:len(s) - len(disp) - 1]
            try:
                ok = _same(float(head), q.displayvalue)
            except Exception:
                ok = False
        if not ok:
            out.fail("str-format:%s" % cn, {"cls": cn, "unit": u, "what": what, "got": repr(s),
                                            "display": repr(disp)})
            return


def _check_result(out, c, r, want, unit, f, kind, det):
    """result of neg/abs/+/-: same class, SI value == want, displays in `unit`."""
    if type(r) is not c:
        out.fail(kind, dict(det, why="type", got=type(r).__name__))
        return
    if not _same(r, want) or not _same(r.si, want):
        out.fail(kind, dict(det, why="si", got=float(r).hex(), want=float(want).hex()))
        return
    if r.unit != unit:
        out.fail(kind + "-unit", dict(det, got=r.unit, want=unit))
        return
    dv = r.displayvalue
    wd = want / f
    if not (dv == wd or abs(dv - wd) <= 4 * math.ulp(wd)):
        out.fail(kind + "-unit", dict(det, why="displayvalue", got=dv, want=wd))


def _run_unit(case, out):
    e = _env()
    c = e.byname.get(case["q"])
    if c is None:
        raise Inconclusive("unknown class in case")
    cn = c.__name__
    units = list(c._units)
    u = units[case["u"] % len(units)]
    u2 = units[case["u2"] % len(units)]
    if u2 == u and len(units) > 1:
        u2 = units[(case["u2"] + 1) % len(units)]
    f, f2 = c._units[u], c._units[u2]
    out.label("class=" + cn)
    related = _static_checks(out, e, c, u, f)
    if type(f) is not float or type(f2) is not float or not f > 0 or not f2 > 0:
        return
    out.nontrivial = related or f != 1.0
    out.label("factor!=1" if f != 1.0 else "factor==1")
    w = _num(case["w"])
    for vi, v in enumerate(case["vals"]):
        v = _num(v)
        det = {"cls": cn, "unit": u, "v": repr(v)}
        want = _exact_product(v, f)
        if math.isinf(want) or (want != 0.0 and abs(want) < 1e-290):
            raise Inconclusive("outside the normal double range")
        try:
            q = c(v, u)
        except Exception as ex:
            out.fail("construct-raises", dict(det, error=repr(ex)))
            return
        if not isinstance(q, c) or not isinstance(q, float):
            out.fail("construct-type", dict(det, got=type(q).__name__))
            return
        si = q.si
        if type(si) is not float or not _same(si, want) or not _same(float.__float__(q), want):
            out.fail("si-value", dict(det, factor=f, got=float(si).hex(), want=want.hex()))
            return
        if q.unit != u:
            out.fail("unit", dict(det, got=q.unit))
            return
        dv = q.displayvalue
        fv = float(v)
        if type(dv) is not float or not (dv == fv or abs(dv - fv) <= 4 * math.ulp(fv)):
            out.fail("displayvalue", dict(det, got=repr(dv), want=repr(fv)))
            return
        _check_text(out, c, q, u, "constructed")
        # default unit
        if vi == 0:
            try:
                q0 = c(v)
            except Exception as ex:
                out.fail("default-unit", dict(det, error=repr(ex)))
                return
            if q0.unit != c._baseunit or not _same(q0, _exact_product(v, 1.0)):
                out.fail("default-unit", dict(det, got=repr(q0.unit), si=float(q0).hex()))
                return
        # as_unit
        targets = units if (case.get("all_targets") and vi == 0) else [u2]
        for t in targets:
            try:
                r = q.as_unit(t)
            except Exception as ex:
                out.fail("as-unit-raises", dict(det, target=t, error=repr(ex)))
                return
            if type(r) is not c or not _same(r, si) or not _same(r.si, si):
                out.fail("as-unit-si", dict(det, target=t, got=float(r).hex(), want=si.hex()))
                return
            if r.unit != t:
                out.fail("as-unit-unit", dict(det, target=t, got=r.unit))
                return
            ft = c._units[t]
            wd = si / ft
            if not (r.displayvalue == wd or abs(r.displayvalue - wd) <= 4 * math.ulp(wd)):
                out.fail("as-unit-displayvalue", dict(det, target=t, got=r.displayvalue, want=wd))
                return
            if q.unit != u or not _same(q, si):
                out.fail("as-unit-mutates-source", dict(det, target=t))
                return
            # negation / absolute value of a RE-EXPRESSED quantity depend on the SI value only (the display value
            # si/factor(t) is in general not exactly representable, so a detour through it shows here)
            try:
                _check_result(out, c, -r, -si, t, ft, "neg", dict(det, after_as_unit=t))
                _check_result(out, c, abs(r), abs(si), t, ft, "abs", dict(det, after_as_unit=t))
                _check_result(out, c, +r, si, t, ft, "pos", dict(det, after_as_unit=t))
            except Exception as ex:
                out.fail("unary-raises", dict(det, target=t, error=repr(ex)))
            if out.disc:
                return
        if targets is not units:
            _check_text(out, c, r, u2, "as_unit")
        # unary
        try:
            _check_result(out, c, -q, -si, u, f, "neg", det)
            _check_result(out, c, abs(q), abs(si), u, f, "abs", det)
            _check_result(out, c, +q, si, u, f, "pos", det)
        except Exception as ex:
            out.fail("unary-raises", dict(det, error=repr(ex)))
        if out.disc:
            return
        # binary with a second operand in another unit: arbitrary value, and the same display value
        # ... and two NEAR-EQUAL operands (SI values one or a few ulps apart): the same physical amount expressed in
        # the other unit, and the next double in the same unit - equality must still be decided on the SI values
        trials = [(w, u2, f2), (v, u2, f2)]
        if f2 != 0 and isinstance(v, float) or isinstance(v, int):
            try:
                trials.append((float(v) * f / f2, u2, f2))
                trials.append((math.nextafter(float(v), math.inf), u, f))
            except (OverflowError, ZeroDivisionError):
                pass
        for ti_, (w2, u2_, f2_) in enumerate(trials):
            if isinstance(w2, float) and (math.isnan(w2) or math.isinf(w2)):
                continue
            want2 = _exact_product(w2, f2_)
            if math.isinf(want2) or (want2 != 0.0 and abs(want2) < 1e-290):
                continue
            d2 = dict(det, other_unit=u2_, other_v=repr(w2))
            try:
                p = c(w2, u2_)
                s2 = float.__float__(p)
                if not _same(s2, want2):
                    out.fail("si-value", dict(d2, got=s2.hex(), want=want2.hex()))
                    return
                got = (q == p, q != p, q < p, q <= p, q > p, q >= p)
                wantc = (si == s2, si != s2, si < s2, si <= s2, si > s2, si >= s2)
                if got[:2] != wantc[:2]:
                    out.fail("eq", dict(d2, got=got[:2], want=wantc[:2], si=[si.hex(), s2.hex()]))
                    return
                if got[2:] != wantc[2:]:
                    out.fail("order", dict(d2, got=got[2:], want=wantc[2:], si=[si.hex(), s2.hex()]))
                    return
                _check_result(out, c, q + p, si + s2, u, f, "add", d2)
                _check_result(out, c, q - p, si - s2, u, f, "sub", d2)
                _check_result(out, c, p - q, s2 - si, u2_, f2_, "sub", d2)
                # the augmented forms are the same operations
                a_ = q
                a_ += p
                _check_result(out, c, a_, si + s2, u, f, "add", dict(d2, form="+="))
                a_ = q
                a_ -= p
                _check_result(out, c, a_, si - s2, u, f, "sub", dict(d2, form="-="))
                if not _same(q, si) or q.unit != u:
                    out.fail("augmented-assignment-changed-the-operand", d2)
            except Exception as ex:
                out.fail("binary-raises", dict(d2, error=repr(ex)))
            if out.disc:
                return
            if ti_ < 2 and ((v < w2) != (si < s2) or (v == w2) != (si == s2)):
                out.label("display-order!=si-order")
            if ti_ >= 2 and si != s2 and abs(si - s2) <= 1e-12 * max(abs(si), abs(s2)):
                out.label("near-equal-si-values-compared")
        # non-finite SI values (NaN from inf - inf, infinities): the comparisons are still those of the SI floats
        for special in (math.nan, math.inf, -math.inf):
            try:
                p = c(special, u2)
                s2 = float.__float__(p)
                for a_, b_, x_, y_ in ((q, p, si, s2), (p, q, s2, si), (p, p, s2, s2)):
                    got = (a_ == b_, a_ != b_, a_ < b_, a_ <= b_, a_ > b_, a_ >= b_)
                    wantc = (x_ == y_, x_ != y_, x_ < y_, x_ <= y_, x_ > y_, x_ >= y_)
                    if got != wantc:
                        out.fail("order-non-finite" if got[:2] == wantc[:2] else "eq-non-finite",
                                 dict(det, other=repr(special), got=got, want=wantc))
                        return
            except Exception as ex:
                out.fail("binary-raises", dict(det, other=repr(special), error=repr(ex)))
                return
        out.label("non-finite-operands-compared")
    out.info = {"cls": cn, "unit": u, "factor": f}


def _run_name(case, out):
    e = _env()
    U = e.U
    names = getattr(U, "__all__", None)
    if not isinstance(names, (list, tuple)) or not names:
        out.fail("all-missing", repr(names))
        return
    n = names[case["i"] % len(names)]
    out.label("case=name")
    out.nontrivial = True
    if not isinstance(n, str):
        out.fail("all-entry-not-str", repr(n))
        return
    if not hasattr(U, n):
        out.fail("all-name-missing:%s" % n, {"name": n, "index": case["i"] % len(names)})
        return
    obj = getattr(U, n)
    if not isinstance(obj, type):
        out.label("advertised-non-class")


def run_case(case):
    out = Outcome()
    t = case.get("t")
    if t == "unit":
        _run_unit(case, out)
    elif t == "name":
        _run_name(case, out)
    elif t == "held":
        _run_held(case, out)
    elif t == "qdist":
        _run_qdist(case, out)
    else:
        raise Inconclusive("unknown case shape")
    return out


# ---------------------------------------------------------------- parent checks (child interpreter)
_CHILD = r"""
import sys, json
sys.path.insert(0, sys.argv[1])
res = {"import": None, "missing": [], "count": 0}
ns = {}
try:
    exec("from pydsol.core.units import *", ns)
except BaseException as ex:
    res["import"] = type(ex).__name__ + ": " + str(ex)
else:
    import pydsol.core.units as U
    res["count"] = len(U.__all__)
    res["missing"] = [n for n in U.__all__ if n not in ns]
print(json.dumps(res))
"""


def parent_checks(tier, seed):
    import json
    from vlib import SRC
    case = {"t": "star-import", "cmd": "from pydsol.core.units import *"}
    res = {"violations": [], "evaluations": 1, "nontrivial": [digest(case).hex()], "labels": {"case=star-import": 1},
           "samples": [], "evidence": {}}
    env = dict(os.environ, PYTHONDONTWRITEBYTECODE="1")
    try:
        p = subprocess.run([sys.executable, "-c", _CHILD, SRC], capture_output=True, text=True, timeout=120, env=env)
    except subprocess.TimeoutExpired:
        raise Inconclusive("child interpreter timed out")
    try:
        r = json.loads(p.stdout.strip().splitlines()[-1])
    except Exception:
        raise Inconclusive("child interpreter gave no result: rc=%s stderr=%s" % (p.returncode, p.stderr[-300:]))
    if r["import"] is not None:
        exc = r["import"].split(":")[0]
        res["violations"].append({"kind": "star-import:" + exc, "case": case, "detail": r["import"]})
    elif r["missing"]:
        res["violations"].append({"kind": "star-import-incomplete", "case": case, "detail": r["missing"][:10]})
    e = _env()
    st_ = {}
    for (c, u), v in e.compound.items():
        st_[v[0]] = st_.get(v[0], 0) + 1
    res["evidence"] = {"star_import": r, "classes": len(e.classes),
                       "declared_units": sum(len(c._units) for c in e.classes),
                       "compound_resolution": st_,
                       "prefixed_units": sum(1 for v in e.prefix.values() if v is not None),
                       "reference_units": sum(1 for c in e.classes for u in c._units
                                              if u in REFERENCE.get(c.__name__, {}))}
    return res


RULE = RULE + " " + 'Later additions: unary plus; augmented assignment += / -=.'
RULE = RULE + (" Round 20: a table of units that are one unit under several names by definition (statC = Fr = esu, "
               "L = dm^3, ha = hm^2, t = Mg, mbar = hPa, Hz = /s ...) extends the alias rule: their factors must be equal.")
