"""Child interpreter of the C13 cross-process check (started by props/c13_seed_updates.parent_checks).

stdin: JSON list of configurations; stdout: JSON {"src", "hashseed", "hash_default", "results": [observation, ...]}.
The interesting input is the environment: PYTHONHASHSEED differs between the children.
"""
import json
import os
import sys

sys.dont_write_bytecode = True
VERIF_DIR = os.path.dirname(os.path.dirname(os.path.abspath(__file__)))
sys.path.insert(0, VERIF_DIR)

import vlib  # noqa: E402,F401  (puts $VERIF_REPO/src first on sys.path)
from props import c13_seed_updates as c13  # noqa: E402


def main():
    import logging
    logging.disable(logging.CRITICAL)
    cases = json.load(sys.stdin)
    import pydsol.core.streams as streams
    out = {"src": os.path.abspath(streams.__file__), "hashseed": os.environ.get("PYTHONHASHSEED"),
           "hash_default": hash("default"), "results": [c13.observe(c) for c in cases]}
    json.dump(out, sys.stdout)


if __name__ == "__main__":
    main()
