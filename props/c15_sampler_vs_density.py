"""C15 - samplers agree with their declared density / probability / cumulative functions.

Case (JSON):
  {"t": "dist", "cls": "DistGamma", "p": {"shape": hex, "scale": hex}, "seed": int, "n": int,
   "origin": "grid" | "random", "probes": [hex u in (0,1), ...]}     floats = float.hex(), ints = int
  {"t": "erf_inv", "ys": [hex, ...]}
  {"t": "beta", "zw": [[hex, hex], ...]}
The sample of size n is drawn from a MersenneTwister(seed) (wrapped only to count the uniforms
consumed per draw), so a case is a pure function of its data.

Decision rule of the statistical clauses: reject only at p < 1e-10 (stricter than the 1e-9 of the design,
because a quick run performs ~5 000 and a thorough run ~20 000 tests)
  KS   : D > sqrt(ln(2e10) / (2 n)) + 5e-4     (DKW/Massart bound, exact for finite n; D is evaluated
         at ~400 order statistics = lower bound of the true D, so the bound stays valid);
         = 0.0248 for n = 20 000, 0.0068 for n = 300 000
  chi2 : upper tail probability Q(df/2, chi2/2) < 1e-10, cells pooled to expectation >= 25
Discrepancy kinds are `<clause>:<Class>[:<qualifier>]`.
"""
import collections
import math

from hypothesis import strategies as st

from vlib.runner import Outcome, Inconclusive
from props import _c15_refs as R

ID = "C15"
RULE = ("Enumerated parameter grid that reaches every sampler branch (gamma shape <1/=1/>1 incl. inner gammas "
        "of Beta/Pearson5/Pearson6, Erlang k below/at/above GAMMATHRESHOLD=10, normal truncation none/one-/two-sided/"
        "far tail, triangular mode at lo/hi/interior, Bernoulli/binomial p at 0, small, 1/2, near 1 and 1, Poisson small/"
        "large/int rate) plus Hypothesis-drawn parameters from the stated moderate ranges (shapes/scales 0.05..50, "
        "k<=60, n<=300, rate<=100, p in [0.01,0.99]) and a stream seed, all expanded deterministically from one Hypothesis-drawn 64-bit key; sample size 20 000 (quick) / 300 000 "
        "(thorough), capped so that one case consumes <= 2e6 / 2e7 uniforms.  Oracle continuous: pdf >= 0 and finite "
        "at every quadrature node, exactly 0 outside the support, adaptive Gauss-Kronrod integral of the DECLARED pdf "
        "over the effective support (reference tails <= 1e-9) = 1 +- 1e-6, KS distance of the sample against the "
        "running integral of the declared pdf and against an independent closed-form cdf (mpmath gammainc/betainc/"
        "ncdf, math.erfc/expm1).  Discrete: pmf >= 0, 0 at non-integers and outside the support, = reference pmf "
        "(1e-9 rel), sum = 1 +- 1e-9, no sampled value with pmf 0, pooled chi-square of the frequencies against "
        "probability().  cdf/inverse (Normal, LogNormal, NormalTrunc, erf_inv, beta): reference agreement, "
        "monotone, cdf differences = integral of pdf, inv(cdf(x)) = x and cdf(inv(y)) = y within 1e-6*|x-mu| "
        "(documented 4.5e-8) for |2y-1| <= 1-1e-9.  Statistical clauses fail only at p < 1e-10.  Non-trivial = "
        "a random (non-grid) parameter set, or a sample in which >= 2 distinct sampler paths were observed "
        "(distinct numbers of uniforms per draw, both gamma acceptance steps, both triangular halves, both "
        "Bernoulli outcomes, several erf_inv approximations); distinct = distinct case digests.")
ASSUMPTIONS = [
    "DistConstant is a point mass: only draw == constant and pdf == 0 elsewhere are checked",
    "parameters are restricted to the stated moderate ranges; Beta alpha2 >= 0.2 in random cases (for smaller "
    "alpha2 a non-negligible mass lies within one ulp of 1.0 and the sample has a rounding atom at 1.0)",
    "the integral / declared-density KS clauses are skipped (labelled) when the effective support is not "
    "resolvable in doubles (mass > 1e-9 beyond logit 36 or beyond e^+-700)",
    "Poisson rate > 700 is outside the pmf clauses (exp(-rate) underflows); its one enumerated case compares the "
    "sample with the reference Poisson pmf only (kind sample-vs-pmf:DistPoisson:rate>700)",
    "the density is evaluated only inside the effective support (+ a few points outside the support), so "
    "overflow of a pdf formula at astronomically improbable arguments is not asserted",
    "statistical resolution: D ~ 0.025 (n = 20 000) / 0.007 (n = 300 000); subtler shape errors pass",
    "math.erf / math.erfc / math.lgamma of the C library and mpmath are trusted",
    "the chi-square tail is the asymptotic one; with pooled expectations >= 25 the true false-alarm rate of a "
    "single test stays <~ 1e-8",
]
NONTRIVIAL_FLOOR = 0.5
LEVEL_TEXT = "exploration"
TECHNIQUE = ("property-based (Hypothesis) parameter generation + enumerated branch grid; goodness-of-fit "
             "(Kolmogorov-Smirnov with DKW bound, pooled chi-square) at p < 1e-10; adaptive Gauss-Kronrod "
             "quadrature of the declared density; mpmath closed forms as independent oracle")
LEVEL_NOTE = "statistical agreement has resolution D ~ 0.007 at the thorough size"

CONT = ["DistBeta", "DistErlang", "DistExponential", "DistGamma", "DistNormal", "DistLogNormal",
        "DistNormalTrunc", "DistPearson5", "DistPearson6", "DistTriangular", "DistUniform", "DistWeibull"]
DISC = ["DistBernoulli", "DistBinomial", "DistDiscreteUniform", "DistGeometric", "DistNegBinomial",
        "DistPoisson"]
HAS_CDF = ("DistNormal", "DistLogNormal", "DistNormalTrunc")
N_SAMPLE = {"quick": 20000, "thorough": 300000}
U_CAP = {"quick": 2000000, "thorough": 20000000}
KS_SLACK = 5e-4
INT_TOL = 1e-6
INF = math.inf


def budget(tier):
    if tier == "quick":
        return {"examples": 1920, "shards": 16, "shrink_seconds": 10}
    return {"examples": 6400, "shards": 16, "shrink_seconds": 120}


# --------------------------------------------------------------------------------- encoding
def _enc(v):
    return v if isinstance(v, int) and not isinstance(v, bool) else float(v).hex()


def _dec(v):
    return float.fromhex(v) if isinstance(v, str) else v


def _uniforms_per_draw(cls, p):
    if cls == "DistBinomial":
        return p["n"]
    if cls == "DistPoisson":
        return float(p["rate"]) + 1.0 if float(p["rate"]) <= 700 else 747.0
    if cls == "DistNegBinomial":
        return p["s"]
    if cls == "DistErlang":
        return p["k"] if p["k"] < 10 else 3
    if cls in ("DistBeta", "DistPearson6"):
        return 6
    if cls in ("DistGamma", "DistPearson5"):
        return 3
    return 1.5


def _size(cls, p, tier):
    n = N_SAMPLE[tier]
    cap = int(U_CAP[tier] / max(1.0, _uniforms_per_draw(cls, p)))
    return max(2000, min(n, cap))


def _case(cls, params, seed, tier, origin, probes=()):
    c = {"t": "dist", "cls": cls, "p": {k: _enc(v) for k, v in params.items()}, "seed": int(seed),
         "n": _size(cls, params, tier), "origin": origin}
    if cls in HAS_CDF:
        c["probes"] = [float(u).hex() for u in probes]
    return c


# --------------------------------------------------------------------------------- grid
def _grid():
    g = []
    add = lambda cls, **kw: g.append((cls, kw))
    # gamma: below / at / above one, extreme ends of the range
    for sh in (0.05, 0.3, 0.999, 1.0, 1.001, 1.7, 2.0, 25.0, 50.0):
        add("DistGamma", shape=sh, scale=1.0)
    for sh, sc in ((0.3, 0.05), (1.7, 50.0), (1.0, 7.5), (25.0, 0.05), (3, 2)):
        add("DistGamma", shape=sh, scale=sc)
    # Erlang: product loop below GAMMATHRESHOLD = 10, gamma sampler from 10 on
    for k in (1, 2, 5, 9, 10, 11, 30, 60):
        add("DistErlang", scale=1.0, k=k)
    for k, sc in ((1, 0.05), (9, 50.0), (10, 0.3), (30, 4.0), (3, 2)):
        add("DistErlang", scale=sc, k=k)
    # far above the switch-over (the density can still be evaluated up to k ~ 140); a larger sample: an approximation
    # of the shape by a symmetric law is off by D ~ 0.014 only
    for k in (101, 120):
        add("DistErlang", scale=1.0, k=k, _n=150000)
    for m in (0.05, 1.0, 1.2, 50.0, 3):
        add("DistExponential", mean=m)
    # beta: every pair of inner gamma branches
    for a in (0.3, 1.0, 1.7):
        for b in (0.3, 1.0, 1.7):
            add("DistBeta", alpha1=a, alpha2=b)
    for a, b in ((0.05, 2.0), (25.0, 30.0), (50.0, 0.5), (2, 5), (1.0, 2.0)):
        add("DistBeta", alpha1=a, alpha2=b)
    for a in (0.3, 1.0, 1.7, 3.0, 25.0):
        add("DistPearson5", alpha=a, beta=1.0)
    for a, b in ((0.3, 0.05), (3, 1), (25.0, 50.0), (1.7, 7.0)):
        add("DistPearson5", alpha=a, beta=b)
    for a in (0.3, 1.0, 1.7):
        for b in (0.3, 1.0, 1.7):
            add("DistPearson6", alpha1=a, alpha2=b, beta=1.0)
    for a, b, c in ((2, 3, 4), (25.0, 30.0, 0.05), (0.3, 25.0, 50.0), (50.0, 0.5, 1.0), (10.0, 2.5, 3.0)):
        add("DistPearson6", alpha1=a, alpha2=b, beta=c)
    for mu, sg in ((0.0, 1.0), (5.0, 0.05), (-50.0, 50.0), (3, 2), (1e3, 1.0)):
        add("DistNormal", mu=mu, sigma=sg)
    for mu, sg in ((0.0, 1.0), (0.0, 0.05), (-2.0, 0.5), (3.0, 2.0), (1, 1), (0.0, 3.0)):
        add("DistLogNormal", mu=mu, sigma=sg)
    # truncated normal: none / one-sided / two-sided / far tails / narrow / wide
    for lo, hi in ((-INF, INF), (-1.0, INF), (-INF, 0.5), (-1.0, 2.0), (-2, 2), (0.0, INF), (-INF, 0.0),
                   (3.0, INF), (4.0, INF), (-INF, -4.0), (3.0, 3.5), (-3.6, -3.0), (4.5, INF), (-0.01, 0.01),
                   (-8.0, 8.0), (-12.0, 0.3), (1.1503, 1.8627), (0.0, 1e-3),
                   # windows so far in the tail that they may be refused; where one is accepted it is a distribution
                   # like any other
                   (5.0, INF), (5.5, 7.0), (-7.0, -5.5), (5.5, INF), (-INF, -5.2), (6.0, 6.5)):
        add("DistNormalTrunc", mu=0.0, sigma=1.0, lo=lo, hi=hi)
    add("DistNormalTrunc", mu=10.0, sigma=2.0, lo=21.2, hi=25.0)
    for mu, sg, lo, hi in ((10.0, 2.0, 9.0, 15.0), (-5.0, 0.05, -5.1, -4.99), (2.0, 0.2, 2.5, INF),
                           (100.0, 50.0, 0.0, INF), (1.0, 1.0, 0.0, INF), (-1.0, 3.0, -INF, 0.0),
                           # bounds that are large in magnitude compared with sigma (a tolerance relative to the
                           # bound instead of to sigma would swallow the whole window)
                           (5e4, 0.05, 49999.9, 50000.1), (1.7e9, 30.0, 1.7e9 - 90.0, 1.7e9 + 90.0),
                           (-4e6, 2.0, -4e6 - 1.0, INF)):
        add("DistNormalTrunc", mu=mu, sigma=sg, lo=lo, hi=hi)
    # triangular: modes at both bounds and interior
    for lo, mo, hi in ((0.0, 0.0, 1.0), (0.0, 1.0, 1.0), (0.0, 0.5, 1.0), (1, 4, 9), (-3.0, -3.0, 5.0),
                       (-3.0, 5.0, 5.0), (-50.0, 49.9, 50.0), (2.0, 2.001, 40.0), (1e3, 1e3 + 0.05, 1e3 + 0.1)):
        add("DistTriangular", lo=lo, mode=mo, hi=hi)
    for lo, hi in ((0.0, 1.0), (0, 1), (-50.0, 50.0), (3.0, 3.05), (-7.5, -7.0)):
        add("DistUniform", lo=lo, hi=hi)
    for a in (0.05, 0.5, 1.0, 1.5, 5.0, 50.0):
        add("DistWeibull", alpha=a, beta=1.0)
    for a, b in ((1.5, 0.05), (0.5, 50.0), (3, 2)):
        add("DistWeibull", alpha=a, beta=b)
    for c in (12.1, 0, -3.5, 2 ** 53 + 1, 10 ** 30 + 7, -(2 ** 60) - 3):      # (ints no float can hold, too)
        add("DistConstant", constant=c)
    # discrete
    for p in (0.0, 0.01, 0.5, 0.99, 1.0, 0.3):
        add("DistBernoulli", p=p)
    for n, p in ((1, 0.5), (1, 0.01), (10, 0.0), (10, 1.0), (10, 0.01), (10, 0.5), (10, 0.99), (300, 0.01),
                 (300, 0.5), (300, 0.99), (57, 0.3), (2, 0.75)):
        add("DistBinomial", n=n, p=p)
    for lo, hi in ((1, 6), (0, 1), (-50, 150), (-3, 3), (7, 8)):
        add("DistDiscreteUniform", lo=lo, hi=hi)
    for p in (0.01, 0.1, 0.5, 0.9, 0.99, 1.0):             # p == 1.0 is the valid boundary: all mass on 0
        add("DistGeometric", p=p)
    for s, p in ((1, 0.5), (1, 0.01), (2, 0.99), (5, 0.3), (60, 0.5), (60, 0.05), (13, 0.9), (3, 1.0), (1, 1.0)):
        add("DistNegBinomial", s=s, p=p)
    for r in (0.05, 0.5, 1.0, 1, 4.2, 25, 60.0, 87.5, 100.0, 100):
        add("DistPoisson", rate=r)
    for r in (300.0, 500.0, 650):        # large rates that exp(-rate) still represents
        add("DistPoisson", rate=r)
    add("DistPoisson", rate=1000.0)      # known defect K-C15-1 (rate > 700)
    return g


_ERFINV_GRID = [0.0, 1e-300, 1e-12, 1e-6, 0.1, 0.5, 0.7499999, 0.75, 0.7500001, 0.8, 0.9374999, 0.9375,
                0.9375001, 0.95, 0.99, 0.999, 1 - 1e-5, 1 - 1e-7, 1 - 1e-8, 1 - 2e-9, 1 - 1.0000001e-9, 1.0]


def enumerate_cases(tier):
    cases = []
    for i, (cls, kw) in enumerate(_grid()):
        kw = dict(kw)
        n_over = kw.pop("_n", None)
        cases.append(_case(cls, kw, 7000 + i, tier, "grid", probes=[0.5 / 7 + j / 7.0 for j in range(7)]))
        if n_over:
            cases[-1]["n"] = max(cases[-1]["n"], n_over)
    ys = [y for v in _ERFINV_GRID for y in (v, -v)]
    cases.append({"t": "erf_inv", "ys": [float(y).hex() for y in ys], "origin": "grid"})
    vals = [0.05, 0.3, 0.5, 1.0, 1.7, 2.0, 3.0, 10.0, 25.0, 50.0]
    cases.append({"t": "beta", "zw": [[float(a).hex(), float(b).hex()] for a in vals for b in vals],
                  "origin": "grid"})
    return cases


EXHAUSTIVE_NOTE = ("branch grid of %d parameter sets + erf_inv / beta grids is enumerated completely on every run"
                   % len(_grid()))


# --------------------------------------------------------------------------------- strategy
class _Key:
    """Deterministic expansion (splitmix64) of ONE integer drawn by Hypothesis into the parameters of a
    case.  All randomness is the drawn integer; expanding it through a hash instead of drawing every
    parameter separately keeps the generated parameter sets spread over the ranges (Hypothesis' span
    mutation otherwise repeats the same few parameter values)."""

    def __init__(self, key):
        self.s = key & 0xFFFFFFFFFFFFFFFF

    def bits(self):
        self.s = (self.s + 0x9E3779B97F4A7C15) & 0xFFFFFFFFFFFFFFFF
        z = self.s
        z = ((z ^ (z >> 30)) * 0xBF58476D1CE4E5B9) & 0xFFFFFFFFFFFFFFFF
        z = ((z ^ (z >> 27)) * 0x94D049BB133111EB) & 0xFFFFFFFFFFFFFFFF
        return z ^ (z >> 31)

    def u(self):
        return (self.bits() >> 11) / 9007199254740992.0

    def i(self, lo, hi):
        return lo + self.bits() % (hi - lo + 1)

    def f(self, lo, hi):
        return lo + (hi - lo) * self.u()

    def logu(self, lo, hi, specials=()):
        """log-uniform on [lo, hi]; with probability 1/5 one of the special values"""
        w, j, u = self.i(0, 4), self.bits(), self.u()
        if specials and w == 0:
            return specials[j % len(specials)]
        return lo * (hi / lo) ** u

    def prob(self):
        w, u = self.i(0, 9), self.u()
        return (0.01, 0.5, 0.99)[w] if w < 3 else 0.01 + 0.98 * u


_SHAPE_SPECIALS = (1.0, 0.999, 1.001, 0.5, 2.0)


def _dist_case_from_key(key, tier):
    k = _Key(key)
    names = CONT + DISC
    cls = names[k.i(0, len(names) - 1)]
    shape = lambda: k.logu(0.05, 50.0, _SHAPE_SPECIALS)
    scale = lambda: k.logu(0.05, 50.0, (1.0,))
    loc = lambda: k.f(-50.0, 50.0)
    if cls == "DistBeta":
        p = {"alpha1": shape(), "alpha2": k.logu(0.2, 50.0, (1.0, 0.999, 1.001))}
    elif cls == "DistErlang":
        p = {"scale": scale(), "k": (1, 9, 10, 11)[k.i(0, 3)] if k.i(0, 3) == 0 else k.i(1, 60)}
    elif cls == "DistExponential":
        p = {"mean": scale()}
    elif cls == "DistGamma":
        p = {"shape": shape(), "scale": scale()}
    elif cls == "DistNormal":
        p = {"mu": loc(), "sigma": scale()}
    elif cls == "DistLogNormal":
        p = {"mu": k.f(-5.0, 5.0), "sigma": k.logu(0.05, 3.0, (1.0,))}
    elif cls == "DistNormalTrunc":
        mu, sg = loc(), scale()
        kind = ("two", "two", "lower", "upper", "none")[k.i(0, 4)]
        zl, w, zu = k.f(-6.0, 4.5), k.logu(0.01, 10.0), k.f(-4.5, 6.0)
        if kind == "two":
            zh = zl + w
            if R.Phi(zh) - R.Phi(zl) < 4e-6 and R.Phic(zl) - R.Phic(zh) < 4e-6:
                zh = INF if zl >= 0 else zl + 10.0     # the constructor refuses a window of mass < 1e-6
            lo, hi = mu + sg * zl, mu + sg * zh
        elif kind == "lower":
            lo, hi = mu + sg * zl, INF
        elif kind == "upper":
            lo, hi = -INF, mu + sg * zu
        else:
            lo, hi = -INF, INF
        p = {"mu": mu, "sigma": sg, "lo": lo, "hi": hi}
    elif cls == "DistPearson5":
        p = {"alpha": shape(), "beta": scale()}
    elif cls == "DistPearson6":
        p = {"alpha1": shape(), "alpha2": shape(), "beta": scale()}
    elif cls == "DistTriangular":
        lo, w, pick, f = loc(), k.logu(0.05, 100.0), k.i(0, 5), k.u()
        hi = lo + w
        mo = lo if pick == 0 else hi if pick == 1 else min(hi, max(lo, lo + f * w))
        p = {"lo": lo, "mode": mo, "hi": hi}
    elif cls == "DistUniform":
        lo = loc()
        p = {"lo": lo, "hi": lo + k.logu(0.05, 100.0)}
    elif cls == "DistWeibull":
        p = {"alpha": shape(), "beta": scale()}
    elif cls == "DistBernoulli":
        p = {"p": k.prob()}
    elif cls == "DistBinomial":
        p = {"n": k.i(1, 12) if k.i(0, 2) == 0 else k.i(1, 300), "p": k.prob()}
    elif cls == "DistDiscreteUniform":
        lo = k.i(-50, 50)
        p = {"lo": lo, "hi": lo + k.i(1, 200)}
    elif cls == "DistGeometric":
        p = {"p": k.prob()}
    elif cls == "DistNegBinomial":
        p = {"s": k.i(1, 4) if k.i(0, 2) == 0 else k.i(1, 60), "p": k.prob()}
    else:
        r = k.logu(0.05, 100.0, (1.0, 100.0)) if k.i(0, 2) else k.i(1, 100)
        p = {"rate": r}
    seed = k.i(0, 2 ** 31 - 1)
    probes = [k.f(1e-9, 1 - 1e-9) for _ in range(6)] if cls in HAS_CDF else ()
    return _case(cls, p, seed, tier, "random", probes=probes)


def _erf_case_from_key(key):
    k = _Key(key)
    ys = []
    for _ in range(30):
        w = k.i(0, 5)
        y = (k.f(-1.0, 1.0) if w == 0 else k.f(0.74, 0.76) if w == 1 else k.f(0.93, 0.945) if w == 2
             else 1.0 - k.f(1e-9, 0.1) if w == 3 else 1.0 - 10.0 ** k.f(-9.0, -1.0) if w == 4
             else 10.0 ** k.f(-300.0, -1.0))
        ys.append((-y if k.i(0, 1) else y).hex())
    return {"t": "erf_inv", "ys": ys, "origin": "random"}


def _beta_case_from_key(key):
    k = _Key(key)
    zw = [[k.logu(0.05, 50.0, _SHAPE_SPECIALS).hex(), k.logu(0.05, 50.0, _SHAPE_SPECIALS).hex()] for _ in range(20)]
    return {"t": "beta", "zw": zw, "origin": "random"}


def strategy(tier):
    """Hypothesis draws one 64-bit key; the key is expanded deterministically into a case."""
    def make(key):
        w = _Key(key ^ 0x5DEECE66D).i(0, 24)
        if w == 0:
            return _erf_case_from_key(key)
        if w == 1:
            return _beta_case_from_key(key)
        return _dist_case_from_key(key, tier)
    return st.integers(0, 2 ** 64 - 1).map(make)


# --------------------------------------------------------------------------------- sampling
def _counting_stream(seed):
    from pydsol.core.streams import StreamInterface, MersenneTwister

    class Counting(StreamInterface):
        """MersenneTwister(seed) that counts the numbers it hands out."""

        def __init__(self, seed):
            self.mt = MersenneTwister(seed)
            self.n = 0

        def next_bool(self):
            self.n += 1
            return self.mt.next_bool()

        def next_float(self):
            self.n += 1
            return self.mt.next_float()

        def next_int(self, lo, hi):
            self.n += 1
            return self.mt.next_int(lo, hi)

        def seed(self):
            return self.mt.seed()

        def original_seed(self):
            return self.mt.original_seed()

        def set_seed(self, seed):
            self.mt.set_seed(seed)

        def reset(self):
            self.mt.reset()

        def save_state(self):
            return self.mt.save_state()

        def restore_state(self, state):
            self.mt.restore_state(state)

    return Counting(seed)


def _build(cls, params, stream):
    import pydsol.core.distributions as D
    return getattr(D, cls)(stream, **params)


def _draw_sample(out, cls, dist, stream, n):
    """returns (list of draws, set of distinct uniforms-per-draw) or None after out.fail"""
    xs = []
    used = set()
    append = xs.append
    draw = dist.draw
    try:
        for _ in range(n):
            before = stream.n
            append(draw())
            used.add(stream.n - before)
    except Exception as e:      # the property forbids a failing draw for documented parameters
        out.fail("draw-raises:%s:%s" % (cls, type(e).__name__),
                 {"after_draws": len(xs), "error": str(e)[:200], "dist": str(dist)})
        return None
    return xs, used


def _call(fn, x):
    """(value, None) or (None, exception)"""
    try:
        return fn(x), None
    except Exception as e:
        return None, e


def _window_mass(params):
    mu, sg, lo, hi = (float(params[k]) for k in ("mu", "sigma", "lo", "hi"))
    a, b = (lo - mu) / sg, (hi - mu) / sg
    if a >= 0:                       # upper tail: difference of survival functions
        return 0.5 * (math.erfc(a / math.sqrt(2.0)) - math.erfc(b / math.sqrt(2.0)))
    if b <= 0:
        return 0.5 * (math.erfc(-b / math.sqrt(2.0)) - math.erfc(-a / math.sqrt(2.0)))
    return 1.0 - 0.5 * math.erfc(-a / math.sqrt(2.0)) - 0.5 * math.erfc(b / math.sqrt(2.0))


class _PdfFail(Exception):
    pass


# --------------------------------------------------------------------------------- continuous
def _check_continuous(out, case, cls, params, n):
    ref = R.cont_ref(cls, params)
    out.label("branch:%s:%s" % (cls, ref.branch))
    stream = _counting_stream(case["seed"])
    dist, err = _call(lambda _: _build(cls, params, stream), None)
    if err is not None and cls == "DistNormalTrunc" and isinstance(err, ValueError) and _window_mass(params) < 2e-6:
        # the class documents that it refuses windows with a very low probability (its limit is 1E-6)
        out.label("refused:low-probability-window")
        return set()
    if err is not None:
        out.fail("ctor-raises:%s:%s" % (cls, type(err).__name__), {"params": case["p"], "error": str(err)[:200]})
        return set()
    got = _draw_sample(out, cls, dist, stream, n)
    if got is None:
        return set()
    xs, used = got
    paths = set("u=%d" % u for u in sorted(used)[:4])
    thr = R.ks_threshold(n) + KS_SLACK
    pdf = dist.probability_density

    # the draws are floats inside the closed support
    bad = [x for x in xs if not isinstance(x, float) or x != x or x < ref.lo or x > ref.hi]
    if bad:
        out.fail("sample-outside-support:%s" % cls, {"values": bad[:5], "count": len(bad), "support": [ref.lo, ref.hi],
                                                     "dist": str(dist)})
        return paths
    xs.sort()
    paths |= _value_paths(cls, params, xs)

    # ---- KS against the independent closed form
    pts = R.ks_points(xs)
    fcf = [ref.cdf(x) for (x, _, _) in pts]
    d_cf, at = R.ks_distance(pts, fcf, n)
    out.info = {"dist": str(dist), "n": n, "D_closed_form": round(d_cf, 5), "threshold": round(thr, 5)}
    if d_cf > thr:
        mean = math.fsum(x for x in xs if abs(x) < INF) / n
        out.fail("ks-closed-form:%s" % cls, {"D": d_cf, "at_x": at, "threshold": thr, "n": n, "dist": str(dist),
                                             "branch": ref.branch, "sample_mean": mean,
                                             "sample_median": xs[n // 2], "ref_cdf_at_sample_median": ref.cdf(xs[n // 2])})

    # ---- pdf outside the support and at its ends
    def probe(x, want_zero):
        v, e = _call(pdf, x)
        if e is not None:
            out.fail("pdf-raises:%s:%s" % (cls, type(e).__name__), {"x": x, "error": str(e)[:200], "dist": str(dist),
                                                                    "where": "outside" if want_zero else "support-end"})
        elif not isinstance(v, (int, float)) or v != v or v < 0 or (want_zero and v != 0):
            out.fail(("pdf-outside-support:%s" if want_zero else "pdf-negative:%s") % cls,
                     {"x": x, "pdf": repr(v), "dist": str(dist)})
    for end, sign in ((ref.lo, -1.0), (ref.hi, 1.0)):
        if abs(end) < INF:
            probe(end, False)
            for delta in (max(abs(end), 1.0) * 1e-9, 1.0, 1e6):
                probe(end + sign * delta, True)
            if end == 0.0:
                probe(sign * 5e-324, True)

    # ---- integral of the declared density and KS against its running integral
    s_lo, s_hi, resolvable = R.effective_range(ref, xs[n // 2])
    if not resolvable or not s_lo < s_hi:
        out.label("integral:skipped-unresolvable")
    else:
        out.label("integral:checked")
        state = {"bad": None}

        def g(s):
            x, jac = ref.from_s(s)
            try:
                v = pdf(x)
            except Exception as e:
                raise _PdfFail(("pdf-raises:%s:%s" % (cls, type(e).__name__), {"x": x, "error": str(e)[:200]}))
            if not isinstance(v, (int, float)) or v != v or v < 0 or v == INF:
                if state["bad"] is None:
                    state["bad"] = (x, repr(v))
                return 0.0
            return v * jac

        inner = []
        for (x, first, last) in pts:
            s = ref.to_s(x)
            if s_lo < s < s_hi:
                inner.append((s, x))
        brk = sorted(set([s_lo, s_hi] + [s for s, _ in inner] +
                         [ref.to_s(k) for k in ref.kinks if s_lo < ref.to_s(k) < s_hi]))
        q = R.Quad(g)
        try:
            cum = q.cumulative(brk)
        except _PdfFail as e:
            kind, det = e.args[0]
            det["dist"] = str(dist)
            det["where"] = "inside the effective support [%r, %r]" % (ref.from_s(s_lo)[0], ref.from_s(s_hi)[0])
            out.fail(kind, det)
            cum = None
        if state["bad"] is not None:
            out.fail("pdf-negative:%s" % cls, {"x": state["bad"][0], "pdf": state["bad"][1], "dist": str(dist)})
        if cum is not None:
            total = cum[-1]
            out.info["integral"] = total
            if abs(total - 1.0) > INT_TOL:
                out.fail("pdf-integral:%s" % cls, {"integral": total, "over": [ref.from_s(s_lo)[0], ref.from_s(s_hi)[0]],
                                                   "dist": str(dist), "evals": q.evals})
            at_s = dict(zip(brk, cum))
            fdec = []
            for (x, _, _) in pts:
                s = ref.to_s(x)
                fdec.append(0.0 if s <= s_lo else total if s >= s_hi else at_s[s])
            d_dec, at = R.ks_distance(pts, fdec, n)
            out.info["D_declared"] = round(d_dec, 5)
            if d_dec > thr:
                out.fail("ks-declared:%s" % cls, {"D": d_dec, "at_x": at, "threshold": thr, "n": n, "dist": str(dist),
                                                  "integral": total})

    # ---- cumulative / inverse cumulative functions
    if cls in HAS_CDF:
        fc = []
        ok = True
        for (x, _, _) in pts:
            v, e = _call(dist.cumulative_probability, x)
            if e is not None:
                out.fail("cdf-raises:%s:%s" % (cls, type(e).__name__), {"x": x, "error": str(e)[:200]})
                ok = False
                break
            fc.append(v)
        if ok:
            d_c, at = R.ks_distance(pts, fc, n)
            if d_c > thr:
                out.fail("ks-declared-cdf:%s" % cls, {"D": d_c, "at_x": at, "threshold": thr, "dist": str(dist)})
        _check_cdf_inverse(out, case, cls, params, dist, ref)
    return paths


def _value_paths(cls, params, xs):
    """sampler paths that can be read off the drawn values"""
    tags = set()
    if cls == "DistGamma" and params["shape"] < 1.0:
        sc = float(params["scale"])
        # step 2 returns scale*y with y = p**(1/shape) <= 1, step 3 returns scale*y with y > 1
        if xs[0] <= sc:
            tags.add("gamma-step2")
        if xs[-1] > sc:
            tags.add("gamma-step3")
    elif cls == "DistTriangular":
        if xs[0] < params["mode"]:
            tags.add("left-of-mode")
        if xs[-1] > params["mode"]:
            tags.add("right-of-mode")
    elif cls == "DistNormalTrunc":
        mu, sg = float(params["mu"]), float(params["sigma"])
        for x in xs[::max(1, len(xs) // 400)] + [xs[-1]]:
            if abs(x) == INF:
                tags.add("erf_inv-inf")
                continue
            ax = abs(math.erf((x - mu) / (sg * R.SQRT2)))
            tags.add("erf_inv-central" if ax <= 0.75 else "erf_inv-middle" if ax <= 0.9375 else "erf_inv-tail")
    return tags


def _check_cdf_inverse(out, case, cls, params, dist, ref):
    M = R.mp()
    mu, sg = float(params["mu"]), float(params["sigma"])
    log = cls == "DistLogNormal"
    trunc = cls == "DistNormalTrunc"
    lo = float(params["lo"]) if trunc else -INF
    hi = float(params["hi"]) if trunc else INF
    zl, zh = (lo - mu) / sg, (hi - mu) / sg
    A = M.ncdf(zl) if zl > -INF else M.mpf(0)
    B = M.ncdf(zh) if zh < INF else M.mpf(1)
    W = B - A
    Wf = float(W)
    cdf, inv, pdf = dist.cumulative_probability, dist.inverse_cumulative_probability, dist.probability_density
    ux = (lambda z: math.exp(mu + sg * z)) if log else (lambda z: mu + sg * z)      # z -> x
    uz = (lambda x: (math.log(x) - mu) / sg) if log else (lambda x: (x - mu) / sg)  # x -> z

    def ref_arg(y):
        """argument that the exact algorithm would hand to erf_inv for probability y"""
        return 2 * (A + M.mpf(y) * W) - 1

    def ref_z(y):
        return float(M.sqrt(2) * M.erfinv(ref_arg(y)))

    def tol_z(z):
        """allowed error of an inverse, in units of sigma, at standard score z"""
        return 1e-6 * abs(z) + 1e-12 + 4e-16 * (abs(mu) / sg + abs(z)) + 1e-15 / max(R.phi(z), 1e-300)

    zs = [-6.0, -5.0, -4.0, -3.0, -2.0, -1.8627, -1.1503, -1.0, -0.5, -0.1, -1e-3, -1e-8, 0.0, 1e-8, 1e-3, 0.1,
          0.5, 1.0, 1.1503, 1.8627, 2.0, 3.0, 4.0, 5.0, 6.0]
    zs = [z for z in zs if zl <= z <= zh]
    if trunc:
        for f in (0.0, 1e-6, 0.01, 0.1, 0.25, 0.5, 0.75, 0.9, 0.99, 1 - 1e-6, 1.0):
            a = max(zl, -6.0)
            b = min(zh, 6.0)
            if a < b:
                zs.append(a + f * (b - a))
    ys = [1e-8, 1e-6, 1e-4, 0.01, 0.03125, 0.1, 0.125, 0.25, 0.5, 0.75, 0.875, 0.9, 0.96875, 0.99, 1 - 1e-4,
          1 - 1e-6, 1 - 1e-8] + [float.fromhex(u) for u in case.get("probes", [])]
    ys = sorted(set(y for y in ys if 0.0 < y < 1.0))
    for y in ys:
        if abs(ref_arg(y)) <= 1 - 2e-9:
            z = ref_z(y)
            if zl <= z <= zh:
                zs.append(z)
    zs = sorted(set(zs))
    tag = lambda c: "%s:%s" % (c, cls)

    # (a) cdf agrees with the reference, (b) is monotone
    prev = None
    abs_tol = 1e-9 if trunc else 1e-12
    cvals = {}
    for z in zs:
        x = ux(z)
        if trunc:
            x = min(max(x, lo), hi)
        c, e = _call(cdf, x)
        if e is not None:
            out.fail("cdf-raises:%s:%s" % (cls, type(e).__name__), {"x": x, "error": str(e)[:200]})
            return
        zz = uz(x) if (not log or x > 0) else -INF
        want = float((M.ncdf(zz) - A) / W)
        want = min(1.0, max(0.0, want))
        if not abs(c - want) <= abs_tol:
            out.fail(tag("cdf-reference"), {"x": x, "cdf": c, "reference": want, "dist": str(dist)})
        if prev is not None and c < prev[1] - (1e-9 if trunc else 1e-15):
            out.fail(tag("cdf-monotone"), {"x1": prev[0], "cdf1": prev[1], "x2": x, "cdf2": c, "dist": str(dist)})
        prev = (x, c)
        cvals[x] = (c, zz)

    # (c) cdf differences = integral of the declared density
    xsq = sorted(cvals)

    def g(s):
        if log:
            x = math.exp(s)
            return pdf(x) * x
        return pdf(s)
    q = R.Quad(g, budget=200000)
    for a, b in zip(xsq, xsq[1:]):
        if log and a <= 0:
            continue
        sa, sb = (math.log(a), math.log(b)) if log else (a, b)
        try:
            integ = q.integrate(sa, sb, 1e-11)
        except Inconclusive:
            raise
        except Exception:
            break           # pdf failures are reported by the density clauses
        diff = cvals[b][0] - cvals[a][0]
        if not abs(integ - diff) <= 1e-9 + 1e-7 * abs(diff):
            out.fail(tag("cdf-vs-pdf"), {"a": a, "b": b, "cdf_diff": diff, "pdf_integral": integ, "dist": str(dist)})
            break

    # (d) inv(cdf(x)) = x
    for x in xsq:
        c, zz = cvals[x]
        if not (0.0 < c < 1.0) or abs(zz) == INF:
            continue
        if abs(2 * M.ncdf(zz) - 1) > 1 - 2e-9:
            continue
        v, e = _call(inv, c)
        if e is not None:
            out.fail("inverse-raises:%s:%s" % (cls, type(e).__name__), {"y": c, "error": str(e)[:200]})
            return
        zv = uz(v) if (not log or v > 0) else -INF
        if not abs(zv - zz) <= tol_z(zz):
            out.fail(tag("cdf-inverse") + ":inv-of-cdf", {"x": x, "cdf": c, "inv": v, "z": zz, "z_back": zv,
                                                            "allowed_dz": tol_z(zz), "dist": str(dist)})
            break

    # (e) cdf(inv(y)) = y, (f) inverse agrees with the reference quantile, (g) inverse is monotone
    prev = None
    for y in ys:
        if abs(ref_arg(y)) > 1 - 2e-9:
            continue
        v, e = _call(inv, y)
        if e is not None:
            out.fail("inverse-raises:%s:%s" % (cls, type(e).__name__), {"y": y, "error": str(e)[:200]})
            return
        zr = ref_z(y)
        zv = uz(v) if (not log or v > 0) else -INF
        tz = tol_z(zr)
        if not abs(zv - zr) <= tz:
            out.fail(tag("inverse-reference"), {"y": y, "inv": v, "z": zv, "reference_z": zr, "allowed_dz": tz,
                                                "dist": str(dist)})
            break
        if prev is not None and zv < prev[1] - tz - tol_z(prev[2]):
            out.fail(tag("inverse-monotone"), {"y1": prev[0], "z1": prev[1], "y2": y, "z2": zv, "dist": str(dist)})
            break
        prev = (y, zv, zr)
        c, e = _call(cdf, v)
        if e is not None:
            out.fail("cdf-raises:%s:%s" % (cls, type(e).__name__), {"x": v, "error": str(e)[:200]})
            return
        ty = R.phi(zr) / Wf * tz + 1e-13 + 1e-15 / Wf
        if not abs(c - y) <= ty:
            out.fail(tag("cdf-inverse") + ":cdf-of-inv", {"y": y, "inv": v, "cdf": c, "allowed_dy": ty, "dist": str(dist)})
            break
    if trunc and hasattr(dist, "inverse_cumulative_probability_not_truncated") and \
            hasattr(dist, "cumulative_probability_not_truncated"):
        # the class also offers the pair of the normal distribution it was cut from: cdf and inverse of THAT one,
        # whatever the window is
        inv_nt, cdf_nt = dist.inverse_cumulative_probability_not_truncated, dist.cumulative_probability_not_truncated
        for y in ys:
            if abs(2 * y - 1) > 1 - 2e-9:
                continue
            v, e = _call(inv_nt, y)
            if e is not None:
                out.fail("inverse-raises:%s:%s" % (cls, type(e).__name__), {"y": y, "not_truncated": True,
                                                                            "error": str(e)[:200]})
                break
            zr = float(M.sqrt(2) * M.erfinv(2 * M.mpf(y) - 1))
            zv = (v - mu) / sg
            tz = tol_z(zr)
            if not abs(zv - zr) <= tz:
                out.fail(tag("inverse-reference") + ":not-truncated", {"y": y, "inv": v, "z": zv, "reference_z": zr,
                                                                      "allowed_dz": tz, "dist": str(dist)})
                break
            c, e = _call(cdf_nt, v)
            if e is not None:
                out.fail("cdf-raises:%s:%s" % (cls, type(e).__name__), {"x": v, "not_truncated": True,
                                                                        "error": str(e)[:200]})
                break
            if not abs(c - y) <= R.phi(zr) * tz + 1e-12:
                out.fail(tag("cdf-inverse") + ":not-truncated", {"y": y, "inv": v, "cdf": c, "dist": str(dist)})
                break
        out.label("not-truncated-pair-checked")
    if trunc:
        for y, want in ((0, lo), (1, hi), (0.0, lo), (1.0, hi)):
            v, e = _call(inv, y)
            if e is not None or v != want:
                out.fail(tag("cdf-inverse") + ":endpoints", {"y": y, "inv": repr(v), "error": repr(e), "want": want})
                break


# --------------------------------------------------------------------------------- constant
def _check_constant(out, case, params, n):
    stream = _counting_stream(case["seed"])
    dist = _build("DistConstant", params, stream)
    c = params["constant"]
    got = _draw_sample(out, "DistConstant", dist, stream, min(n, 2000))
    if got is None:
        return set()
    xs, used = got
    if any(x != c for x in xs):
        out.fail("draw-not-constant:DistConstant", {"constant": c, "drawn": [x for x in xs if x != c][:3]})
    # the density says where the mass is: at every drawn value (and, below, nowhere else)
    for x in xs[:3]:
        v, e = _call(dist.probability_density, x)
        if e is not None or not (isinstance(v, (int, float)) and v > 0):
            out.fail("pdf-zero-at-drawn-value:DistConstant", {"drawn": repr(x), "pdf": repr(v), "error": repr(e),
                                                              "constant": repr(c)})
            break
    for x in (c - 1.0, c + 1.0, c + 1e-9 * max(1.0, abs(c)), -1e300, 1e300):
        if x == c:
            continue                # (an int constant beyond 2**53: c + 1.0 is c again)
        v, e = _call(dist.probability_density, x)
        if e is not None or v != 0:
            out.fail("pdf-outside-support:DistConstant", {"x": x, "pdf": repr(v), "error": repr(e)})
    out.label("excluded:point-mass")
    return set()


# --------------------------------------------------------------------------------- discrete
def _check_discrete(out, case, cls, params, n):
    big_poisson = cls == "DistPoisson" and float(params["rate"]) > 700
    k_lo, tab, sup_lo, sup_hi, branch = R.disc_ref(cls, params)
    out.label("branch:%s:%s" % (cls, branch if not big_poisson else "rate>700"))
    stream = _counting_stream(case["seed"])
    dist, err = _call(lambda _: _build(cls, params, stream), None)
    if err is not None:
        out.fail("ctor-raises:%s:%s" % (cls, type(err).__name__), {"params": case["p"], "error": str(err)[:200]})
        return set()
    got = _draw_sample(out, cls, dist, stream, n)
    if got is None:
        return set()
    xs, used = got
    paths = set("u=%d" % u for u in sorted(used)[:4])
    bad = [x for x in xs if not isinstance(x, int) or isinstance(x, bool)]
    if bad:
        out.fail("draw-type:%s" % cls, {"values": [repr(b) for b in bad[:5]], "dist": str(dist)})
        return paths
    counts = collections.Counter(xs)
    if cls == "DistBernoulli":
        paths |= set("outcome=%d" % k for k in counts)
    k_hi = k_lo + len(tab) - 1
    mean = sum(k * c for k, c in counts.items()) / n
    out.info = {"dist": str(dist), "n": n, "sample_mean": mean}
    emin = 25.0 if n >= 5000 else 10.0

    if big_poisson:
        # outside the pmf clauses (documented as known defect): sampler against the reference pmf only
        out.label("excluded:pmf-clauses:rate>700")
        chi2, df, worst = R.pooled_chi2(k_lo, [n * p for p in tab], counts, n, emin)
        pv = R.chi2_pvalue(chi2, df)
        if pv < R.ALPHA:
            out.fail("sample-vs-pmf:DistPoisson:rate>700",
                     {"chi2": chi2, "df": df, "p_value": pv, "sample_mean": mean, "rate": float(params["rate"]),
                      "sample_min": min(counts), "sample_max": max(counts), "n": n,
                      "why": "exp(-rate) underflows: the product-of-uniforms loop stops at the smallest double"})
        return paths

    prob = dist.probability
    # (earlier queries with other arguments - whole-valued floats, not judged here - do not change later answers)
    for i in range(len(tab)):
        _call(prob, float(k_lo + i))
    # ---- declared pmf over the effective support
    dec = []
    raised = None
    negative = None
    mismatch = None
    for i, pr in enumerate(tab):
        k = k_lo + i
        v, e = _call(prob, k)
        if e is not None:
            if raised is None:
                raised = (k, e, pr)
            dec.append(pr)
            continue
        if not isinstance(v, (int, float)) or v != v or v < 0:
            if negative is None:
                negative = (k, repr(v))
            dec.append(pr)
            continue
        if mismatch is None and not abs(v - pr) <= 1e-9 * pr + 1e-300:
            mismatch = (k, v, pr)
        dec.append(float(v))
    if raised is not None:
        k, e, pr = raised
        out.fail("pmf-raises:%s:%s" % (cls, type(e).__name__),
                 {"observation": k, "error": str(e)[:200], "dist": str(dist), "true_probability": pr,
                  "effective_support": [k_lo, k_hi]})
    if negative is not None:
        out.fail("pmf-negative:%s" % cls, {"observation": negative[0], "probability": negative[1], "dist": str(dist)})
    if mismatch is not None:
        out.fail("pmf-reference:%s" % cls, {"observation": mismatch[0], "probability": mismatch[1],
                                            "reference": mismatch[2], "dist": str(dist)})
    total = math.fsum(dec)
    out.info["pmf_sum"] = total
    if abs(total - 1.0) > 1e-9:
        out.fail("pmf-sum:%s" % cls, {"sum": total, "over": [k_lo, k_hi], "dist": str(dist)})

    # ---- zero outside the support and at non-integers
    outside = [sup_lo - 1, sup_lo - 1000]
    if sup_hi is not None:
        outside += [sup_hi + 1, sup_hi + 1000]
    for k in outside:
        v, e = _call(prob, k)
        if e is not None or v != 0:
            out.fail("pmf-outside-support:%s" % cls, {"observation": k, "probability": repr(v), "error": repr(e),
                                                      "dist": str(dist)})
            break
    mode = k_lo + max(range(len(tab)), key=lambda i: tab[i])
    for k in (mode + 0.5, mode - 0.5, mode + 1e-9, sup_lo - 0.5):
        v, e = _call(prob, k)
        if e is not None or v != 0:
            out.fail("pmf-non-integer:%s" % cls, {"observation": k, "probability": repr(v), "error": repr(e),
                                                  "dist": str(dist)})
            break

    # ---- every sampled value has positive declared probability
    for k in sorted(counts):
        if k_lo <= k <= k_hi:
            v = dec[k - k_lo]
        else:
            v, e = _call(prob, k)
            if e is not None:
                if raised is None:
                    out.fail("pmf-raises:%s:%s" % (cls, type(e).__name__),
                             {"observation": k, "error": str(e)[:200], "dist": str(dist), "sampled": True})
                    raised = (k, e, 0.0)
                continue
        if v == 0 or k < sup_lo or (sup_hi is not None and k > sup_hi):
            out.fail("sample-outside-support:%s" % cls, {"value": k, "count": counts[k], "probability": v,
                                                         "dist": str(dist)})
            break

    # ---- pooled chi-square of the frequencies against probability()
    chi2, df, worst = R.pooled_chi2(k_lo, [n * p for p in dec], counts, n, emin)
    out.info["chi2"] = round(chi2, 2)
    out.info["df"] = df
    if df >= 1:
        pv = R.chi2_pvalue(chi2, df)
        if pv < R.ALPHA:
            out.fail("chi2:%s" % cls, {"chi2": chi2, "df": df, "p_value": pv, "n": n, "dist": str(dist),
                                       "sample_mean": mean, "worst_cell[chi2,from,to,expected,observed]": worst})
    else:
        out.label("chi2:degenerate-single-cell")
    return paths


# --------------------------------------------------------------------------------- functions
def _check_erf_inv(out, case):
    from pydsol.core.utils import erf_inv
    M = R.mp()
    ys = sorted(set(float.fromhex(h) for h in case["ys"]))
    prev = None
    for y in ys:
        v, e = _call(erf_inv, y)
        if e is not None:
            out.fail("erf_inv-raises:%s" % type(e).__name__, {"y": y, "error": str(e)[:200]})
            return
        m, _ = _call(erf_inv, -y)
        if m != -v:
            out.fail("erf_inv:odd-symmetry", {"y": y, "erf_inv(y)": v, "erf_inv(-y)": m})
        ay = abs(y)
        if ay == 1.0:
            if v != math.copysign(INF, y):
                out.fail("erf_inv:endpoint", {"y": y, "value": v})
            continue
        if ay > 1 - 1e-9:
            out.label("erf_inv:beyond-1-1e-9-not-asserted")
            continue
        want = float(M.erfinv(M.mpf(y)))
        if not abs(v - want) <= 2e-7 * abs(want):
            out.fail("erf_inv:reference", {"y": y, "value": v, "reference": want,
                                           "relative_error": abs(v - want) / abs(want) if want else None})
        if prev is not None and v < prev[1] - 2e-7 * (abs(v) + abs(prev[1])):
            out.fail("erf_inv:monotone", {"y1": prev[0], "v1": prev[1], "y2": y, "v2": v})
        prev = (y, v)
        # erf(erf_inv(y)) = y within the propagated documented accuracy
        back = math.erf(v)
        allowed = 2.0 / math.sqrt(math.pi) * math.exp(-want * want) * 2e-7 * abs(want) + 4e-16
        if not abs(back - y) <= allowed:
            out.fail("erf_inv:erf-round-trip", {"y": y, "erf(erf_inv(y))": back, "allowed": allowed})
        br = "central" if ay <= 0.75 else "middle" if ay <= 0.9375 else "tail"
        out.label("erf_inv:" + br)
    out.nontrivial = len([1 for lb in out.labels if lb.startswith("erf_inv:") and lb[8:] in ("central", "middle", "tail")]) >= 2


def _check_beta(out, case):
    from pydsol.core.utils import beta
    M = R.mp()
    for hz, hw in case["zw"]:
        z, w = float.fromhex(hz), float.fromhex(hw)
        v, e = _call(lambda t: beta(*t), (z, w))
        if e is not None:
            out.fail("beta-raises:%s" % type(e).__name__, {"z": z, "w": w, "error": str(e)[:200]})
            return
        want = float(M.beta(M.mpf(z), M.mpf(w)))
        if not abs(v - want) <= 1e-9 * want:
            out.fail("beta:reference", {"z": z, "w": w, "value": v, "reference": want})
        v2 = beta(w, z)
        if not abs(v - v2) <= 1e-12 * want:
            out.fail("beta:symmetry", {"z": z, "w": w, "beta(z,w)": v, "beta(w,z)": v2})
    out.label("fn:beta")
    out.nontrivial = case.get("origin") == "random"


# --------------------------------------------------------------------------------- entry
def run_case(case):
    R.mp()      # harness error when mpmath is unavailable - never a pass
    out = Outcome()
    t = case.get("t")
    if t == "erf_inv":
        out.label("fn:erf_inv", "origin:" + case.get("origin", "?"))
        _check_erf_inv(out, case)
        return out
    if t == "beta":
        out.label("origin:" + case.get("origin", "?"))
        _check_beta(out, case)
        return out
    cls = case["cls"]
    params = {k: _dec(v) for k, v in case["p"].items()}
    n = int(case["n"])
    origin = case.get("origin", "random")
    out.label("cls:" + cls, "origin:" + origin)
    if cls == "DistConstant":
        paths = _check_constant(out, case, params, n)
    elif cls in CONT:
        paths = _check_continuous(out, case, cls, params, n)
    elif cls in DISC:
        paths = _check_discrete(out, case, cls, params, n)
    else:
        raise ValueError("unknown class in case: %r" % cls)
    if len(paths) >= 2:
        out.label("paths>=2")
    for pth in paths:
        if not pth.startswith("u="):
            out.label("path:" + pth)
    out.nontrivial = origin == "random" or len(paths) >= 2
    return out


RULE = RULE + " " + 'Later additions: far-tail truncation windows (refused as documented, or checked like any other); the non-truncated cdf / inverse pair of DistNormalTrunc; float queries before the integer pmf sweep.'
