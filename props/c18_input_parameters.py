"""C18 - input parameters always hold a valid value and are addressable by their dotted key.

Case (JSON):  {"root": null | "<key>",  "ops": [op, ...]}
  root   null  -> the tree is the model's own root map (key "root");
         "<k>" -> a custom root map with that key is installed through `model.input_parameters = ...`
                  (children may have the same key as the root).
  ops    dicts, interpreted against the current state (every index is taken modulo the current list):
    {"op":"new", "cls":C, "det":bool, "par":i, "key":V, "name":V, "prio":V, "ro":bool, "lo":V|null,
     "hi":V|null, "opts":[str], "optsbad":null|"tuple"|"nonstr", "q":Q, "mode":M, "n":int, "x":hex, "v":V,
     "deep":bool}
         construct a parameter of class C (map int float str bool quantity sel unit generic) under the
         par-th map (deep: of the two deepest maps of the root tree; det: without parent); the default
         value is derived from (mode, n, x, v).
    {"op":"add", "d":i, "m":i, "via":"map|model|junk"}      add the d-th detached parameter to the m-th
         reachable map (via model: model.add_parameter, i.e. to the root; junk: a non-parameter).
    {"op":"remove"|"get", "how":"existing|raw", "t":i, "a":i, "m":i, "path":[str], "via":"map|model"}
         existing: key of the t-th non-top node relative to its a-th ancestor;  raw: path joined with '.'
         looked up in the m-th map (may or may not exist; the reference tree decides what is expected).
    {"op":"set", "t":i, "any":bool, "via":"direct|model", "mode":M, "n":int, "x":hex, "v":V}
         set_value on the t-th leaf (any: maps included) with a value derived from the target's class,
         bounds and options:  M in  in lo hi above below justabove justbelow int float bool nan inf otherq
         wrong lit  (lit: the literal V).  via model: model.set_parameter(key, v) + model.get_parameter(key).
  V (tagged value): ["i",int] ["f",float.hex] ["s",str] ["b",bool] ["n"] ["l",[V..]] ["q",Quantity,hex,unit].

Oracle: a reference tree (plain Python objects) + a per-class validity predicate written from the
docstrings of pydsol.core.parameters; the implementation is never compared with itself.
"""
import math

from hypothesis import strategies as st

from vlib.runner import Outcome, Inconclusive

ID = "C18"
RULE = ("Hypothesis op lists (a warm-up block of one sub-map + 2-6 valid constructions, then <=28 quick / <=64 "
        "thorough free ops) "
        "over a parameter tree of all eight classes (+ the plain InputParameter base class) with keys from a "
        "5-key pool (collisions frequent, children may carry the root's key), display priorities from a tie-rich "
        "int/float pool, inclusive int/float/SI bounds incl. +-inf and float bounds for ints, option lists with "
        "duplicates, read-only flags; ops: construct (under any map or detached; valid, out-of-bounds, wrong type, "
        "NaN, not-an-option, bad bounds/key/name/priority/options, duplicate key), add (map.add / "
        "model.add_parameter / non-parameter), remove and get by extended key relative to any ancestor or by an "
        "arbitrary dotted key, set_value directly or through model.set_parameter with values derived from the "
        "target (inside, both edges, one ulp/one unit outside, NaN, +-inf, int for float, float for int, bool, other "
        "quantity type, other unit, non-option, wrong types).  Oracle: reference tree + per-class validity "
        "predicate; after EVERY op, for every parameter of the root tree and of every detached subtree: stored "
        "value is the reference value and satisfies type/bounds/options/quantity type, default unchanged, "
        "key/priority/read-only/parent/extended key as constructed, map.value is a dict listing exactly the "
        "reference children in stable display-priority order (identity), M.get(rel) is p for every ancestor M; "
        "per op: valid attempts accepted and stored, invalid ones raise TypeError/ValueError/NotImplementedError "
        "and change nothing, read-only never changes, failed constructions register nothing, duplicate keys "
        "refused, remove returns and removes exactly the addressed parameter, missing keys raise KeyError (get) "
        "or KeyError/None (remove), model.get_parameter after an accepted model.set_parameter returns the value. "
        "Non-trivial = a parameter at depth >= 2 below the root, a display-priority tie among siblings of a "
        "reachable map, >= 1 accepted and >= 1 rejected set_value; distinct = distinct case digests.")
ASSUMPTIONS = [
    "display priorities are finite ints/floats (no order is defined for NaN); keys are str without period "
    "whenever a construction is expected to succeed",
    "a parameter is in at most one map at a time: only detached parameters (constructed without parent, or "
    "removed) are added, so no parameter is shared between maps and no map is added below itself",
    "undocumented corners are accepted either way and mirrored into the reference: bool for int/float "
    "parameters, +-inf inside infinite bounds, Quantity (a float subclass) for a float parameter, remove of a "
    "missing key (docstring: returns None, repository tests: KeyError)",
    "the exception type of a refusal is only required to be TypeError/ValueError (NotImplementedError for a "
    "map's set_value, KeyError for a missing key); docstring and code disagree on which of the two in places",
    "pydsol.core.units is trusted for Quantity construction (si = value * factor is re-checked for the 10 units "
    "used, C17 covers the rest); option lists are not mutated by the caller after construction",
    "stale `parent` links of removed parameters are not inspected (remove() is not documented to clear them); "
    "extended keys are therefore only checked in the tree that hangs under the root",
]
NONTRIVIAL_FLOOR = 0.10
LEVEL_TEXT = "exploration"
TECHNIQUE = "property-based testing: interpreted op lists against a reference tree and validity predicates"

INF = float("inf")
NAN = float("nan")
CLASSES = ["map", "int", "float", "str", "bool", "quantity", "sel", "unit", "generic"]
KEYS = ["a", "b", "c", "d", "root", "k1", "e", "a ", " b"]        # (a key is any string without a dot)
LOOKUP = KEYS + ["", "zz"]
# (among them alias spellings that are displayed differently from how they are written: 'mum', 'A', 'hr', 'week')
QUNITS = {"Length": {"m": 1.0, "km": 1000.0, "cm": 0.01, "mm": 0.001, "mum": 1e-06, "A": 1e-10},
          "Duration": {"s": 1.0, "min": 60.0, "h": 3600.0, "day": 86400.0, "hr": 3600.0, "week": 604800.0},
          "Speed": {"m/s": 1.0, "km/s": 1000.0, "km/hr": 0.2777777777777778},
          # two DIFFERENT quantity types with the same SI signature (kg.m2/s2): a parameter declared for one of
          # them must not accept the other
          "Energy": {"J": 1.0, "kJ": 1000.0},
          "Torque": {"N.m": 1.0}}
SAME_SIGNATURE = {"Energy": "Torque", "Torque": "Energy"}
QNAMES = sorted(QUNITS)
QBASE = {"Length": "m", "Duration": "s", "Speed": "m/s", "Energy": "J", "Torque": "N.m"}
NOT_UNITS = {"Length": ["s", "min", "m/s", "xyz", "", "kmm", "M"],
             "Duration": ["m", "km", "m/s", "xyz", "", "S"],
             "Speed": ["m", "s", "h", "xyz", "", "m/"],
             "Energy": ["m", "N.m", "xyz", "", "j"],
             "Torque": ["J", "kJ", "xyz", "", "Nm"]}
STRS = ["", "a", "abc", "a.b", "ünï", "0", "AZ", "km", "x" * 40, " a", "AZ\n", "\t", " | "]   # (blanks are characters)
REFUSAL = (TypeError, ValueError)


def _fl(x):
    return float(x).hex()


WRONG = [["n"], ["s", "x"], ["s", "5"], ["i", 7], ["f", _fl(2.5)], ["b", True], ["l", [["i", 1]]],
         ["q", "Length", _fl(1.0), "m"], ["f", "nan"], ["f", "inf"], ["f", "-inf"], ["i", 0], ["b", False],
         ["s", ""], ["q", "Duration", _fl(2.0), "min"], ["i", 2 ** 70], ["f", _fl(-0.0)], ["l", []]]


def budget(tier):
    if tier == "quick":
        return {"examples": 4000, "shards": 16}
    return {"examples": 150000, "shards": 16}


# ------------------------------------------------------------------------------------------ strategy
_INT_BOUNDS = [(None, None), (["i", 0], ["i", 10]), (["i", -5], ["i", 5]), (["i", 0], ["i", 1]),
               (["i", 1], ["i", 2 ** 70]), (["f", _fl(0.5)], ["f", _fl(10.5)]), (None, ["i", 3]),
               (["i", 3], None), (["f", "-inf"], ["f", "inf"]), (["i", -3], ["f", _fl(7.0)]),
               (["i", 0], ["i", 2 ** 53 + 1])]
_FLOAT_BOUNDS = [(None, None), (["f", _fl(0.0)], ["f", _fl(1.0)]), (["f", _fl(-1.5)], ["f", _fl(2.5)]),
                 (["i", 0], ["i", 100]), (["f", _fl(0.0)], None), (None, ["f", _fl(0.0)]),
                 (["f", "-inf"], ["f", "inf"]), (["f", _fl(1e300)], ["f", _fl(1.7e308)]),
                 (["f", _fl(-1e-310)], ["f", _fl(1e-310)]), (["i", 1], ["f", _fl(1.0000000000000002)])]
_SI_BOUNDS = [(None, None), (["i", 0], ["i", 5000]), (["f", _fl(0.0)], ["f", _fl(1.0)]),
              (["i", -10], ["i", 10]), (["f", _fl(0.0)], None), (["f", _fl(60.0)], ["f", _fl(3600.0)]),
              # bounds that are no round binary numbers: bound / factor * factor is often not the bound again
              (["f", _fl(0.0)], ["f", _fl(0.35)]), (["f", _fl(0.013)], ["f", _fl(0.82)]),
              (["f", _fl(0.009)], ["f", _fl(0.7)])]
_BAD_BOUNDS = [(["i", 5], ["i", 5]), (["i", 10], ["i", 0]), (["f", _fl(1.0)], ["f", _fl(1.0)]),
               (["f", "inf"], ["f", "-inf"]), (["f", "inf"], ["f", "inf"])]
_OPTS = [["a", "b", "c"], ["AZ", "DE", "MD", "CA", "AK", "MD", "VA"], ["x"], [], ["", "a"], ["km", "m", "0"],
         ["abc", "a.b", "ünï"], ["a", " a", "a "]]
_PRIOS = [["i", 1], ["f", _fl(1.0)], ["i", 2], ["f", _fl(2.0)], ["f", _fl(0.5)], ["i", 3], ["i", -1],
          ["i", 1], ["i", 2],
          # different but nearly equal priorities: still ordered, no tie
          ["f", _fl(0.1 + 0.2)], ["f", _fl(0.3)], ["f", _fl(1.0 + 5e-10)], ["f", _fl(2.0 - 4e-16)], ["f", _fl(3e-10)],
          ["f", _fl(2e-10)], ["f", _fl(0.0)], ["i", 2 ** 53], ["i", 2 ** 53 + 1]]
_BAD_KEYS = [["s", ""], ["s", "a.b"], ["i", 3], ["n"], ["s", "."]]
_BAD_NAMES = [["s", ""], ["i", 3], ["n"]]
_BAD_PRIOS = [["s", "p"], ["n"], ["l", []]]
_SET_MODES = ["in", "in", "in", "in", "lo", "hi", "above", "below", "justabove", "justbelow", "int", "float",
              "bool", "nan", "inf", "otherq", "wrong", "lit", "in", "hi", "hi-unit", "lo-unit"]
_NEW_MODES = ["in"] * 11 + ["lo", "hi", "above", "below", "justabove", "nan", "wrong", "lit", "otherq", "bool",
                            "float", "inf", "hi-unit", "lo-unit"]


def _hexfloats():
    return st.one_of(
        st.sampled_from([0.0, 1.0, -1.0, 0.5, 3.0, 1e-310, 1e300, -2.5, 100.0, 4999.999]),
        st.floats(allow_nan=False, allow_infinity=False),
        st.floats(min_value=-1e4, max_value=1e4, allow_nan=False)).map(_fl)


def _values():
    leaf = st.one_of(
        st.sampled_from(WRONG),
        st.integers(-12, 12).map(lambda i: ["i", i]),
        st.integers().map(lambda i: ["i", i]),
        _hexfloats().map(lambda h: ["f", h]),
        st.sampled_from(STRS + ["b", "c", "DE", "m", "s", "min", "m/s"]).map(lambda s: ["s", s]),
        st.tuples(st.sampled_from(QNAMES), _hexfloats(), st.integers(0, 9)).map(
            lambda t: ["q", t[0], t[1], sorted(QUNITS[t[0]])[t[2] % len(QUNITS[t[0]])]]))
    return leaf


def _new_ops(valid_only, only_map=False):
    idx = st.integers(0, 999)
    vals = _values()
    hexf = _hexfloats()

    @st.composite
    def new(draw):
        cls = "map" if only_map else draw(st.sampled_from(CLASSES + ["map", "map", "int", "float"]))
        if valid_only:
            key, name, prio = ["s", draw(st.sampled_from(KEYS))], ["s", "n"], draw(st.sampled_from(_PRIOS))
            mode, badb, optsbad, det = "in", False, None, False
        else:
            w = draw(st.integers(0, 99))
            key = draw(st.sampled_from(_BAD_KEYS)) if w < 5 else ["s", draw(st.sampled_from(KEYS))]
            name = draw(st.sampled_from(_BAD_NAMES)) if 5 <= w < 8 else ["s", "n"]
            prio = draw(st.sampled_from(_BAD_PRIOS)) if 8 <= w < 11 else draw(st.sampled_from(_PRIOS))
            badb = 11 <= w < 17
            optsbad = draw(st.sampled_from(["tuple", "nonstr"])) if 17 <= w < 20 else None
            mode = draw(st.sampled_from(_NEW_MODES))
            det = draw(st.integers(0, 9)) < 2
        if cls == "int":
            lo, hi = draw(st.sampled_from(_BAD_BOUNDS if badb else _INT_BOUNDS))
        elif cls == "float":
            lo, hi = draw(st.sampled_from(_BAD_BOUNDS if badb else _FLOAT_BOUNDS))
        elif cls == "quantity":
            lo, hi = draw(st.sampled_from(_BAD_BOUNDS if badb else _SI_BOUNDS))
        else:
            lo = hi = None
        op = {"op": "new", "cls": cls, "det": det, "par": draw(idx), "deep": draw(st.integers(0, 2)) > 0, "key": key, "name": name, "prio": prio,
              "ro": draw(st.integers(0, 5)) == 0, "lo": lo, "hi": hi, "mode": mode, "n": draw(idx),
              "x": draw(hexf)}
        if cls == "sel":
            op["opts"] = draw(st.sampled_from(_OPTS))
            if optsbad:
                op["optsbad"] = optsbad
        if cls in ("quantity", "unit"):
            op["q"] = draw(st.sampled_from(QNAMES))
        if mode == "lit" or cls == "generic":
            op["v"] = draw(vals)
        return op

    return new()


def strategy(tier):
    maxops = 28 if tier == "quick" else 64
    idx = st.integers(0, 999)
    vals = _values()
    hexf = _hexfloats()
    warm_new = _new_ops(True)
    warm_map = _new_ops(True, only_map=True)
    free_new = _new_ops(False)

    @st.composite
    def set_op(draw):
        mode = draw(st.sampled_from(_SET_MODES))
        op = {"op": "set", "t": draw(idx), "any": draw(st.integers(0, 11)) == 0,
              "via": "model" if draw(st.integers(0, 3)) == 0 else "direct",
              "mode": mode, "n": draw(idx), "x": draw(hexf)}
        if mode == "lit":
            op["v"] = draw(vals)
        return op

    @st.composite
    def path_op(draw, name):
        how = draw(st.sampled_from(["existing", "existing", "raw"]))
        op = {"op": name, "how": how, "via": "model" if draw(st.integers(0, 4)) == 0 else "map"}
        if how == "existing":
            op["t"] = draw(idx)
            op["a"] = draw(st.sampled_from([0, 1, 1, 2, 3, 998, 999]))
        else:
            op["m"] = draw(idx)
            op["path"] = draw(st.lists(st.sampled_from(LOOKUP), min_size=1, max_size=3))
        return op

    add_op = st.fixed_dictionaries({"op": st.just("add"), "d": idx, "m": idx,
                                    "via": st.sampled_from(["map", "map", "map", "model", "model", "junk"])})

    @st.composite
    def any_op(draw):
        w = draw(st.integers(0, 99))
        if w < 27:
            return draw(free_new)
        if w < 36:
            return draw(add_op)
        if w < 46:
            return draw(path_op("remove"))
        if w < 56:
            return draw(path_op("get"))
        return draw(set_op())

    @st.composite
    def case(draw):
        root = draw(st.sampled_from([None, None, "a", "root", "r"]))
        head = [draw(warm_map)] + draw(st.lists(warm_new, min_size=2, max_size=6))
        body = draw(st.lists(any_op(), min_size=draw(st.sampled_from([1, 6, 12])), max_size=maxops))
        return {"root": root, "ops": head + body}

    return case()


# ------------------------------------------------------------------------------------------ environment
_ENV = {}


def _env():
    if _ENV:
        return _ENV
    from pydsol.core import parameters as P
    from pydsol.core import units as U
    from pydsol.core.model import DSOLModel
    from pydsol.core.simulator import DEVSSimulatorFloat

    class _Model(DSOLModel):
        def construct_model(self):
            pass

    for qn, table in QUNITS.items():
        lib = getattr(U, qn)._units
        for u in table:
            if u not in lib:
                raise RuntimeError("oracle unit table: %s is not a unit of %s" % (u, qn))
        for u in NOT_UNITS[qn]:
            if u in lib:
                raise RuntimeError("oracle unit table: %s is a unit of %s" % (u, qn))
    _ENV.update(P=P, U=U, Model=_Model, Sim=DEVSSimulatorFloat,
                Q={qn: getattr(U, qn) for qn in QNAMES}, Quantity=U.Quantity)
    return _ENV


def _dec(t):
    k = t[0]
    if k == "i":
        return t[1]
    if k == "f":
        return float.fromhex(t[1])
    if k == "s":
        return t[1]
    if k == "b":
        return bool(t[1])
    if k == "n":
        return None
    if k == "l":
        return [_dec(x) for x in t[1]]
    if k == "q":
        val = float.fromhex(t[2])
        q = _env()["Q"][t[1]](val, t[3])
        want = val * QUNITS[t[1]][t[3]]
        got = float(q)
        if not (got == want or (got != got and want != want)) or type(q).__name__ != t[1]:
            raise Inconclusive("Quantity construction disagrees with the unit table: %r" % (t,))
        return q
    raise ValueError("bad tagged value %r" % (t,))


def _enc_obs(v):
    """observed value -> short JSON-able description"""
    if isinstance(v, dict):
        return {"dict-keys": list(v)}
    return "%s:%r" % (type(v).__name__, v)


def _same(a, b):
    if a is b:
        return True
    try:
        return type(a) is type(b) and bool(a == b) and bool(b == a)
    except Exception:
        return False


# ------------------------------------------------------------------------------------------ reference model
class _N:
    __slots__ = ("dsnap", "cls", "key", "prio", "ro", "obj", "kids", "parent", "default", "value", "lo", "hi", "opts",
                 "q", "nid")

    def __init__(self, cls, key, prio, ro, obj):
        self.cls, self.key, self.prio, self.ro, self.obj = cls, key, prio, ro, obj
        self.kids = []          # insertion order
        self.parent = None
        self.default = self.value = None
        self.lo, self.hi, self.opts, self.q = -INF, INF, None, None
        self.nid = -1

    def shown(self):
        return sorted(self.kids, key=lambda c: c.prio)      # stable: ties keep insertion order

    def kid(self, key):
        for c in self.kids:
            if c.key == key:
                return c
        return None


def _walk(top):
    out, stack = [], [(top, 0)]
    while stack:
        n, d = stack.pop()
        out.append((n, d))
        if n.cls == "map":
            for c in reversed(n.shown()):
                stack.append((c, d + 1))
    return out


def _ancestors(n):
    res = []
    while n.parent is not None:
        n = n.parent
        res.append(n)
    return res


def _rel(anc, n):
    parts = []
    while n is not anc:
        parts.append(n.key)
        n = n.parent
    return ".".join(reversed(parts))


def _resolve(m, path):
    cur = m
    for part in path.split("."):
        if cur.cls != "map":
            return None
        cur = cur.kid(part)
        if cur is None:
            return None
    return cur


def _in(v, lo, hi):
    try:
        return bool(lo <= v <= hi)
    except Exception:
        return False


def _valid(node, v):
    """validity of v as value of node, from the docstrings: ("A"|"R"|"E", reason)."""
    cls = node.cls
    if cls == "generic":
        return "A", "any"
    if cls == "map":
        return "R", "map"
    Quantity = _env()["Quantity"]
    if cls == "int":
        if not isinstance(v, int):
            return "R", "type"
        if not _in(v, node.lo, node.hi):
            return "R", "bounds"
        return ("E", "bool") if isinstance(v, bool) else ("A", "ok")
    if cls == "float":
        if isinstance(v, Quantity):
            return "E", "quantity-is-a-float"
        if not isinstance(v, (int, float)):
            return "R", "type"
        if v != v:
            return "R", "nan"
        if not _in(v, node.lo, node.hi):
            return "R", "bounds"
        if isinstance(v, bool):
            return "E", "bool"
        if isinstance(v, float) and math.isinf(v):
            return "E", "inf"
        return "A", "ok"
    if cls == "str":
        return ("A", "ok") if isinstance(v, str) else ("R", "type")
    if cls == "bool":
        return ("A", "ok") if isinstance(v, bool) else ("R", "type")
    if cls == "quantity":
        qc = _env()["Q"][node.q]
        if type(v) is not qc:
            return "R", "qtype" if isinstance(v, Quantity) else "type"
        si = float(v)
        if si != si:
            return "R", "nan"
        if not _in(si, node.lo, node.hi):
            return "R", "bounds"
        if math.isinf(si):
            return "E", "inf"
        return "A", "ok"
    if cls == "sel":
        if not isinstance(v, str):
            return "R", "type"
        return ("A", "ok") if v in node.opts else ("R", "option")
    if cls == "unit":
        if not isinstance(v, str):
            return "R", "type"
        if v in QUNITS[node.q]:
            return "A", "ok"
        if v in NOT_UNITS[node.q]:
            return "R", "option"
        return "E", "unit-not-in-oracle-table"
    raise ValueError(cls)


def enumerate_cases(tier):
    """bounded quantity parameters x every non-base unit of the oracle table x the bound expressed in that unit
    (bound / factor and its two neighbours), through the parameter and through the model"""
    cases = []
    his = [0.35, 0.82, 0.7, 0.41, 0.013, 3.3, 47.0, 0.009] if tier == "quick" else \
        [0.35, 0.82, 0.7, 0.41, 0.013, 3.3, 47.0, 0.009, 0.69, 0.018, 1.1, 0.3, 7.7, 123.4]
    for q in QNAMES:
        units = sorted(QUNITS[q])
        others = [u for u in units if u != QBASE[q]]
        for hi in his:
            for ui in range(len(others)):
                for variant in range(3):
                    for mode in ("hi-unit", "lo-unit"):
                        lo_, hi_ = (0.0, hi) if mode == "hi-unit" else (hi, 1e6)
                        cases.append({"root": None, "ops": [
                            {"op": "new", "cls": "quantity", "det": False, "par": 0, "deep": False, "key": ["s", "a"],
                             "name": ["s", "n"], "prio": ["i", 1], "ro": False, "lo": ["f", _fl(lo_)],
                             "hi": ["f", _fl(hi_)], "mode": "hi" if mode == "hi-unit" else "lo", "n": 0,
                             "x": _fl(0.0), "q": q},
                            {"op": "set", "any": False, "mode": mode, "n": 0,
                             "t": 0, "via": "direct" if variant % 2 == 0 else "model", "x": _fl(0.0),
                             "unit_index": ui, "variant": variant}]})
    return cases


# ------------------------------------------------------------------------------------------ value derivation
def _irange(lo, hi):
    lo_i = None if math.isinf(lo) else math.ceil(lo)
    hi_i = None if math.isinf(hi) else math.floor(hi)
    return lo_i, hi_i


def _int_in(lo, hi, n):
    lo_i, hi_i = _irange(lo, hi)
    if lo_i is not None and hi_i is not None:
        if hi_i < lo_i:
            return lo_i
        return lo_i + n % (hi_i - lo_i + 1)
    if lo_i is not None:
        return lo_i + n % 9
    if hi_i is not None:
        return hi_i - n % 9
    return [0, 1, -1, n, -n, 2 ** 70 + n, -(2 ** 64) - n][n % 7]


def _float_in(lo, hi, n, x):
    frac = (n % 1000) / 999.0
    lo_f, hi_f = lo > -INF, hi < INF
    if lo_f and hi_f:
        v = lo + frac * (hi - lo)
        if v != v or math.isinf(v):
            v = lo / 2 + hi / 2
        return min(max(v, lo), hi)
    if lo_f:
        v = lo + abs(x)
        return v if not math.isinf(v) else float(lo)
    if hi_f:
        v = hi - abs(x)
        return v if not math.isinf(v) else float(hi)
    return x


def _num_tag(v):
    return ["i", v] if isinstance(v, int) and not isinstance(v, bool) else ["f", _fl(v)]


def _derive(node, op):
    """tagged value for a set/new op, steered by op['mode'] and the node's class/bounds/options."""
    mode, n = op["mode"], op["n"]
    unit_index, variant = op.get("unit_index"), op.get("variant")
    x = float.fromhex(op["x"])
    wrong = WRONG[n % len(WRONG)]
    if mode == "lit":
        return op.get("v", wrong)
    if mode == "wrong":
        return wrong
    cls, lo, hi = node.cls, node.lo, node.hi
    if mode == "bool":
        return ["b", n % 2 == 0]
    if mode == "nan" and cls != "quantity":
        return ["f", "nan"]
    if mode == "inf" and cls != "quantity":
        return ["f", "inf" if n % 2 else "-inf"]
    if cls == "int":
        lo_i, hi_i = _irange(lo, hi)
        if mode in ("in", "int", "otherq"):
            return ["i", _int_in(lo, hi, n)]
        if mode == "lo":
            return ["i", lo_i if lo_i is not None else _int_in(lo, hi, n)]
        if mode == "hi":
            return ["i", hi_i if hi_i is not None else _int_in(lo, hi, n)]
        if mode in ("above", "justabove"):
            return ["i", hi_i + 1 + (n % 3 if mode == "above" else 0)] if hi_i is not None else wrong
        if mode in ("below", "justbelow"):
            return ["i", lo_i - 1 - (n % 3 if mode == "below" else 0)] if lo_i is not None else wrong
        if mode == "float":
            try:
                return ["f", _fl(float(_int_in(lo, hi, n)))]
            except OverflowError:
                return ["f", _fl(1.0)]
        return wrong
    if cls == "float":
        if mode in ("in", "float", "otherq"):
            return ["f", _fl(_float_in(lo, hi, n, x))]
        if mode == "int":
            lo_i, hi_i = _irange(lo, hi)
            if lo_i is not None and hi_i is not None and hi_i < lo_i:
                return ["f", _fl(_float_in(lo, hi, n, x))]
            return ["i", _int_in(lo, hi, n)]
        if mode == "lo":
            return _num_tag(lo)
        if mode == "hi":
            return _num_tag(hi)
        if mode == "justabove":
            return ["f", _fl(math.nextafter(float(hi), INF))] if hi < INF else wrong
        if mode == "justbelow":
            return ["f", _fl(math.nextafter(float(lo), -INF))] if lo > -INF else wrong
        if mode == "above":
            if hi == INF:
                return wrong
            v = float(hi) + 1.0 + (n % 10)
            return ["f", _fl(v if v > hi else math.nextafter(float(hi), INF))]
        if mode == "below":
            if lo == -INF:
                return wrong
            v = float(lo) - 1.0 - (n % 10)
            return ["f", _fl(v if v < lo else math.nextafter(float(lo), -INF))]
        return wrong
    if cls == "quantity":
        units = sorted(QUNITS[node.q])
        base = QBASE[node.q]
        if mode == "otherq":
            oq = QNAMES[(QNAMES.index(node.q) + 1 + n % 2) % len(QNAMES)]
            if node.q in SAME_SIGNATURE and n % 3 != 0:
                oq = SAME_SIGNATURE[node.q]
            return ["q", oq, _fl(_float_in(lo, hi, n, x)), QBASE[oq]]
        if mode in ("in", "int", "float"):
            u = units[n % len(units)]
            return ["q", node.q, _fl(_float_in(lo, hi, n // 7, x) / QUNITS[node.q][u]), u]
        if mode == "lo":
            return ["q", node.q, _fl(lo), base]
        if mode == "hi":
            return ["q", node.q, _fl(hi), base]
        if mode in ("hi-unit", "lo-unit"):
            # a bound expressed in another unit (bound / factor, or one of its neighbours): whether it is inside
            # is decided by its SI value, and value * factor need not be the bound again
            b = hi if mode == "hi-unit" else lo
            others = [u_ for u_ in units if u_ != base]
            if math.isinf(b) or not others:
                return wrong
            u = others[(n if unit_index is None else unit_index) % len(others)]
            v = float(b) / QUNITS[node.q][u]
            v = [v, math.nextafter(v, INF), math.nextafter(v, -INF)][((n // 7) if variant is None else variant) % 3]
            if math.isinf(v):
                return wrong
            return ["q", node.q, _fl(v), u]
        if mode == "nan":
            return ["q", node.q, "nan", units[n % len(units)]]
        if mode == "inf":
            return ["q", node.q, "inf" if n % 2 else "-inf", base]
        if mode == "justabove":
            return ["q", node.q, _fl(math.nextafter(float(hi), INF)), base] if hi < INF else wrong
        if mode == "justbelow":
            return ["q", node.q, _fl(math.nextafter(float(lo), -INF)), base] if lo > -INF else wrong
        if mode == "above":
            return ["q", node.q, _fl(float(hi) + 1.0 + n % 10), base] if hi < INF else wrong
        if mode == "below":
            return ["q", node.q, _fl(float(lo) - 1.0 - n % 10), base] if lo > -INF else wrong
        return wrong
    if cls == "str":
        return ["s", STRS[n % len(STRS)]] if mode in ("in", "lo", "hi") else wrong
    if cls == "bool":
        if mode in ("in", "lo", "hi"):
            return ["b", n % 2 == 0]
        if mode in ("int", "above", "below"):
            return ["i", n % 2]
        return wrong
    if cls == "sel":
        if mode in ("in", "lo", "hi") and node.opts:
            return ["s", node.opts[n % len(node.opts)]]
        if mode in ("above", "below", "justabove", "justbelow", "otherq"):
            return ["s", (STRS + ["b", "DE", "MD ", "x", "A"])[n % (len(STRS) + 5)]]
        return wrong
    if cls == "unit":
        units = sorted(QUNITS[node.q])
        if mode in ("in", "lo", "hi"):
            return ["s", units[n % len(units)]]
        if mode in ("above", "below", "justabove", "justbelow", "otherq"):
            return ["s", NOT_UNITS[node.q][n % len(NOT_UNITS[node.q])]]
        return wrong
    return op.get("v", wrong)          # map, generic


# ------------------------------------------------------------------------------------------ interpreter
class _State:
    def __init__(self, out):
        self.out = out
        self.root = None
        self.detached = []
        self.count = 0
        self.depth2 = self.tie = False
        self.accepted = self.rejected = 0

    def tops(self):
        return [self.root] + self.detached

    def maps(self, deep=False):
        ms = [(n, d) for t in self.tops() for n, d in _walk(t) if n.cls == "map"]
        if deep:        # the two deepest maps of the root tree (favours trees of depth >= 2)
            rt = [(n, d) for n, d in _walk(self.root) if n.cls == "map"]
            rt.sort(key=lambda nd: -nd[1])
            return [n for n, _ in rt[:2]]
        return [n for n, _ in ms]

    def leaves(self, any_node):
        nodes = [n for t in self.tops() for n, _ in _walk(t)]
        lv = [n for n in nodes if n.cls != "map"]
        return nodes if (any_node or not lv) else lv

    def nontop(self):
        return [n for t in self.tops() for n, _ in _walk(t) if n.parent is not None]

    def in_root_tree(self, n):
        while n.parent is not None:
            n = n.parent
        return n is self.root


def _desc(n):
    return {"cls": n.cls, "key": n.key, "prio": n.prio, "ro": n.ro,
            "path": _rel_top(n), "lo": n.lo, "hi": n.hi, "opts": n.opts, "q": n.q}


def _rel_top(n):
    parts = []
    while n is not None:
        parts.append(n.key)
        n = n.parent
    return ".".join(reversed(parts))


def _check_model_view(S, model, opi, seen):
    """Through the model: every leaf parameter of the root tree is addressable by its key relative to the root and
    reports its current value; a key that was addressable earlier and no longer resolves raises KeyError (a model
    that remembers parameter objects must notice removals and replacements)."""
    out = S.out
    now = {}
    for n, _d in _walk(S.root):
        if n is not S.root and n.cls != "map":
            now[_rel(S.root, n)] = n
    for key, n in now.items():
        try:
            got = model.get_parameter(key)
        except Exception as e:
            out.fail("model-get-parameter", {"op": opi, "key": key, "raised": type(e).__name__ + ": " + str(e)[:120]})
            return False
        if not (got is n.obj.value or _same(got, n.value)):
            out.fail("model-get-parameter-stale", {"op": opi, "key": key, "got": _enc_obs(got), "want": _enc_obs(n.value)})
            return False
    for key in sorted(seen - set(now)):
        if _resolve(S.root, key) is not None:
            continue                      # the key now names a map
        try:
            model.get_parameter(key)
        except KeyError:
            continue
        except Exception as e:
            out.fail("unexpected-exception:get:" + type(e).__name__, {"op": opi, "key": key})
            return False
        out.fail("model-serves-removed-key", {"op": opi, "key": key})
        return False
    if len(seen) < 200:
        seen.update(now)
    return True


def _check_all(S, opi, memb_kind="children-membership"):
    """the per-op invariant over the root tree and all detached subtrees; False when a discrepancy was booked."""
    out = S.out
    P = _env()["P"]
    for top in S.tops():
        attached = top is S.root
        for n, depth in _walk(top):
            obj = n.obj
            where = {"op": opi, "node": _rel_top(n), "cls": n.cls, "tree": "root" if attached else "detached"}
            try:
                if obj.key != n.key:
                    out.fail("key-changed", where)
                    return False
                if obj.display_priority != n.prio or obj.read_only is not n.ro:
                    out.fail("attribute-changed", dict(where, prio=repr(obj.display_priority),
                                                       ro=repr(obj.read_only)))
                    return False
                if n.parent is not None and obj.parent is not n.parent.obj:
                    out.fail("parent-link", where)
                    return False
                if attached:
                    if n.parent is None and obj.parent is not None:
                        out.fail("parent-link", where)
                        return False
                    want = _rel_top(n)
                    got = obj.extended_key()
                    if got != want:
                        out.fail("extended-key", dict(where, got=got, want=want))
                        return False
                    if depth >= 2:
                        S.depth2 = True
                val = obj.value
                if n.cls == "map":
                    if not isinstance(val, dict):
                        out.fail("map-value-not-a-dict", dict(where, got=_enc_obs(val)))
                        return False
                    exp = n.shown()
                    gkeys, gobjs = list(val.keys()), list(val.values())
                    ekeys = [c.key for c in exp]
                    if len(gobjs) != len(exp) or gkeys != ekeys or any(g is not c.obj for g, c in zip(gobjs, exp)):
                        same_members = (len(gobjs) == len(exp) and sorted(map(id, gobjs)) ==
                                        sorted(id(c.obj) for c in exp) and sorted(gkeys) == sorted(ekeys))
                        kind = "children-order" if same_members else memb_kind
                        out.fail(kind, dict(where, got=gkeys, want=ekeys,
                                            want_prio=[c.prio for c in exp],
                                            inserted=[c.key for c in n.kids]))
                        return False
                    # the default value of a map (whatever it is) never changes either
                    dv = obj.default_value
                    snap = None if dv is None else (type(dv).__name__, [str(k) for k in dv] if isinstance(dv, dict)
                                                    else repr(dv))
                    if not hasattr(n, "dsnap"):
                        n.dsnap = snap
                    elif snap != n.dsnap:
                        out.fail("default-changed:map", dict(where, got=snap, want=n.dsnap))
                        return False
                    if attached and len({c.prio for c in n.kids}) < len(n.kids):
                        S.tie = True
                    if not isinstance(obj, P.InputParameterMap):
                        out.fail("class-changed", where)
                        return False
                else:
                    if not _same(val, n.value):
                        out.fail("value-drift:" + n.cls, dict(where, got=_enc_obs(val), want=_enc_obs(n.value)))
                        return False
                    verdict, reason = _valid(n, val)
                    if n.cls == "float" and isinstance(val, _env()["Quantity"]):
                        # (whether a quantity may be OFFERED to a float parameter is left open, but what the
                        # parameter then holds must be a number one can calculate with, not a quantity object)
                        verdict, reason = "R", "quantity-object-stored"
                    if verdict == "R":
                        out.fail("value-type-bounds:%s:%s" % (n.cls, reason),
                                 dict(where, value=_enc_obs(val), node_spec=_desc(n)))
                        return False
                    dv = obj.default_value
                    if not _same(dv, n.default):
                        out.fail("default-changed:" + n.cls, dict(where, got=_enc_obs(dv),
                                                                 want=_enc_obs(n.default)))
                        return False
                # retrievable by the extended key relative to every ancestor map
                for anc in _ancestors(n):
                    rel = _rel(anc, n)
                    try:
                        got = anc.obj.get(rel)
                    except Exception as e:
                        out.fail("get-by-extended-key", dict(where, ancestor=_rel_top(anc), rel=rel,
                                                             raised=type(e).__name__ + ": " + str(e)[:120]))
                        return False
                    if got is not obj:
                        out.fail("get-by-extended-key", dict(where, ancestor=_rel_top(anc), rel=rel,
                                                             got=_enc_obs(got)))
                        return False
            except Exception as e:  # an observer of the code under test failed
                out.fail("observer-raises:" + type(e).__name__, dict(where, msg=str(e)[:200]))
                return False
    return True


def _construct(S, op, parent):
    """build the constructor call for a 'new' op; returns (callable, node-prototype, why-invalid list, tagged default)"""
    env = _env()
    P = env["P"]
    cls = op["cls"]
    key, name, prio = _dec(op["key"]), _dec(op["name"]), _dec(op["prio"])
    why = []
    if not isinstance(key, str) or key == "" or "." in key:
        why.append("badkey")
    if not isinstance(name, str) or name == "":
        why.append("badname")
    if isinstance(prio, bool) or not isinstance(prio, (int, float)):
        why.append("badprio")
    if parent is not None and isinstance(key, str) and parent.kid(key) is not None:
        why.append("dupkey")
    proto = _N(cls, key, float(prio) if "badprio" not in why else None, bool(op["ro"]) if cls != "map" else True,
               None)
    kw = {}
    if parent is not None:
        kw["parent"] = parent.obj
    if cls != "map":
        kw["read_only"] = bool(op["ro"])
    tagged = None
    either = False
    if cls in ("int", "float", "quantity"):
        lo = _dec(op["lo"]) if op.get("lo") is not None else None
        hi = _dec(op["hi"]) if op.get("hi") is not None else None
        proto.lo = -INF if lo is None else lo
        proto.hi = INF if hi is None else hi
        names = ("min_si", "max_si") if cls == "quantity" else ("min_value", "max_value")
        if lo is not None:
            kw[names[0]] = lo
        if hi is not None:
            kw[names[1]] = hi
        if proto.lo >= proto.hi:
            why.append("badbounds")
    if cls in ("quantity", "unit"):
        proto.q = op["q"]
    if cls == "sel":
        proto.opts = list(op.get("opts", []))
    if cls == "map":
        args = (key, name, prio)
        ctor = P.InputParameterMap
        kw.pop("read_only", None)
    else:
        tagged = _derive(proto, op)
        dflt = _dec(tagged)
        proto.default = proto.value = dflt
        if cls == "quantity" and type(dflt).__name__ in QUNITS and isinstance(dflt, env["Quantity"]):
            proto.q = type(dflt).__name__       # the default value declares the quantity type of the parameter
        verdict, reason = _valid(proto, dflt)
        if verdict == "R":
            why.append("baddefault-" + reason)
        elif verdict == "E":
            either = True
        if cls == "int":
            ctor, args = P.InputParameterInt, (key, name, dflt, prio)
        elif cls == "float":
            ctor, args = P.InputParameterFloat, (key, name, dflt, prio)
        elif cls == "str":
            ctor, args = P.InputParameterStr, (key, name, dflt, prio)
        elif cls == "bool":
            ctor, args = P.InputParameterBool, (key, name, dflt, prio)
        elif cls == "quantity":
            ctor, args = P.InputParameterQuantity, (key, name, dflt, prio)
        elif cls == "sel":
            opts = list(proto.opts)
            if op.get("optsbad") == "tuple":
                opts = tuple(opts)
                why.append("badopts")
            elif op.get("optsbad") == "nonstr":
                opts = opts + [4]
                proto.opts = opts
                why.append("badopts")
            else:
                proto.opts = opts       # the very list handed to the constructor
            ctor, args = P.InputParameterSelectionList, (key, name, opts, dflt, prio)
        elif cls == "unit":
            ctor, args = P.InputParameterUnit, (key, name, env["Q"][proto.q], dflt, prio)
        else:
            ctor, args = P.InputParameter, (key, name, dflt, prio)
    return (lambda: ctor(*args, **kw)), proto, why, tagged, either


def run_case(case):
    env = _env()
    P = env["P"]
    out = Outcome()
    S = _State(out)
    model_seen = set()
    model = env["Model"](env["Sim"]("sim"))
    if case.get("root") is None:
        robj = model.input_parameters
        S.root = _N("map", "root", 1.0, True, robj)
        out.label("root=model-default")
    else:
        robj = P.InputParameterMap(case["root"], "custom root", 1)
        model.input_parameters = robj
        if model.input_parameters is not robj:
            out.fail("model-input-parameters-setter", None)
        S.root = _N("map", case["root"], 1.0, True, robj)
        out.label("root=custom")
    concrete = []
    classes = set()

    def refusal_type_ok(e, extra=()):
        return isinstance(e, REFUSAL + tuple(extra))

    for opi, op in enumerate(case["ops"]):
        name = op["op"]
        memb_kind = "children-membership"
        # ------------------------------------------------------------------ new
        if name == "new":
            maps = S.maps(deep=bool(op.get("deep")))
            parent = None if op.get("det") else maps[op["par"] % len(maps)]
            call, proto, why, tagged, either = _construct(S, op, parent)
            concrete.append({"new": op["cls"], "under": None if parent is None else _rel_top(parent),
                             "key": op["key"], "prio": op["prio"], "default": tagged, "ro": proto.ro,
                             "lo": op.get("lo"), "hi": op.get("hi"), "why_invalid": why})
            exc = obj = None
            try:
                obj = call()
            except Exception as e:
                exc = e
            detail = {"op": opi, "call": concrete[-1],
                      "raised": None if exc is None else type(exc).__name__ + ": " + str(exc)[:160]}
            if exc is not None:
                if not why and not either:
                    out.fail("valid-construct-rejected:" + op["cls"], detail)
                elif not refusal_type_ok(exc):
                    out.fail("unexpected-exception:new:" + type(exc).__name__, detail)
                if "dupkey" in why:
                    out.label("new:duplicate-key-refused")
                    memb_kind = "duplicate-key-map-changed"
                else:
                    out.label("new:invalid-refused" if why else "new:either-refused")
                    memb_kind = "failed-construct-left-child-registered"
                for w in why:
                    out.label("new-invalid:" + w.split("-")[0])
            else:
                if why:
                    if "dupkey" in why:
                        out.fail("duplicate-key-accepted", detail)
                    else:
                        out.fail("invalid-construct-accepted:%s:%s" % (op["cls"], why[0]), detail)
                else:
                    proto.obj = obj
                    proto.nid = S.count
                    S.count += 1
                    classes.add(op["cls"])
                    if parent is None:
                        S.detached.append(proto)
                        out.label("new:detached")
                    else:
                        proto.parent = parent
                        parent.kids.append(proto)
                        out.label("new:under-detached-map" if not S.in_root_tree(parent) else "new:ok")
                    if either:
                        out.label("new:either-accepted")
        # ------------------------------------------------------------------ add
        elif name == "add":
            maps = [n for n, _ in _walk(S.root) if n.cls == "map"]
            m = S.root if op["via"] == "model" else maps[op["m"] % len(maps)]
            if op["via"] == "junk":
                junk = ["x", None, 3, {}][op["d"] % 4]
                concrete.append({"add-junk": repr(junk), "to": _rel_top(m)})
                try:
                    m.obj.add(junk)
                    out.fail("add-non-parameter-accepted", {"op": opi, "call": concrete[-1]})
                except Exception as e:
                    if not refusal_type_ok(e):
                        out.fail("unexpected-exception:add:" + type(e).__name__, {"op": opi, "msg": str(e)[:160]})
                out.label("add:non-parameter-refused")
            elif not S.detached:
                out.label("add:skipped-nothing-detached")
                continue
            else:
                d = S.detached[op["d"] % len(S.detached)]
                dup = m.kid(d.key) is not None
                concrete.append({"add": d.key, "cls": d.cls, "to": _rel_top(m), "via": op["via"], "dup": dup})
                exc = None
                before = (d.obj.parent, d.obj.extended_key())
                try:
                    if op["via"] == "model":
                        model.add_parameter(d.obj)
                    else:
                        m.obj.add(d.obj)
                except Exception as e:
                    exc = e
                detail = {"op": opi, "call": concrete[-1],
                          "raised": None if exc is None else type(exc).__name__ + ": " + str(exc)[:160]}
                if dup:
                    memb_kind = "duplicate-key-map-changed"
                    if exc is None:
                        out.fail("duplicate-key-accepted", detail)
                    elif not refusal_type_ok(exc):
                        out.fail("unexpected-exception:add:" + type(exc).__name__, detail)
                    elif d.obj.parent is not before[0] or d.obj.extended_key() != before[1]:
                        # the refused parameter itself is left alone as well: it does not belong to the map
                        out.fail("refused-add-changed-the-offered-parameter",
                                 dict(detail, extended_key=[before[1], d.obj.extended_key()]))
                    out.label("add:duplicate-key-refused")
                else:
                    if exc is not None:
                        out.fail("add-rejected", detail)
                    else:
                        S.detached.remove(d)
                        d.parent = m
                        m.kids.append(d)
                        out.label("add:ok", "add:via-" + op["via"])
                        if d.cls == "map" and d.kids:
                            out.label("add:subtree")
        # ------------------------------------------------------------------ remove / get
        elif name in ("remove", "get"):
            if op["how"] == "existing":
                cands = S.nontop()
                if not cands:
                    out.label(name + ":skipped-empty-tree")
                    continue
                target = cands[op["t"] % len(cands)]
                ancs = _ancestors(target)
                m = ancs[op["a"] % len(ancs)]
                path = _rel(m, target)
            else:
                maps = S.maps()
                m = maps[op["m"] % len(maps)]
                path = ".".join(op["path"])
                target = _resolve(m, path)
            via_model = op.get("via") == "model" and name == "get"
            if via_model:
                m = S.root
                target = _resolve(m, path)
            concrete.append({name: path, "on": _rel_top(m), "exists": target is not None,
                             "tree": "root" if S.in_root_tree(m) else "detached", "via_model": via_model})
            exc = ret = None
            try:
                if name == "get":
                    ret = model.get_parameter(path) if via_model else m.obj.get(path)
                else:
                    ret = m.obj.remove(path)
            except Exception as e:
                exc = e
            detail = {"op": opi, "call": concrete[-1], "returned": _enc_obs(ret),
                      "raised": None if exc is None else type(exc).__name__ + ": " + str(exc)[:160]}
            if name == "get":
                if target is None:
                    out.label("get:missing")
                    if exc is None:
                        out.fail("get-missing-key-no-error", detail)
                    elif not isinstance(exc, KeyError):
                        out.fail("unexpected-exception:get:" + type(exc).__name__, detail)
                else:
                    out.label("get:existing", "get:depth%d" % min(3, path.count(".") + 1))
                    if exc is not None:
                        out.fail("model-get-parameter" if via_model else "get-by-extended-key", detail)
                    elif via_model:
                        want = target.obj.value
                        if not (ret is want or (target.cls != "map" and _same(ret, target.value))):
                            out.fail("model-get-parameter", detail)
                    elif ret is not target.obj:
                        out.fail("get-by-extended-key", detail)
            else:
                if target is None:
                    out.label("remove:missing")
                    memb_kind = "remove-missing-changed-tree"
                    if exc is None and ret is not None:
                        out.fail("remove-missing-returned-something", detail)
                    elif exc is not None and not isinstance(exc, KeyError):
                        out.fail("unexpected-exception:remove:" + type(exc).__name__, detail)
                else:
                    out.label("remove:ok", "remove:depth%d" % min(3, path.count(".") + 1))
                    if target.cls == "map" and target.kids:
                        out.label("remove:subtree")
                    memb_kind = "remove-wrong-effect"
                    # the reference removes exactly the addressed parameter, whatever the implementation did
                    target.parent.kids.remove(target)
                    target.parent = None
                    S.detached.append(target)
                    if exc is not None:
                        out.fail("remove-existing-raised", detail)
                    elif ret is not target.obj:
                        out.fail("remove-return", detail)
        # ------------------------------------------------------------------ set
        elif name == "set":
            cands = S.leaves(op.get("any"))
            node = cands[op["t"] % len(cands)]
            via_model = op["via"] == "model" and S.in_root_tree(node) and node is not S.root
            tagged = _derive(node, op)
            v = _dec(tagged)
            verdict, reason = _valid(node, v)
            ro = node.ro and node.cls != "map"
            if ro:
                verdict, reason = "R", "read-only"
            key = _rel(S.root, node) if via_model else None
            concrete.append({"set": _rel_top(node), "cls": node.cls, "value": tagged, "expect": verdict,
                             "reason": reason, "via": "model:" + key if via_model else "direct",
                             "lo": node.lo, "hi": node.hi})
            exc = None
            try:
                if via_model:
                    model.set_parameter(key, v)
                else:
                    node.obj.set_value(v)
            except Exception as e:
                exc = e
            detail = {"op": opi, "call": concrete[-1], "node": _desc(node), "before": _enc_obs(node.value),
                      "raised": None if exc is None else type(exc).__name__ + ": " + str(exc)[:160]}
            try:
                now = node.obj.value
            except Exception as e:
                out.fail("observer-raises:" + type(e).__name__, detail)
                break
            detail["after"] = _enc_obs(now)
            allowed = REFUSAL + ((NotImplementedError,) if node.cls == "map" else ())
            out.label("set:%s:%s" % (node.cls, reason))
            if via_model:
                out.label("set:via-model")
            if exc is not None and not isinstance(exc, allowed):
                if via_model:
                    out.fail("model-set-parameter-raises:" + type(exc).__name__, detail)
                else:
                    out.fail("unexpected-exception:set:" + type(exc).__name__, detail)
            elif exc is not None:
                S.rejected += 1
                if verdict == "A":
                    out.fail("valid-value-rejected:" + node.cls, detail)
                elif node.cls != "map" and not _same(now, node.value):
                    out.fail("rejected-set-changed-value:" + node.cls, detail)
                out.label("set:rejected", "set:either-rejected" if verdict == "E" else
                          ("set:read-only-refused" if ro else "set:invalid-refused"))
            else:
                if verdict == "R":
                    changed = node.cls == "map" or not _same(now, node.value)
                    if ro:
                        out.fail(("read-only-changed:" if changed else "read-only-not-refused:") + node.cls, detail)
                    else:
                        out.fail("invalid-value-accepted:%s:%s" % (node.cls, reason), detail)
                else:
                    S.accepted += 1
                    out.label("set:accepted", "set:either-accepted" if verdict == "E" else "set:valid-accepted")
                    if not _same(now, v):
                        out.fail("accepted-set-not-stored:" + node.cls, detail)
                    node.value = v
                    if via_model:
                        try:
                            got = model.get_parameter(key)
                        except Exception as e:
                            out.fail("model-roundtrip", dict(detail, get_raised=type(e).__name__))
                        else:
                            if not _same(got, v):
                                out.fail("model-roundtrip", dict(detail, got=_enc_obs(got)))
                            out.label("model:roundtrip")
        else:
            raise ValueError("unknown op %r" % (name,))

        if out.disc:
            break
        if not _check_all(S, opi, memb_kind):
            break
        if not _check_model_view(S, model, opi, model_seen):
            break

    for c in classes:
        out.label("cls=" + c)
    if S.depth2:
        out.label("depth>=2")
    if S.tie:
        out.label("priority-tie")
    if S.detached:
        out.label("has-detached")
    out.nontrivial = bool(S.depth2 and S.tie and S.accepted >= 1 and S.rejected >= 1)
    out.info = {"ops": len(case["ops"]), "nodes": len(_walk(S.root)), "accepted": S.accepted,
                "rejected": S.rejected, "last": concrete[-3:]}
    return out


RULE = RULE + " " + "Later additions: alias units that are displayed differently from how they are written; a refused add leaves the offered parameter's parent and extended key alone."
