"""C09 - Tally and Counter report the textbook statistics of the registered observations.

Case (JSON):
  {"variant": "tally" | "eb" | "eb_sub" | "eb_sub1" | "counter" | "eb_counter" | "eb_counter_sub" | "eb_sim" |
              "eb_counter_sim"  (SimTally / SimCounter of a simulator that is not initialised),
   "via":     "register" | "notify" | "producer"   (event-based variants only: feed through notify(Event(DATA_EVENT, x)),
                                                  or fired by an EventProducer the statistic listens to)
   "cls":     label of the data class the generator used (informative only)
   "ops": [["r", v]                     register one observation; v = int or float.hex() string
           ["blk", gen, n, seed, a, b]  n observations expanded deterministically (see _expand) from integer seed
           ["init"]                     initialize()
           ["bad", what]                rejected input: "nan" | "str" | "none" | "list" | "float" (counter only) | "hugeint" | "neghugeint" (tally)
           ["ci", alphahex]]}           confidence_interval(alpha) compared at this point
Every op is always applicable.  After EVERY op every public getter is called (totality + NaN structure); the full
comparison with the exact oracle is made after every explicit op and at check-points inside blocks.
"""
import math
from fractions import Fraction
from statistics import NormalDist

from hypothesis import strategies as st

from vlib.runner import Outcome, digest

ID = "C09"
RULE = ("Hypothesis op lists register/initialize/rejected-input/confidence_interval over labelled data classes "
        "(small ints, unit floats, mixed magnitudes 2^-10..2^20, offset 1e2..1e8 + small spread, all-equal, "
        "two-valued, ramps, values scaled by 2^+-200, unrestricted finite doubles, extremes up to 1.8e308 / 5e-324); "
        "explicit values are drawn by Hypothesis, long runs (n up to 300 quick / 5000 thorough) are expanded "
        "deterministically from a drawn integer seed (splitmix64, no `random`).  Variants: Tally, EventBasedTally "
        "without / with a subscriber on all events / on one event (fed through register or notify), Counter, "
        "EventBasedCounter (+subscriber).  Oracle: exact integer power sums (all doubles scaled to a common power "
        "of two) -> fractions.Fraction central moments -> the documented formulas for n, sum, min, max, mean, "
        "variance, stdev, skewness, kurtosis, excess kurtosis (biased and unbiased) and the confidence interval "
        "(z from statistics.NormalDist), on exactly the observations since the last initialize.  Every getter is "
        "called after every op and must not raise; the documented NaN structure is required (too few observations, "
        "zero variance); rejected inputs must raise the documented exception and leave every getter bit-identical; "
        "values published to a subscriber must equal the getters.  Accuracy: |got-exact| <= C*n*eps*S^p for the "
        "dimensioned getters of order p (S = |mu| + max|x-mu|), C*n*eps*kappa^p*max(1,|exact|) for the standardised "
        "ones (kappa = S/sigma, exact); a standardised getter whose C*n*eps*kappa^p exceeds 1e-3 is labelled "
        "ill-conditioned and only checked for totality.  Non-trivial = a compared state with n>=4, non-zero "
        "variance and all orders well-conditioned, or an initialize between observations, or all-equal data with "
        "n>=2 (counter: >=2 increments with an initialize or a rejected input between them); distinct = distinct "
        "case digests.")
ASSUMPTIONS = [
    "observations are finite ints (|x| <= 2^53, exactly representable) or finite doubles; +-inf is excluded",
    "the quantile z of the confidence interval comes from statistics.NormalDist (stdlib, trusted); alpha whose "
    "level 1-alpha/2 rounds to 1.0 (incl. alpha = 0) may return any interval between the mean and [min, max] or NaN",
    "accuracy is compared only when all non-zero magnitudes lie in [1e-70, 1e70] (fourth powers must not "
    "overflow/underflow); outside only totality, the NaN structure for too few observations and n/min/max are checked",
    "ill-conditioned data (C*n*eps*kappa^p > 1e-3) is checked for totality and NaN structure only, for the "
    "standardised getters of order p",
    "bool observations and infinite observations are not generated",
]
NONTRIVIAL_FLOOR = 0.25
LEVEL_TEXT = "exploration"
LEVEL_NOTE = ("exact rational oracle; accuracy asserted relative to the stated conditioning-scaled tolerance "
              "C*n*eps*kappa^p with C frozen after calibration")
TECHNIQUE = "property-based testing (Hypothesis op lists) against an exact fractions.Fraction oracle"

EPS = 2.0 ** -52
C_TOL = 64.0            # calibrated: see reports/C09.md (largest observed ratio * >= 100)
ILL = 1e-3
RANGE_LO, RANGE_HI = 1e-70, 1e70
_CALIB = None           # set to a dict by the calibration probe: getter -> largest err / (n*eps*scale)

ALPHAS_SWEEP = [0.05, 0.0, 1.0]


def budget(tier):
    if tier == "quick":
        return {"examples": 9600, "shards": 16}
    return {"examples": 160000, "shards": 16}


# ---------------------------------------------------------------- deterministic expansion of blocks
_M64 = (1 << 64) - 1


def _mix(seed, i):
    z = (seed + (i + 1) * 0x9E3779B97F4A7C15) & _M64
    z = ((z ^ (z >> 30)) * 0xBF58476D1CE4E5B9) & _M64
    z = ((z ^ (z >> 27)) * 0x94D049BB133111EB) & _M64
    return z ^ (z >> 31)


def _u(seed, i):
    return (_mix(seed, i) >> 11) / 9007199254740992.0


def _dec(v):
    return float.fromhex(v) if isinstance(v, str) else v


def _expand(gen, n, seed, a, b):
    """n observations; a, b already decoded.  Only exact / correctly rounded IEEE operations are used."""
    if gen == "uni":                      # a + b*u
        return [a + b * _u(seed, i) for i in range(n)]
    if gen == "int":                      # integers a .. a+b
        lo, span = int(a), max(0, int(b))
        return [lo + _mix(seed, i) % (span + 1) for i in range(n)]
    if gen == "mag":                      # +- mantissa in [0.5,1) * 2^e, e in a..b
        lo, hi = int(a), int(b)
        if hi < lo:
            lo, hi = hi, lo
        out = []
        for i in range(n):
            r = _mix(seed, i)
            e = lo + (r & 0xFFFF) % (hi - lo + 1)
            m = 0.5 + _u(seed ^ 0x5555, i) / 2.0
            x = math.ldexp(m, max(-1073, min(1024, e)))
            if math.isinf(x):
                x = 1.7976931348623157e308
            out.append(-x if (r >> 20) & 1 else x)
        return out
    if gen == "const":
        return [a] * n
    if gen == "two":
        return [a if _mix(seed, i) & 1 else b for i in range(n)]
    if gen == "ramp":
        out = []
        for i in range(n):
            x = a + b * i
            out.append(x)
        return out
    return []


def _finite(x):
    return isinstance(x, int) or (isinstance(x, float) and math.isfinite(x))


# ---------------------------------------------------------------- strategy
def _hx(x):
    return float(x).hex()


_EXTREMES = [1.7976931348623157e308, -1.7976931348623157e308, 1e308, -1e308, 5e-324, -5e-324, 0.0, -0.0,
             1e154, -1e154, 1e200, 1e-200, 1e103, -1e103, 3e103, 2.2250738585072014e-308, 1e-308, 1.0, -1.0,
             1e77, 1e-77, 8.124740486905563e-309, -7.6946227979875544e-118]
_ALPHAS = [0.0, 1.0, 0.5, 0.1, 0.05, 0.01, 0.001, 1e-6, 1e-10, 1e-17, 5e-324, 0.9999, 0.95]
_CLASSES = ["small_int", "unit", "mixed", "offset", "equal", "two", "ramp", "scaled", "free", "extreme",
            "small_int", "unit", "mixed", "offset", "equal", "two"]


def _class_strategies(draw, cls):
    """-> (strategy of explicit encoded values, strategy of block ops without n/seed: (gen, a, b))"""
    fl = st.floats(allow_nan=False, allow_infinity=False)
    if cls == "small_int":
        lo = draw(st.integers(-20, 20))
        span = draw(st.integers(1, 40))
        return st.integers(-20, 20), st.just(("int", lo, span))
    if cls == "unit":
        a = draw(st.sampled_from([0.0, -1.0, -0.5, 0.25]))
        b = draw(st.sampled_from([1.0, 2.0, 0.5]))
        return st.floats(-1.0, 1.0).map(_hx), st.just(("uni", _hx(a), _hx(b)))
    if cls == "mixed":
        pos = st.floats(1e-3, 1e6)
        val = st.tuples(pos, st.booleans()).map(lambda t: _hx(-t[0] if t[1] else t[0]))
        return val, st.just(("mag", -10, 20))
    if cls == "offset":
        k = draw(st.integers(2, 8))
        off = (10.0 ** k) * draw(st.sampled_from([1.0, -1.0, 3.0]))
        s = draw(st.sampled_from([1.0, 0.01, 100.0]))
        val = st.floats(-s / 2, s / 2).map(lambda d: _hx(off + d))
        return val, st.just(("uni", _hx(off - s / 2), _hx(s)))
    if cls == "equal":
        v = draw(st.one_of(st.sampled_from([0.0, 0.1, 1.0, -3.0, 1e8 + 0.5, 1e-5, 7, -2, 0, 1e300, 5e-324]),
                           fl, st.integers(-1000, 1000)))
        ev = v if isinstance(v, int) else _hx(v)
        return st.just(ev), st.just(("const", ev, 0))
    if cls == "two":
        a = draw(st.one_of(st.integers(-9, 9), st.floats(-10, 10)))
        b = draw(st.one_of(st.integers(-9, 9), st.floats(-10, 10), st.just(a)))
        ea = a if isinstance(a, int) else _hx(a)
        eb = b if isinstance(b, int) else _hx(b)
        return st.sampled_from([ea, eb]), st.just(("two", ea, eb))
    if cls == "ramp":
        a = draw(st.floats(-100, 100))
        b = draw(st.sampled_from([1.0, -0.5, 0.1, 1e-3, 3.0]))
        return st.floats(-100, 100).map(_hx), st.just(("ramp", _hx(a), _hx(b)))
    if cls == "scaled":
        e0 = draw(st.sampled_from([-225, -200, 190, 215]))
        val = st.tuples(st.floats(0.5, 1.0), st.integers(e0, e0 + 12), st.booleans()).map(
            lambda t: _hx(math.ldexp(-t[0] if t[2] else t[0], t[1])))
        return val, st.just(("mag", e0, e0 + 12))
    if cls == "free":
        return st.one_of(fl.map(_hx), st.integers(-2 ** 53, 2 ** 53)), st.just(("mag", -40, 40))
    # extreme: totality only
    val = st.one_of(st.sampled_from(_EXTREMES).map(_hx), fl.map(_hx))
    blk = st.sampled_from([("mag", -1073, 1023), ("mag", 1000, 1023), ("mag", 330, 345), ("mag", -1073, -1000),
                           ("two", _hx(1e308), _hx(-1e308)), ("const", _hx(1e308), 0)])
    return val, blk


def strategy(tier):
    sizes = [2, 3, 4, 5, 8, 13, 21, 34, 55, 89, 144, 233, 300]
    if tier != "quick":
        sizes = sizes + [500, 1000, 2000, 5000]
    maxops = 30 if tier == "quick" else 60

    @st.composite
    def case(draw):
        variant = draw(st.sampled_from(["tally", "tally", "eb", "eb_sub", "eb_sub", "eb_sub", "eb_sub1",
                                        "tally", "eb_sub", "tally", "eb_sub1", "eb", "eb_sub", "tally",
                                        "counter", "eb_counter", "eb_counter_sub",
                                        # the simulation-aware subclasses (same contract; not initialised simulator)
                                        "eb_sim", "eb_sim", "eb_counter_sim"]))
        via = draw(st.sampled_from(["register", "register", "notify", "producer"]))
        if variant.startswith("counter") or variant.startswith("eb_counter"):
            val = st.one_of(st.just(1), st.integers(-5, 5), st.integers())
            ops = draw(st.lists(st.one_of(
                val.map(lambda v: ["r", v]), val.map(lambda v: ["r", v]), val.map(lambda v: ["r", v]),
                st.just(["init"]),
                st.sampled_from(["nan", "str", "none", "float", "list"]).map(lambda w: ["bad", w]),
                st.tuples(st.sampled_from([3, 10, 50]), st.integers(0, 2 ** 32)).map(
                    lambda t: ["blk", "int", t[0], t[1], -3, 6])),
                min_size=1, max_size=maxops))
            return {"variant": variant, "via": via, "cls": "counter", "ops": ops}
        cls = draw(st.sampled_from(_CLASSES))
        val, blk = _class_strategies(draw, cls)
        big = draw(st.integers(0, 9))       # most cases stay small; a few get a long block
        szs = st.sampled_from(sizes if big >= 7 else sizes[:6])
        rop = val.map(lambda v: ["r", v])
        bop = st.tuples(blk, szs, st.integers(0, 2 ** 32)).map(lambda t: ["blk", t[0][0], t[1], t[2], t[0][1], t[0][2]])
        bad = st.sampled_from(["nan", "str", "none", "list", "hugeint", "neghugeint"]).map(lambda w: ["bad", w])
        ci = st.one_of(st.sampled_from(_ALPHAS), st.floats(0.0, 1.0)).map(lambda a: ["ci", _hx(a)])
        qop = st.tuples(st.one_of(st.sampled_from([0.0, 1.0, 3.0, 2.5, -1.0, 90.0]), st.floats(-100, 100)).map(_hx),
                        st.sampled_from(["s", "min", "h", "ms"])).map(lambda t: ["q", t[0], t[1]])
        op = st.one_of(rop, rop, rop, rop, rop, rop, bop, st.just(["init"]), bad, ci, qop)
        ops = draw(st.lists(op, min_size=1, max_size=maxops))
        if draw(st.integers(0, 3)) == 0:
            ops = [draw(bop)] + ops
        return {"variant": variant, "via": via, "cls": cls, "ops": ops}

    return case()


# ---------------------------------------------------------------- exact oracle
class _Exact:
    """Exact power sums of the observations since the last reset; all values scaled by 2^K to integers."""

    def __init__(self, K):
        self.K = K
        self.reset()

    def reset(self):
        self.n = 0
        self.p1 = self.p2 = self.p3 = self.p4 = 0
        self.sabs = 0
        self.mn = self.mx = None          # scaled ints
        self.vmin = self.vmax = None      # original values
        self.amax = 0.0
        self.amin = math.inf              # smallest non-zero magnitude

    def scaled(self, x):
        if isinstance(x, int):
            return x << self.K
        p, q = x.as_integer_ratio()
        return p << (self.K - (q.bit_length() - 1))

    def add(self, x):
        X = self.scaled(x)
        self.n += 1
        X2 = X * X
        self.p1 += X
        self.p2 += X2
        self.p3 += X2 * X
        self.p4 += X2 * X2
        self.sabs += abs(X)
        if self.mn is None or X < self.mn:
            self.mn, self.vmin = X, x
        if self.mx is None or X > self.mx:
            self.mx, self.vmax = X, x
        a = abs(float(x)) if not isinstance(x, int) or abs(x) < 2 ** 1000 else math.inf
        if a > self.amax:
            self.amax = a
        if 0.0 < a < self.amin:
            self.amin = a

    def in_range(self):
        return self.amax <= RANGE_HI and (self.amin == math.inf or self.amin >= RANGE_LO)

    def central(self):
        """(M2, M3, M4) = sums of (x-mu)^k in scaled units, as Fractions."""
        n, p1, p2, p3, p4 = self.n, self.p1, self.p2, self.p3, self.p4
        m2 = Fraction(n * p2 - p1 * p1, n)
        m3 = Fraction(n * n * p3 - 3 * n * p1 * p2 + 2 * p1 ** 3, n * n)
        m4 = Fraction(n ** 3 * p4 - 4 * n * n * p1 * p3 + 6 * n * p1 * p1 * p2 - 3 * p1 ** 4, n ** 3)
        return m2, m3, m4

    def zero_variance(self):
        return self.n >= 1 and self.mn == self.mx


def _common_scale(values):
    K = 0
    for x in values:
        if isinstance(x, float):
            q = x.as_integer_ratio()[1]
            k = q.bit_length() - 1
            if k > K:
                K = k
    return K


def _f(fr):
    """Fraction -> nearest double (inf when too large)."""
    try:
        return float(fr)
    except OverflowError:
        return math.inf if fr > 0 else -math.inf


# ---------------------------------------------------------------- getters
GETTERS = [("n", "n", ()), ("min", "min", ()), ("max", "max", ()), ("sum", "sum", ()), ("mean", "mean", ()),
           ("variance", "variance", (True,)), ("variance_u", "variance", (False,)),
           ("stdev", "stdev", (True,)), ("stdev_u", "stdev", (False,)),
           ("skewness", "skewness", (True,)), ("skewness_u", "skewness", (False,)),
           ("kurtosis", "kurtosis", (True,)), ("kurtosis_u", "kurtosis", (False,)),
           ("excess_kurtosis", "excess_kurtosis", (True,)), ("excess_kurtosis_u", "excess_kurtosis", (False,))]
MIN_N = {"mean": 1, "min": 1, "max": 1, "variance": 1, "variance_u": 2, "stdev": 1, "stdev_u": 2,
         "skewness": 2, "skewness_u": 3, "kurtosis": 3, "kurtosis_u": 4, "excess_kurtosis": 3,
         "excess_kurtosis_u": 4}
STANDARDISED = {"skewness", "skewness_u", "kurtosis", "kurtosis_u", "excess_kurtosis", "excess_kurtosis_u"}
PUBLISHED = {"N_EVENT": "n", "MIN_EVENT": "min", "MAX_EVENT": "max", "SUM_EVENT": "sum", "MEAN_EVENT": "mean",
             "POPULATION_STDEV_EVENT": "stdev", "POPULATION_VARIANCE_EVENT": "variance",
             "POPULATION_SKEWNESS_EVENT": "skewness", "POPULATION_KURTOSIS_EVENT": "kurtosis",
             "POPULATION_EXCESS_K_EVENT": "excess_kurtosis", "SAMPLE_STDEV_EVENT": "stdev_u",
             "SAMPLE_VARIANCE_EVENT": "variance_u", "SAMPLE_SKEWNESS_EVENT": "skewness_u",
             "SAMPLE_KURTOSIS_EVENT": "kurtosis_u", "SAMPLE_EXCESS_K_EVENT": "excess_kurtosis_u"}


def _enc(v):
    if isinstance(v, float):
        return "nan" if v != v else v.hex()
    if isinstance(v, tuple):
        return [_enc(x) for x in v]
    return repr(v)


def _context(orc):
    """Names the region of the input space (for the discrepancy kind of a raising getter)."""
    if orc.n >= 2 and orc.mn == orc.mx:
        return "zero-variance"
    if orc.n >= 2:
        m2 = Fraction(orc.n * orc.p2 - orc.p1 * orc.p1, orc.n * orc.n)      # population variance, scaled
        sc2 = 1 << (2 * orc.K)
        if m2 > sc2 * 10 ** 200:
            return "huge-variance"
        if m2 * 10 ** 200 < sc2:
            return "tiny-variance"
    return "other"


def _call_all(out, stat, orc, alphas, failed_kinds):
    """Call every getter; a raising getter is a totality failure.  Returns {name: value or _RAISED}."""
    got = {}
    for name, meth, args in GETTERS:
        try:
            got[name] = getattr(stat, meth)(*args)
        except Exception as e:                                   # noqa: BLE001 - the property forbids any
            got[name] = _RAISED
            kind = "getter-raises:%s:%s:%s" % (meth, type(e).__name__, _context(orc))
            if kind not in failed_kinds:
                failed_kinds.add(kind)
                out.fail(kind, {"getter": name, "n": orc.n, "error": repr(e)})
    for a in alphas:
        try:
            got[("ci", a)] = stat.confidence_interval(a)
        except Exception as e:                                   # noqa: BLE001
            got[("ci", a)] = _RAISED
            ctx = "alpha-level-1" if (1.0 - a / 2.0 >= 1.0 and orc.n >= 2) else _context(orc)
            kind = "getter-raises:confidence_interval:%s:%s" % (type(e).__name__, ctx)
            if kind not in failed_kinds:
                failed_kinds.add(kind)
                out.fail(kind, {"alpha": a.hex(), "n": orc.n, "error": repr(e)})
    return got


class _Raised:
    def __repr__(self):
        return "<raised>"


_RAISED = _Raised()


def _snapshot(stat, counter):
    snap = []
    if counter:
        names = [("n", "n", ()), ("count", "count", ())]
    else:
        names = GETTERS + [("ci", "confidence_interval", (0.05,))]
    for name, meth, args in names:
        try:
            snap.append((name, _enc(getattr(stat, meth)(*args))))
        except Exception as e:                                   # noqa: BLE001
            snap.append((name, "raises:" + type(e).__name__))
    return snap


def _isnan(v):
    return isinstance(v, float) and v != v


def _check_structure(out, got, orc):
    """n, min, max exactly; NaN where (and, for well-defined small cases, only where) documented."""
    n = orc.n
    if got["n"] is not _RAISED and (got["n"] != n or not isinstance(got["n"], int)):
        out.fail("value:n", {"got": repr(got["n"]), "want": n})
    for name, want in (("min", orc.vmin), ("max", orc.vmax)):
        g = got[name]
        if g is _RAISED:
            continue
        if n == 0:
            if not _isnan(g):
                out.fail("nan-structure:%s:expected-nan" % name, {"got": _enc(g), "n": n})
        elif not (g == want):
            out.fail("value:%s" % name, {"got": _enc(g), "want": _enc(want), "n": n})
    zero = orc.zero_variance()
    for name, minn in MIN_N.items():
        if name in ("min", "max"):
            continue
        g = got[name]
        if g is _RAISED:
            continue
        must_nan = n < minn or (name in STANDARDISED and zero)
        if must_nan and not _isnan(g):
            out.fail("nan-structure:%s:expected-nan" % name,
                     {"got": _enc(g), "n": n, "zero_variance": zero})
        elif not must_nan and _isnan(g) and n >= 2 and not zero and orc.in_range():
            # NaN only where the quantity is undefined - also for data the accuracy comparison skips as
            # ill-conditioned (large offset, small spread), as long as the exact variance is far from under/overflow
            var_s = Fraction(orc.central()[0], n)                       # scaled units
            var = var_s / (1 << (2 * orc.K))
            big = max(abs(orc.mx), abs(orc.mn))
            # (a spread near the rounding unit of the magnitude - sigma < 1e-12 |x| - legitimately computes as zero
            #  variance, e.g. adjacent doubles; there NaN is the documented answer for 'variance zero')
            if Fraction(1, 10 ** 100) <= var <= 10 ** 100 and var_s * 10 ** 24 >= big * big:
                out.fail("nan-structure:%s:unexpected-nan" % name, {"n": n, "exact_variance": float(var)})
    for key, g in got.items():
        if isinstance(key, tuple) and g is not _RAISED:
            if not (isinstance(g, tuple) and len(g) == 2):
                out.fail("value:confidence_interval", {"got": repr(g), "why": "not a pair"})
            elif n < 2 and not (_isnan(g[0]) and _isnan(g[1])):
                out.fail("nan-structure:confidence_interval:expected-nan", {"got": _enc(g), "n": n})
    if n == 0 and got["sum"] is not _RAISED and not (got["sum"] == 0):
        out.fail("value:sum", {"got": _enc(got["sum"]), "want": 0, "n": 0})


def _cmp(out, name, g, want, tol, info):
    """|g - want| <= tol, g must be a finite number; records the calibration ratio."""
    if g is _RAISED:
        return
    if not isinstance(g, (int, float)) or g != g:
        out.fail("nan-structure:%s:unexpected-nan" % name, dict(info, got=_enc(g), want=_enc(want)))
        return
    err = abs(g - want)
    if _CALIB is not None and info.get("unit"):
        r = err / info["unit"]
        if r > _CALIB.get(name, (0.0,))[0]:
            _CALIB[name] = (r, info.get("n"))
    if not err <= tol:
        out.fail("value:%s" % name, dict(info, got=_enc(g), want=_enc(want), err=err, tol=tol))


def _check_values(out, got, orc, lab):
    """Accuracy against the exact definitions.  Returns True when all orders were compared (well-conditioned)."""
    n = orc.n
    if n == 0 or not orc.in_range():
        if n:
            lab.add("accuracy:out-of-range")
        return False
    K = orc.K
    sc = 1 << K
    nf = float(n)
    base = C_TOL * nf * EPS
    # ---- order 0/1
    sum_exact = _f(Fraction(orc.p1, sc))
    unit = nf * EPS * _f(Fraction(orc.sabs, sc))
    _cmp(out, "sum", got["sum"], sum_exact, C_TOL * unit + 4 * 5e-324, {"n": n, "unit": unit})
    mu_s = Fraction(orc.p1, n)
    dev_s = max(abs(orc.mx - mu_s), abs(orc.mn - mu_s))
    S_s = abs(mu_s) + dev_s
    S = _f(S_s / sc)
    mean = _f(mu_s / sc)
    unit1 = nf * EPS * S
    A1 = C_TOL * unit1 + 4 * 5e-324
    _cmp(out, "mean", got["mean"], mean, A1, {"n": n, "unit": unit1})
    # ---- order 2 (absolute form of the bound: C n eps S^2 = C n eps kappa^2 sigma^2)
    M2, M3, M4 = orc.central()
    sc2 = sc * sc
    unit2 = nf * EPS * S * S
    A2 = C_TOL * unit2
    var_p = _f(M2 / (n * sc2))
    _cmp(out, "variance", got["variance"], var_p, A2, {"n": n, "unit": unit2})
    sd_p = math.sqrt(var_p)
    _cmp(out, "stdev", got["stdev"], sd_p, _sqrt_tol(A2, sd_p), {"n": n})
    var_s = None
    if n >= 2:
        f = nf / (nf - 1.0)
        var_s = _f(M2 / ((n - 1) * sc2))
        _cmp(out, "variance_u", got["variance_u"], var_s, A2 * f, {"n": n, "unit": unit2 * f})
        _cmp(out, "stdev_u", got["stdev_u"], math.sqrt(var_s), _sqrt_tol(A2 * f, math.sqrt(var_s)), {"n": n})
    # ---- confidence intervals
    for key, g in got.items():
        if not isinstance(key, tuple) or g is _RAISED or n < 2:
            continue
        if not (isinstance(g, tuple) and len(g) == 2):
            continue
        a = key[1]
        lo, hi = g
        vmin, vmax = float(orc.vmin), float(orc.vmax)
        if a == 0.0 and not (_isnan(lo) or _isnan(hi)) and (lo != vmin or hi != vmax):
            # alpha = 0 is the 100% interval: the quantile is infinite, only minimum and maximum limit it
            out.fail("value:confidence_interval:alpha-zero", {"got": _enc(g), "min": _enc(vmin), "max": _enc(vmax)})
            continue
        if 1.0 - a / 2.0 >= 1.0 or a < 1e-6:
            # quantile not representable through inv_cdf(1 - alpha/2): envelope only
            for side, v, ok in (("lo", lo, lambda v: vmin <= v <= mean + A1),
                                ("hi", hi, lambda v: mean - A1 <= v <= vmax)):
                if not (_isnan(v) or ok(v)):
                    out.fail("value:confidence_interval:envelope",
                             {"alpha": a.hex(), "side": side, "got": _enc(g), "min": _enc(vmin),
                              "max": _enc(vmax), "mean": _enc(mean)})
            continue
        z = NormalDist(0.0, 1.0).inv_cdf(1.0 - a / 2.0)
        se = math.sqrt(_f(M2 / ((n - 1) * n * sc2)))
        half = z * se
        tol = A1 + z * _sqrt_tol(A2 * nf / (nf - 1.0) / nf, se) + 1e-9 * half + 4 * 5e-324
        wlo = max(vmin, mean - half)
        whi = min(vmax, mean + half)
        _cmp(out, "confidence_interval", lo, wlo, tol, {"n": n, "alpha": a.hex(), "side": "lo"})
        _cmp(out, "confidence_interval", hi, whi, tol, {"n": n, "alpha": a.hex(), "side": "hi"})
    # ---- standardised moments
    if M2 == 0:
        return False
    kappa2 = _kappa2(S_s, M2, n)
    kappa = math.sqrt(kappa2)
    t2 = base * kappa2
    t3 = base * kappa2 * kappa
    t4 = base * kappa2 * kappa2
    if t2 > ILL:
        lab.add("illcond:2")
    well = True
    if n >= 2:
        if t3 > ILL:
            lab.add("illcond:3")
            well = False
        else:
            sk2 = _f(n * M3 * M3 / (M2 ** 3))
            sk = math.copysign(math.sqrt(sk2), 1 if M3 >= 0 else -1)
            u3 = nf * EPS * kappa2 * kappa * max(1.0, abs(sk))
            _cmp(out, "skewness", got["skewness"], sk, C_TOL * u3, {"n": n, "unit": u3, "kappa": kappa})
            if n >= 3:
                fu = math.sqrt(nf * (nf - 1.0)) / (nf - 2.0)
                _cmp(out, "skewness_u", got["skewness_u"], sk * fu, C_TOL * u3 * fu,
                     {"n": n, "unit": u3 * fu, "kappa": kappa})
    if n >= 3:
        if t4 > ILL:
            lab.add("illcond:4")
            well = False
        else:
            kb = n * M4 / (M2 * M2)
            kbf = _f(kb)
            u4 = nf * EPS * kappa2 * kappa2 * kbf
            _cmp(out, "kurtosis", got["kurtosis"], kbf, C_TOL * u4, {"n": n, "unit": u4, "kappa": kappa})
            _cmp(out, "excess_kurtosis", got["excess_kurtosis"], _f(kb - 3), C_TOL * u4 + 8 * EPS,
                 {"n": n, "unit": u4, "kappa": kappa})
            if n >= 4:
                ku = (n - 1) * M4 / (M2 * M2)
                kuf = _f(ku)
                u4u = nf * EPS * kappa2 * kappa2 * kuf
                _cmp(out, "kurtosis_u", got["kurtosis_u"], kuf, C_TOL * u4u,
                     {"n": n, "unit": u4u, "kappa": kappa})
                amp = Fraction((n - 1) * (n + 1), (n - 2) * (n - 3))
                eu = Fraction(n - 1, (n - 2) * (n - 3)) * ((n + 1) * (kb - 3) + 6)
                u4e = u4 * float(amp)
                _cmp(out, "excess_kurtosis_u", got["excess_kurtosis_u"], _f(eu),
                     C_TOL * u4e + 8 * EPS * (abs(_f(eu)) + 8.0), {"n": n, "unit": u4e, "kappa": kappa})
    return well and n >= 4


def _kappa2(S_s, M2, n):
    if M2 == 0:
        return math.inf
    return _f(S_s * S_s * n / M2)


def _sqrt_tol(a2, sd):
    """|sqrt(v') - sqrt(v)| <= min(sqrt(|v'-v|), |v'-v| / sqrt(v))  (+ rounding of the square root)."""
    t = math.sqrt(a2)
    if sd > 0:
        t = min(t, a2 / sd)
    return t + 4 * EPS * sd + 5e-324


# ---------------------------------------------------------------- interpreter
_QUNITS = {"s": 1.0, "min": 60.0, "h": 3600.0, "ms": 0.001}


def _qsi(op):
    """SI value of a ["q", value, unit] observation (a Duration): value * factor, as pydsol computes it"""
    return _dec(op[1]) * _QUNITS[op[2]]


def _all_values(case):
    vals = []
    for op in case["ops"]:
        if op[0] == "q":
            vals.append(_qsi(op))
            continue
        if op[0] == "r":
            vals.append(_dec(op[1]))
        elif op[0] == "blk":
            vals.extend(_expand(op[1], op[2], op[3], _dec(op[4]), _dec(op[5])))
    return vals


def _bad_value(what):
    return {"nan": math.nan, "str": "1.0", "none": None, "list": [1.0], "float": 1.0,
            "hugeint": 10 ** 400, "neghugeint": -(10 ** 310)}[what]       # ints beyond the float range


def run_case(case):
    from pydsol.core.interfaces import StatEvents
    from pydsol.core.pubsub import Event, EventListener
    from pydsol.core.statistics import Counter, EventBasedCounter, EventBasedTally, Tally

    class Rec(EventListener):
        def __init__(self):
            self.events = []

        def notify(self, event):
            self.events.append((event.event_type.name, event.content))
            if self.raise_on == event.event_type.name:
                self.raise_on = None
                raise RuntimeError("a subscriber of the statistic fails once")
            if event.event_type.name == "INITIALIZED_EVENT":
                # the statistic announces that it has been reset: at this moment it reports no observations
                st_ = event.content
                try:
                    self.at_init.append((st_.n(), st_.count() if hasattr(st_, "count") else None))
                except Exception as e:                            # noqa: BLE001
                    self.at_init.append(("raises", type(e).__name__))

        at_init = []
        raise_on = None

    out = Outcome()
    Rec.at_init = []
    variant, via = case["variant"], case.get("via", "register")
    counter = "counter" in variant
    out.label("variant=" + variant, "class=" + str(case.get("cls")))
    rec = None
    if variant == "tally":
        stat = Tally("t")
    elif variant == "counter":
        stat = Counter("c")
    elif variant in ("eb_sim", "eb_counter_sim"):
        from pydsol.core.simulator import DEVSSimulatorFloat
        from pydsol.core.statistics import SimCounter, SimTally
        sim_ = DEVSSimulatorFloat("c09-sim")
        stat = SimCounter("c", "counter", sim_) if counter else SimTally("t", "tally", sim_)
    elif counter:
        stat = EventBasedCounter("c")
    else:
        stat = EventBasedTally("t")
    event_based = variant.startswith("eb")
    if event_based:
        out.label("via=" + via)
    if variant in ("eb_sub", "eb_counter_sub"):
        rec = Rec()
        for tname in list(PUBLISHED) + ["OBSERVATION_ADDED_EVENT", "COUNT_EVENT", "INITIALIZED_EVENT"]:
            stat.add_listener(getattr(StatEvents, tname), rec)
    elif variant == "eb_sub1":
        rec = Rec()
        stat.add_listener(StatEvents.N_EVENT, rec)
    elif variant in ("eb_sim", "eb_counter_sim") and digest(case)[0] % 2 == 0:
        # the simulation statistics publish (timed) events of the same types with the same contents
        rec = Rec()
        for tname in list(PUBLISHED) + ["OBSERVATION_ADDED_EVENT", "COUNT_EVENT", "INITIALIZED_EVENT"]:
            stat.add_listener(getattr(StatEvents, tname), rec)
        out.label("sim-statistic-with-subscriber")
    full_sub = rec is not None and variant != "eb_sub1"

    prod = None
    if event_based and via == "producer":
        from pydsol.core.pubsub import EventProducer
        prod = EventProducer()

        class OneShot(EventListener):
            """another listener of the same data event that unsubscribes itself when it is notified"""

            def notify(self, event):
                prod.remove_listener(StatEvents.DATA_EVENT, self)

    def feed(x):
        if prod is not None:
            # the statistic listens to a producer (subscribed twice: the repeated subscription is ignored), behind a
            # self-removing listener; the observation is fired by the producer
            prod.remove_all_listeners()
            prod.add_listener(StatEvents.DATA_EVENT, OneShot())
            prod.add_listener(StatEvents.DATA_EVENT, stat)
            prod.add_listener(StatEvents.DATA_EVENT, stat)
            prod.fire(StatEvents.DATA_EVENT, x)
        elif event_based and via == "notify":
            stat.notify(Event(StatEvents.DATA_EVENT, x))
        else:
            stat.register(x)

    if counter:
        return _run_counter(out, case, stat, rec, feed, full_sub)

    orc = _Exact(_common_scale(_all_values(case)))
    failed = set()
    lab = set()
    obs_since_init = 0
    init_between = False
    pending_init = False
    nontrivial = False
    compared = 0
    nmax = 0

    def observe(x, compare, fed=False):
        nonlocal obs_since_init, init_between, pending_init, nontrivial, compared, nmax
        if rec is not None and not fed:
            del rec.events[:]
        orc.add(x)
        nmax = max(nmax, orc.n)
        try:
            if not fed:
                feed(x)
        except Exception as e:                                    # noqa: BLE001
            kind = "register-raises:%s:%s" % (type(e).__name__, _context(orc))
            if kind not in failed:
                failed.add(kind)
                out.fail(kind, {"n": orc.n, "value": _enc(x), "error": repr(e)})
        obs_since_init += 1
        if pending_init:
            init_between = True
            pending_init = False
        got = _call_all(out, stat, orc, ALPHAS_SWEEP if compare else ALPHAS_SWEEP[:1], failed)
        if rec is not None and full_sub:
            _check_published(out, rec.events, got, x, via)
        _check_structure(out, got, orc)
        if compare:
            compared += 1
            if _check_values(out, got, orc, lab):
                nontrivial = True
            if orc.n >= 2 and orc.zero_variance():
                nontrivial = True
                lab.add("equal-data")

    for op in case["ops"]:
        name = op[0]
        if name == "q":
            # a quantity (a float subclass) as observation: either it is registered with its SI value (what the
            # event-publishing tally does) or it is rejected - and then nothing may have changed
            from pydsol.core.units import Duration
            q = Duration(_dec(op[1]), op[2])
            si = float.__float__(q)
            if not math.isfinite(si) or si != _qsi(op):
                continue
            before = _snapshot(stat, False)
            if rec is not None:
                del rec.events[:]
            try:
                feed(q)
                accepted = True
            except Exception as e:                                # noqa: BLE001
                accepted = False
                if _snapshot(stat, False) != before:
                    out.fail("reject:state-changed", {"input": repr(q), "error": repr(e), "before": before,
                                                      "after": _snapshot(stat, False)})
                lab.add("quantity-observation-rejected")
            if accepted:
                lab.add("quantity-observation-accepted")
                observe(si, True, fed=True)
        elif name == "r":
            x = _dec(op[1])
            if _finite(x):
                observe(x, True)
        elif name == "blk":
            xs = _expand(op[1], op[2], op[3], _dec(op[4]), _dec(op[5]))
            m = len(xs)
            for i, x in enumerate(xs):
                if _finite(x):
                    observe(x, i + 1 == m or i < 4 or (i & (i + 1)) == 0)
        elif name == "init":
            try:
                stat.initialize()
            except Exception as e:                                # noqa: BLE001
                out.fail("initialize-raises:" + type(e).__name__, repr(e))
            if rec is not None and any(x[0] != 0 or x[1] not in (None, 0) for x in rec.at_init):
                out.fail("publish:initialized-event-before-reset", {"n_and_count_seen_by_listener": rec.at_init[-3:]})
            if orc.n > 0:
                pending_init = True
            orc.reset()
            got = _call_all(out, stat, orc, ALPHAS_SWEEP, failed)
            _check_structure(out, got, orc)
            lab.add("initialize")
        elif name == "bad":
            bad = _bad_value(op[1] if op[1] != "float" else "nan")
            before = _snapshot(stat, False)
            want = ValueError if isinstance(bad, float) else TypeError
            if isinstance(bad, int):
                # an int that no float can hold cannot be registered; which error reports it is not documented
                want = (ValueError, TypeError, OverflowError)
            try:
                feed(bad)
                out.fail("reject:accepted", {"input": repr(bad)[:40], "n": orc.n})
            except want:
                pass
            except Exception as e:                                # noqa: BLE001
                out.fail("reject:wrong-exception", {"input": repr(bad)[:40], "error": repr(e), "want": str(want)})
            after = _snapshot(stat, False)
            if before != after:
                out.fail("reject:state-changed", {"input": repr(bad)[:40], "before": before, "after": after})
            lab.add("rejected-input")
        elif name == "ci":
            a = _dec(op[1])
            if isinstance(a, float) and 0.0 <= a <= 1.0:
                got = _call_all(out, stat, orc, [a], failed)
                _check_structure(out, got, orc)
                _check_values(out, got, orc, lab)
                lab.add("ci:level-1" if 1.0 - a / 2.0 >= 1.0 else "ci:alpha")
        if any(not d["kind"].startswith(("getter-raises", "register-raises")) for d in out.disc):
            break

    if not out.disc and variant in ("tally", "eb", "eb_sub", "eb_sub1"):
        _second_use(out, stat, type(stat), case)
    for lb in lab:
        out.label(lb)
    if init_between:
        out.label("initialize-between-observations")
        nontrivial = True
    if nontrivial and compared:
        out.nontrivial = True
    out.label("n:" + next(lb for b, lb in ((0, "0"), (1, "1"), (3, "2-3"), (10, "4-10"), (50, "11-50"),
                                           (300, "51-300"), (10 ** 9, ">300")) if nmax <= b))
    out.info = {"final_n": orc.n, "compared_states": compared}
    return out


def _second_use(out, stat, cls, case):
    """The tally of this case is used for two more observation periods of equal length (initialize() in between) and
    after each period ONE query is made - one result per replication.  The answer is the one a fresh tally gives for
    the same observations (same arithmetic, so identical)."""
    from vlib.runner import digest
    h = digest(case)
    queries = list(GETTERS) + [("confidence_interval", "confidence_interval", (0.05,))]
    name, meth, args = queries[h[2] % len(queries)]
    k = 2 + h[3] % 6
    seed = int.from_bytes(h[4:8], "big")
    for period in (0, 1):
        fresh = cls("fresh")
        try:
            stat.initialize()
            for i in range(k):
                z = (seed + (2 * i + period + 1) * 0x9E3779B97F4A7C15) & 0xFFFFFFFFFFFFFFFF
                x = float((z >> 20) % 1000) / 8.0 - 50.0
                stat.register(x)
                fresh.register(x)
            got, want = getattr(stat, meth)(*args), getattr(fresh, meth)(*args)
        except Exception as e:                                    # noqa: BLE001
            out.fail("second-use-raises:" + type(e).__name__, {"period": period, "getter": name, "error": repr(e)})
            return
        if _enc_any(got) != _enc_any(want):
            out.fail("second-use-differs:" + name, {"period": period, "observations": k, "got": _enc_any(got),
                                                    "fresh_statistic": _enc_any(want)})
            return
    out.label("second-use-single-query:" + name)


def _enc_any(v):
    if isinstance(v, (tuple, list)):
        return [_enc_any(x) for x in v]
    if isinstance(v, float):
        return "nan" if v != v else v.hex()
    return repr(v)


def _plain(c):
    """the float value of a float subclass (a quantity handed in as observation may be published as it came)"""
    return float.__float__(c) if isinstance(c, float) and type(c) is not float else c


def _check_published(out, events, got, x, via):
    seen = {}
    for tname, content in events:
        seen[tname] = content
    if "OBSERVATION_ADDED_EVENT" in seen:
        c = seen["OBSERVATION_ADDED_EVENT"]
        if not (_plain(c) == x):
            out.fail("publish:observation", {"got": _enc(c), "want": _enc(x)})
    for tname, gname in PUBLISHED.items():
        g = got.get(gname)
        if g is _RAISED:
            continue
        if tname not in seen:
            # a getter that raised inside register() cut the sequence short: that is reported as register-raises
            if not any(d["kind"].startswith("register-raises") for d in out.disc):
                out.fail("publish:missing:" + tname, {"seen": sorted(seen)})
            continue
        if _enc(seen[tname]) != _enc(g):
            out.fail("publish:differs:" + tname, {"published": _enc(seen[tname]), "getter": _enc(g)})


def _run_counter(out, case, stat, rec, feed, full_sub=False):
    n = 0
    count = 0
    since = 0
    marker = False
    nontrivial = False

    def check(where):
        try:
            gn, gc = stat.n(), stat.count()
        except Exception as e:                                    # noqa: BLE001
            out.fail("getter-raises:counter:" + type(e).__name__, repr(e))
            return
        if gn != n or not isinstance(gn, int) or isinstance(gn, bool):
            out.fail("value:counter-n", {"got": repr(gn), "want": n, "after": where})
        if gc != count or not isinstance(gc, int) or isinstance(gc, bool):
            out.fail("value:counter-count", {"got": repr(gc), "want": count, "after": where})

    def observe(x):
        nonlocal n, count, since, marker, nontrivial
        if rec is not None:
            del rec.events[:]
        if rec is not None and full_sub and n == 2 and not marker:
            # a subscriber of the counter fails once while the third observation is published: the observation is
            # registered all the same, and later observations are published again
            rec.raise_on = "N_EVENT"
            try:
                feed(x)
            except RuntimeError:
                pass
            except Exception as e:                                # noqa: BLE001
                out.fail("register-raises:counter:" + type(e).__name__, {"value": repr(x), "error": repr(e)})
                return
            rec.raise_on = None
            n += 1
            count += x
            since += 1
            out.label("subscriber-failed-once")
            check("register while a subscriber failed")
            return
        try:
            feed(x)
        except Exception as e:                                    # noqa: BLE001
            out.fail("register-raises:counter:" + type(e).__name__, {"value": repr(x), "error": repr(e)})
            return
        n += 1
        count += x
        since += 1
        if marker and n >= 1:
            nontrivial = True
        if rec is not None and full_sub:
            seen = dict(rec.events)
            want = {"OBSERVATION_ADDED_EVENT": x, "N_EVENT": n, "COUNT_EVENT": count}
            for k, v in want.items():
                if k not in seen:
                    out.fail("publish:missing:" + k, {"seen": sorted(seen)})
                elif seen[k] != v or isinstance(seen[k], float):
                    out.fail("publish:differs:" + k, {"published": repr(seen[k]), "want": v})
        check("register")

    total = 0
    for op in case["ops"]:
        name = op[0]
        if name == "r" and isinstance(op[1], int) and not isinstance(op[1], bool):
            observe(op[1])
            total += 1
        elif name == "blk":
            for x in _expand("int", op[2], op[3], _dec(op[4]), _dec(op[5])):
                observe(x)
                total += 1
        elif name == "init":
            try:
                stat.initialize()
            except Exception as e:                                # noqa: BLE001
                out.fail("initialize-raises:" + type(e).__name__, repr(e))
            if rec is not None and any(x[0] != 0 or x[1] not in (None, 0) for x in rec.at_init):
                out.fail("publish:initialized-event-before-reset", {"n_and_count_seen_by_listener": rec.at_init[-3:]})
            if total:
                marker = True
            n = count = 0
            check("initialize")
            out.label("initialize")
        elif name == "bad" or name == "r":
            bad = _dec(op[1]) if name == "r" else _bad_value(op[1])
            before = _snapshot(stat, True)
            try:
                feed(bad)
                out.fail("reject:accepted", {"input": repr(bad)})
            except TypeError:
                pass
            except Exception as e:                                # noqa: BLE001
                out.fail("reject:wrong-exception", {"input": repr(bad), "error": repr(e), "want": "TypeError"})
            if _snapshot(stat, True) != before:
                out.fail("reject:state-changed", {"input": repr(bad)})
            check("rejected input")
            if total:
                marker = True
            out.label("rejected-input")
        if out.disc:
            break
    out.nontrivial = nontrivial and total >= 2
    out.info = {"increments": total}
    return out


RULE = RULE + " " + 'Later additions: subscribers on SimCounter / SimTally; second use - two further periods of equal length with ONE query per period, compared with a fresh tally.'
