"""C14 - draws are a pure function of parameters and stream output, within the support.

Case (JSON):
  {"cls": "DistGamma",
   "params": {"shape": <v>, "scale": <v>},     values: int -> int, float -> float.hex() string,
                                                wrong types -> ["str", "x"] | ["none"] | ["list"] | ["complex"]
   "bad_stream": false,                         true: the stream argument is not a StreamInterface
   "scen": "twin" | "interleave" | "repoint" | "replay" | "wrapper",
   "stream": {"k": "mt", "seed": 5} | {"k": "scr", "prefix": [hex, ...], "tail": 3},
   "n": 7,                                      number of draws of the instance under test
   "other": null | "same" | {"cls":..., "params":...},   second instance of the interleaving
   "ostream": <stream spec>,                    stream of the second instance
   "pattern": [0, 1, 1, 0, ...],                interleaving order (0 = instance under test)
   "segments": [[<stream spec> | "same", n], ...],       re-pointing targets after the first n draws
   "wrapper": [i, j]}                           i-th QuantityDist subclass (sorted by name, modulo),
                                                j-th unit of its quantity (modulo); i = -1: SIDist
Whether a parameter set is inside the documented domain is decided here from the docstrings
(`classify`), so the strategy may produce anything: an invalid set turns the case into a
"must be rejected at construction" case, whatever the scenario says.

Discrepancy kinds (known findings are matched on them with fnmatch patterns):
  draw-raises:<Class>:<ExcType>:<input>[:<site>][:xparam]
      <input>  the most extreme class of uniform the failing draw() call received (for the polar
               method of the normal family: its last pair), in this order of precedence
               p-boundary  Geometric / NegBinomial whose 1 - p is 0.0 or rounds to 1.0 (p = 1, p = 0,
                           0 < p < 2**-53), unless it is the log(0.0) of the u0 family
               u0          a uniform of exactly 0.0          (MersenneTwister can deliver it)
               subnormal   a uniform 0 < u < 2**-1022        (MersenneTwister cannot)
               tiny        a uniform 2**-1022 <= u < 2**-53  (MersenneTwister cannot)
               half-half   two consecutive uniforms of exactly 0.5 (MersenneTwister can)
               offgrid     a uniform that is not a multiple of 2**-53 (MersenneTwister cannot)
               mt-grid     only multiples k * 2**-53, k >= 1: anything MersenneTwister delivers
      <site>   "outside-interval" for DistNormalTrunc's own 'drawn value ... outside of interval'
      xparam   the parameters are in the region where the exact result leaves the double range
               (a gamma shape < 0.05 in Gamma/Pearson5/Pearson6, both shapes < 0.05 in Beta, Weibull alpha < 0.01,
               LogNormal mu + 13 sigma > 700)
  construct-raises:<Class>:<ExcType>:(p-boundary|valid-params)   documented-valid set refused
  invalid-params-accepted:<Class>:<param>:<reason>                undocumented set accepted
  invalid-params-wrong-exception:<Class>:<ExcType>:<param>:<reason>
  support:<Class>:<what>       twin-differs:<Class>    interleave-differs:<Class>[:other]
  repoint-differs:<Class>      repoint-old-stream-consumed:<Class>   repoint-stream-property:<Class>
  repoint-new-stream-unused:<Class>   repoint-raises:<Class>:<ExcType>
  replay-differs:<Class>       replay-call-mismatch:<Class>          wrapper-differs:<Wrapper>:<what>
"""
import math

from hypothesis import strategies as st

from vlib.runner import Inconclusive, Outcome

ID = "C14"
RULE = ("Hypothesis cases: one of the 19 concrete Distribution classes (checked against introspection of "
        "pydsol.core.distributions) x parameters log-uniform in 1e-3..1e3 / ints <= 500 with every documented "
        "boundary (p = 0, p = 1, mode = lo, mode = hi, one-/two-sided/zero-bounded truncation) x a seeded "
        "MersenneTwister or a scripted stream (finite prefix of extreme and arbitrary uniforms in [0,1), then a "
        "seeded tail, hard budget) x scenario twin / interleave / repoint (chains, also back to the same stream) / "
        "replay of the recorded stream output / quantity wrapper; 1 in 8 cases carries an invalid parameter set "
        "(wrong type, <= 0, outside [0,1], lo >= hi, mode outside, too improbable truncation, bad stream). "
        "Enumerated sub-domain: every class x boundary parameter sets x every extreme uniform at the 1st/2nd/3rd "
        "position and doubled; every (class, parameter, invalid alternative); every QuantityDist subclass x every "
        "unit; re-pointing after 1, 2, 3 draws and alternating interleaving for every class. "
        "Oracle: differential/metamorphic (fresh instance on an equally seeded stream must give bit-identical "
        "draws and consumption), frozen-stream counters, support predicates from the docstrings, documented "
        "exception types. Non-trivial = a scripted case in which a draw of the instance under test received an "
        "extreme uniform (0.0, < 2**-53, 0.5, >= 1-2**-52), or a re-pointing of a normal-family instance after an "
        "odd number of draws, or a re-pointing / interleaving case with >= 5 draws in which the stream was "
        "switched / both instances drew at least twice; distinct = distinct case digests.")
ASSUMPTIONS = [
    "parameters are finite, no NaN (except the documented infinite bounds of DistNormalTrunc and any DistConstant "
    "value); magnitudes 1e-3..1e3, integer parameters <= 500",
    "bool is not used as a parameter value (it is an int for isinstance)",
    "+inf is accepted as a draw of the non-negative families and of a one-sided DistNormalTrunc (closure of the "
    "support); 0.0 is accepted for them (the statement says non-negative or positive); NaN never is",
    "DistBernoulli/DistBinomial with p = 0 may return a success when the uniform is exactly 0.0 (code tests "
    "u <= p): only the range 0..n is asserted",
    "DistGeometric/DistNegBinomial with p = 0 (no finite draw exists): rejection with ValueError at construction "
    "is accepted as well as a usable instance",
    "DistNormalTrunc sets whose interval probability lies in (1e-7, 1e-5) may be accepted or rejected",
    "DistConstant may return the int it was given",
    "two distributions sharing one stream object are out of scope (their draws legitimately interleave)",
    "the scripted stream implements next_int as lo + floor((hi-lo+1)*u) like MersenneTwister",
]
NONTRIVIAL_FLOOR = 0.05
EXHAUSTIVE_NOTE = ("every class x boundary parameter sets x 21 extreme uniforms x 4 positions; every "
                   "(class, parameter, invalid alternative); every QuantityDist subclass x unit; "
                   "re-pointing after 1..3 draws and alternating interleaving per class")
LEVEL_TEXT = "exploration"
TECHNIQUE = "property-based testing (Hypothesis) with scripted StreamInterface implementations + enumeration"


def budget(tier):
    if tier == "quick":
        return {"examples": 16 * 1200, "shards": 16}
    return {"examples": 16 * 40000, "shards": 16}


# ------------------------------------------------------------------ documented domains
# kinds: pos = float or int > 0; real = float or int; prob = float in [0, 1]; cnt = int >= 1; int = int
SPECS = {
    "DistBernoulli": [("p", "prob")],
    "DistBeta": [("alpha1", "pos"), ("alpha2", "pos")],
    "DistBinomial": [("n", "cnt"), ("p", "prob")],
    "DistConstant": [("constant", "real")],
    "DistDiscreteUniform": [("lo", "int"), ("hi", "int")],
    "DistErlang": [("scale", "pos"), ("k", "cnt")],
    "DistExponential": [("mean", "pos")],
    "DistGamma": [("shape", "pos"), ("scale", "pos")],
    "DistGeometric": [("p", "prob")],
    "DistLogNormal": [("mu", "real"), ("sigma", "pos")],
    "DistNegBinomial": [("s", "cnt"), ("p", "prob")],
    "DistNormal": [("mu", "real"), ("sigma", "pos")],
    "DistNormalTrunc": [("mu", "real"), ("sigma", "pos"), ("lo", "real"), ("hi", "real")],
    "DistPearson5": [("alpha", "pos"), ("beta", "pos")],
    "DistPearson6": [("alpha1", "pos"), ("alpha2", "pos"), ("beta", "pos")],
    "DistPoisson": [("rate", "pos")],
    "DistTriangular": [("lo", "real"), ("mode", "real"), ("hi", "real")],
    "DistUniform": [("lo", "real"), ("hi", "real")],
    "DistWeibull": [("alpha", "pos"), ("beta", "pos")],
}
CLASSES = sorted(SPECS)
NORMAL_FAMILY = ("DistNormal", "DistLogNormal")
DISCRETE = ("DistBernoulli", "DistBinomial", "DistDiscreteUniform", "DistGeometric", "DistNegBinomial",
            "DistPoisson")
NONNEG = ("DistErlang", "DistExponential", "DistGamma", "DistWeibull", "DistPearson5", "DistPearson6",
          "DistLogNormal")

TWO53 = 2.0 ** 53
MIN_NORMAL = 2.0 ** -1022
EXTREMES = [0.0, 5e-324, 1.5e-323, MIN_NORMAL, 1e-300, 1e-200, 1e-17, 2.0 ** -53, 2.0 ** -52, 0.25,
            0.5 - 2.0 ** -54, 0.5, 0.5 + 2.0 ** -53, 0.75, 1.0 - 2.0 ** -52, 1.0 - 2.0 ** -53, 0.6321205588285577,
            0.2, 0.9, 6e-17, 1e-16]        # (0.2, 0.9: no short binary fraction; 6e-17, 1e-16: no multiple of 2**-53)


def _hx(x):
    return float(x).hex()


def _enc(v):
    """python value -> case encoding"""
    if isinstance(v, float):
        return v.hex()
    return v


def _dec(v):
    """case encoding -> python value"""
    if isinstance(v, str):
        return float.fromhex(v)
    if isinstance(v, list):
        tag = v[0]
        if tag == "str":
            return v[1]
        if tag == "none":
            return None
        if tag == "list":
            return [1.0]
        if tag == "complex":
            return complex(1.0, 1.0)
        raise ValueError("bad encoded value %r" % (v,))
    return v


def _is_num(v):
    return isinstance(v, (int, float)) and not isinstance(v, bool)


def _type_ok(kind, v):
    if isinstance(v, bool):
        return False
    if kind in ("pos", "real"):
        return isinstance(v, (int, float))
    if kind == "prob":
        return isinstance(v, float)
    return isinstance(v, int)


def _phi(z):
    return 0.5 + 0.5 * math.erf(z / math.sqrt(2.0))


def classify(cname, p, bad_stream=False):
    """(verdict, param, reason); verdict: valid | type | value | mixed | either.
    Straight from the 'Raises' sections of the constructors' docstrings."""
    type_bad = []
    value_bad = []
    if bad_stream:
        type_bad.append(("stream", "not-a-stream"))
    ok = {}
    for name, kind in SPECS[cname]:
        v = p.get(name)
        if not _type_ok(kind, v):
            type_bad.append((name, "type-" + type(v).__name__))
            ok[name] = False
            continue
        ok[name] = True
        if isinstance(v, float) and v != v and kind in ("pos", "prob"):
            # NaN satisfies none of the documented conditions (mean > 0, 0 <= p <= 1): outside the domain.
            # (parameters without a documented condition - mu, constant - are not judged)
            value_bad.append((name, "nan"))
        elif kind == "pos" and not v > 0:
            value_bad.append((name, "not-positive"))
        elif kind == "prob" and not 0 <= v <= 1:
            value_bad.append((name, "outside-0-1"))
        elif kind == "cnt" and not v >= 1:
            value_bad.append((name, "not-positive"))
    either = False
    if cname in ("DistDiscreteUniform", "DistUniform") and ok["lo"] and ok["hi"]:
        if not p["lo"] < p["hi"]:
            value_bad.append(("hi", "lo>=hi"))
    if cname == "DistTriangular" and ok["lo"] and ok["mode"] and ok["hi"]:
        if p["mode"] < p["lo"]:
            value_bad.append(("mode", "mode<lo"))
        elif p["mode"] > p["hi"]:
            value_bad.append(("mode", "mode>hi"))
        elif p["lo"] == p["hi"]:
            value_bad.append(("hi", "lo==hi"))
    if cname == "DistNormalTrunc" and all(ok.values()):
        if not p["lo"] < p["hi"]:
            value_bad.append(("hi", "lo>=hi"))
        elif p["sigma"] > 0:
            prob = _phi((p["hi"] - p["mu"]) / p["sigma"]) - _phi((p["lo"] - p["mu"]) / p["sigma"])
            if prob <= 1e-7:
                value_bad.append(("hi", "improbable-interval"))
            elif prob < 1e-5:
                either = True
    if type_bad and value_bad:
        return ("mixed",) + type_bad[0]
    if type_bad:
        return ("type",) + type_bad[0]
    if value_bad:
        return ("value",) + value_bad[0]
    if either:
        return ("either", "hi", "borderline-interval")
    return ("valid", None, None)


def _xparam(cname, p):
    """parameter region where the exact result may leave the double range (see module docstring)"""
    if cname == "DistGamma":
        return p["shape"] < 0.05
    if cname == "DistBeta":
        # y1 / (y1 + y2): only when BOTH helper gamma draws underflow there is no quotient (one tiny shape gives 0 or 1)
        return max(p["alpha1"], p["alpha2"]) < 0.05
    if cname == "DistPearson6":
        return min(p["alpha1"], p["alpha2"]) < 0.05
    if cname == "DistPearson5":
        return p["alpha"] < 0.05
    if cname == "DistWeibull":
        return p["alpha"] < 0.01
    if cname == "DistLogNormal":
        return p["mu"] + 13.0 * p["sigma"] > 700.0
    return False


def _p_boundary(cname, p):
    """Geometric / NegBinomial: 1 - p is 0.0 or rounds to 1.0 (p = 1, p = 0, 0 < p < 2**-53)"""
    q = p.get("p")
    return cname in ("DistGeometric", "DistNegBinomial") and isinstance(q, float) and (1.0 - q) in (0.0, 1.0)


def _is_extreme(u):
    return u == 0.0 or u < 2.0 ** -53 or u == 0.5 or u >= 1.0 - 2.0 ** -52


def _input_predicate(us):
    """the most extreme class of uniform among those handed to the failing draw() call"""
    if any(u == 0.0 for u in us):
        return "u0"
    if any(0.0 < u < MIN_NORMAL for u in us):
        return "subnormal"
    if any(u < 2.0 ** -53 for u in us):
        return "tiny"
    if any(us[i] == 0.5 and us[i + 1] == 0.5 for i in range(len(us) - 1)):
        return "half-half"
    if any((u * TWO53) != math.floor(u * TWO53) for u in us):
        return "offgrid"
    return "mt-grid"


def _bits(x):
    """bit-exact, type-aware rendering of a draw"""
    if isinstance(x, float):
        return "nan" if x != x else float(x).hex()
    return repr(x)


# ------------------------------------------------------------------ the interpreter
class _Ctx:
    """one instance specification inside a case"""

    def __init__(self, out, cname, params):
        self.out = out
        self.cname = cname
        self.p = params
        self.kw = dict(params)
        self.seen = set()
        self.pb = _p_boundary(cname, params)
        self.xp = _xparam(cname, params) if all(_is_num(v) for v in params.values()) else False
        self.extreme_delivered = False
        self.either = False     # borderline set: rejection with ValueError is as good as acceptance

    def fail(self, kind, detail=None):
        if kind not in self.seen:
            self.seen.add(kind)
            self.out.fail(kind, detail)

    def make(self, stream):
        import pydsol.core.distributions as D
        return getattr(D, self.cname)(stream, **self.kw)

    def make_valid(self, stream):
        """construct an instance of a documented-valid set; None when it cannot be built"""
        try:
            return self.make(stream)
        except Inconclusive:
            raise
        except Exception as e:      # noqa: BLE001 - anything the constructor raises is the finding
            if self.pb and self.p["p"] == 0.0 and isinstance(e, ValueError):
                self.out.label("p0-rejected")
                return None
            if self.either and isinstance(e, ValueError):
                self.out.label("borderline-rejected")
                return None
            pred = "p-boundary" if self.pb else "valid-params"
            self.fail("construct-raises:%s:%s:%s" % (self.cname, type(e).__name__, pred),
                      {"params": _show(self.p), "error": str(e)[:120]})
            return None

    def draws(self, dist, stream, n, drawer=None):
        """n draws; returns records [(typename, bits, consumed)] and stops at the first exception"""
        recs = []
        call = drawer if drawer is not None else dist.draw
        for i in range(n):
            pos = len(stream.log)
            try:
                x = call()
            except Inconclusive:
                raise
            except Exception as e:      # noqa: BLE001
                us = stream.floats_since(pos)
                self._note_extreme(us, stream)
                # the polar method consumes pairs and fails in its last pair; earlier pairs were rejected
                window = us[-2:] if self.cname in NORMAL_FAMILY else us
                pred = _input_predicate(window)
                if self.pb and not (pred == "u0" and isinstance(e, ValueError)):
                    pred = "p-boundary"     # log(u)/log(1-p) with log(1-p) = 0; log(0.0) itself is the u0 family
                kind = "draw-raises:%s:%s:%s" % (self.cname, type(e).__name__, pred)
                if self.cname == "DistNormalTrunc" and str(e).startswith("drawn value"):
                    kind += ":outside-interval"
                if self.xp:
                    kind += ":xparam"
                self.fail(kind, {"params": _show(self.p), "draw": i, "uniforms": [repr(u) for u in us[:8]],
                                 "error": str(e)[:100]})
                recs.append(("raise", type(e).__name__, len(stream.log) - pos))
                break
            us = stream.floats_since(pos)
            self._note_extreme(us, stream)
            recs.append((type(x).__name__, _bits(x), len(stream.log) - pos))
            if drawer is None:
                self.support(x, us)
        return recs

    def _note_extreme(self, us, stream):
        if getattr(stream, "scripted", False) and any(_is_extreme(u) for u in us):
            self.extreme_delivered = True

    def support(self, x, us):
        c, p = self.cname, self.p
        what = None
        if c in DISCRETE:
            if type(x) is not int:
                what = "type-" + type(x).__name__
            elif c == "DistBernoulli" and x not in (0, 1):
                what = "out-of-range"
            elif c == "DistBinomial" and not 0 <= x <= p["n"]:
                what = "out-of-range"
            elif c == "DistDiscreteUniform" and not p["lo"] <= x <= p["hi"]:
                what = "out-of-range"
            elif c in ("DistGeometric", "DistNegBinomial", "DistPoisson") and x < 0:
                what = "negative"
        elif c == "DistConstant":
            if type(x) is not type(p["constant"]) or _bits(x) != _bits(p["constant"]):
                what = "not-the-constant"
        else:
            if type(x) is not float:
                what = "type-" + type(x).__name__
            elif x != x:
                what = "nan"
            elif c in NONNEG and x < 0:
                what = "negative"
            elif c == "DistBeta" and not 0.0 <= x <= 1.0:
                what = "outside-0-1"
            elif c in ("DistUniform", "DistTriangular", "DistNormalTrunc"):
                if x < p["lo"]:
                    what = "below-lo"
                elif x > p["hi"]:
                    what = "above-hi"
        if what in ("below-lo", "above-hi"):
            excess = (p["lo"] - x) if what == "below-lo" else (x - p["hi"])
            width = p["hi"] - p["lo"]
            if math.isfinite(width) and excess <= 1e-9 * width:
                what += ":rounding"         # a few ulps of the interval width
        if what is not None:
            self.fail("support:%s:%s" % (c, what),
                      {"params": _show(p), "draw": _bits(x), "uniforms": [repr(u) for u in us[:8]]})
        elif isinstance(x, float) and math.isinf(x):
            self.out.label("draw-inf")


def _show(p):
    return {k: (v.hex() + "=" + repr(v)) if isinstance(v, float) else repr(v) for k, v in p.items()}


def _mk_stream(spec, n_draws):
    from props._scripted_stream import CountingMT, ScriptedStream
    budget = 30000 + 4000 * max(1, n_draws)
    if spec["k"] == "mt":
        s = CountingMT(spec["seed"], budget)
        s.scripted = False
    else:
        s = ScriptedStream([float.fromhex(h) for h in spec["prefix"]], spec["tail"], budget)
        s.scripted = True
    return s


def _advance(stream, log):
    """bring a fresh stream to the position of another one by repeating its typed calls"""
    for e in log:
        if e[0] == "f":
            stream.next_float()
        elif e[0] == "i":
            stream.next_int(e[1], e[2])
        else:
            stream.next_bool()


def _decode_params(enc):
    return {k: _dec(v) for k, v in enc.items()}


def run_case(case):
    import pydsol.core.distributions as D
    _check_class_table(D)
    out = Outcome()
    cname = case["cls"]
    params = _decode_params(case["params"])
    bad_stream = bool(case.get("bad_stream"))
    ctx = _Ctx(out, cname, params)
    verdict, pname, reason = classify(cname, params, bad_stream)
    ctx.either = verdict == "either"
    out.label("cls=" + cname, "params=" + verdict)

    if verdict in ("type", "value", "mixed"):
        _run_invalid(out, ctx, case, verdict, pname, reason, bad_stream)
        return out

    scen = case["scen"]
    out.label("scen=" + scen, "stream=" + case["stream"]["k"])
    if ctx.pb:
        out.label("p-boundary")
    if ctx.xp:
        out.label("xparam")
    n = max(1, int(case["n"]))
    info = {}

    # reference run: a fresh instance alone on a fresh stream
    s_ref = _mk_stream(case["stream"], n)
    d_ref = ctx.make_valid(s_ref)
    if d_ref is None:
        out.label("not-constructed")
        return out
    if verdict == "either":
        out.label("borderline-constructed")
    if not isinstance(d_ref, D.Distribution):
        ctx.fail("construct-raises:%s:not-a-distribution:valid-params" % cname)
    if d_ref.stream is not s_ref:
        ctx.fail("repoint-stream-property:%s" % cname, "stream property differs after construction")
    ref = ctx.draws(d_ref, s_ref, n)
    info["consumed"] = s_ref.count

    if scen == "twin":
        _scen_twin(out, ctx, case, n, ref)
    elif scen == "interleave":
        _scen_interleave(out, ctx, case, n, ref, info)
    elif scen == "repoint":
        _scen_repoint(out, ctx, case, n, ref, info)
    elif scen == "replay":
        _scen_replay(out, ctx, case, n, ref, s_ref)
    elif scen == "wrapper":
        _scen_wrapper(out, ctx, case, n, ref)
    elif scen == "scale":
        _scen_scale(out, ctx, case, n, ref)
    else:
        raise ValueError("unknown scenario %r" % scen)

    if ctx.extreme_delivered:
        out.label("extreme-uniform-delivered")
        out.nontrivial = True
    if any(r[0] == "raise" for r in ref):
        out.label("draw-raised")
    out.info = info
    return out


_TABLE_CHECKED = []


def _check_class_table(D):
    if _TABLE_CHECKED:
        return
    import inspect
    found = sorted(n for n, c in inspect.getmembers(D, inspect.isclass)
                   if issubclass(c, D.Distribution) and not inspect.isabstract(c) and c.__module__ == D.__name__)
    if found != CLASSES:
        raise RuntimeError("C14 class table out of date: module has %r, table has %r" % (found, CLASSES))
    _TABLE_CHECKED.append(True)


def _run_invalid(out, ctx, case, verdict, pname, reason, bad_stream):
    """clause 7: a set outside the documented domain is rejected at construction"""
    out.label("invalid=%s" % reason.split("-")[0])
    s = None if bad_stream else _mk_stream(case["stream"], 1)
    if bad_stream:
        # not a stream: a string, or (by the length of the class name) an object that merely looks a little like one
        class _HalfStream:
            def next_float(self):
                return 0.5
        s = "not a stream" if len(ctx.cname) % 2 else _HalfStream()
    try:
        ctx.make(s)
    except Inconclusive:
        raise
    except TypeError as e:
        if verdict == "value":
            ctx.fail("invalid-params-wrong-exception:%s:TypeError:%s:%s" % (ctx.cname, pname, reason),
                     {"params": _show(ctx.p), "error": str(e)[:120]})
    except ValueError as e:
        if verdict == "type":
            ctx.fail("invalid-params-wrong-exception:%s:ValueError:%s:%s" % (ctx.cname, pname, reason),
                     {"params": _show(ctx.p), "error": str(e)[:120]})
    except Exception as e:      # noqa: BLE001
        ctx.fail("invalid-params-wrong-exception:%s:%s:%s:%s" % (ctx.cname, type(e).__name__, pname, reason),
                 {"params": _show(ctx.p), "error": str(e)[:120]})
    else:
        ctx.fail("invalid-params-accepted:%s:%s:%s" % (ctx.cname, pname, reason), {"params": _show(ctx.p)})


def _cmp(ctx, kind, a, b, detail):
    if a != b:
        first = next((i for i in range(min(len(a), len(b))) if a[i] != b[i]), min(len(a), len(b)))
        d = {"params": _show(ctx.p), "first_difference_at": first,
             "reference": a[max(0, first - 1):first + 2], "got": b[max(0, first - 1):first + 2]}
        d.update(detail)
        ctx.fail(kind, d)


SCALE_PARAM = {"DistExponential": "mean", "DistErlang": "scale", "DistGamma": "scale", "DistWeibull": "beta",
               "DistPearson5": "beta", "DistPearson6": "beta"}


def _scen_scale(out, ctx, case, n, ref):
    """The scale parameter of a scale family only scales: with the scale multiplied by 2**k (exact in binary
    floating point) and the same stream output, every draw is the old draw times 2**k - as long as that value is
    a double (results in the subnormal range: to one unit of the last place)."""
    import pydsol.core.distributions as D
    pname = SCALE_PARAM[ctx.cname]
    base = float(ctx.p[pname])
    for k in case["shifts"]:
        scaled = math.ldexp(base, k)
        if scaled == 0.0 or math.isinf(scaled):
            continue
        s2 = _mk_stream(case["stream"], n)
        try:
            d2 = getattr(D, ctx.cname)(s2, **dict(ctx.kw, **{pname: scaled}))
        except Exception as e:                                    # noqa: BLE001
            ctx.fail("construct-raises:%s:%s:valid-params" % (ctx.cname, type(e).__name__),
                     {"scale": scaled.hex(), "error": str(e)[:100]})
            return
        for i, rec in enumerate(ref):
            if rec[0] != "float":
                break
            x = float.fromhex(rec[1])
            want = math.ldexp(x, k)
            try:
                y = d2.draw()
            except Exception as e:                                # noqa: BLE001
                ctx.fail("scale-equivariance:%s:draw-raises:%s" % (ctx.cname, type(e).__name__),
                         {"scale": scaled.hex(), "draw": i, "want": want.hex()})
                break                      # (the next shift is looked at all the same)
            if math.isinf(want) or want == 0.0 or x == 0.0:
                continue
            if not (isinstance(y, float) and abs(y - want) <= 1e-12 * abs(want) + 1e-323):
                how = "draw-inf" if isinstance(y, float) and math.isinf(y) else \
                    "draw-zero" if y == 0 else "differs"
                ctx.fail("scale-equivariance:%s:%s" % (ctx.cname, how),
                         {"scale_exponent": k, "draw": i, "got": _bits(y), "want": want.hex(),
                          "at_scale_1": x.hex(), "params": _show(ctx.p)})
                break
    out.label("scale-equivariance")
    out.nontrivial = True


def _scen_twin(out, ctx, case, n, ref):
    """clauses 1 and 4: two more instances, both built before either draws, drawn one after the other"""
    s1 = _mk_stream(case["stream"], n)
    s2 = _mk_stream(case["stream"], n)
    d1 = ctx.make_valid(s1)
    d2 = ctx.make_valid(s2)
    if d1 is None or d2 is None:
        return
    r1 = ctx.draws(d1, s1, n)
    r2 = ctx.draws(d2, s2, n)
    _cmp(ctx, "twin-differs:%s" % ctx.cname, ref, r1, {"which": "first twin"})
    _cmp(ctx, "twin-differs:%s" % ctx.cname, ref, r2, {"which": "second twin (drawn after the first)"})
    if not out.disc:
        # a (shallow) copy of an instance pointed at another stream: the original keeps drawing from its own stream,
        # the copy from the new one - instances do not influence each other
        import copy
        s3 = _mk_stream(case["stream"], n)
        try:
            clone = copy.copy(d2)
            clone.stream = s3
        except Exception as e:                                    # noqa: BLE001
            ctx.fail("copy-raises:%s:%s" % (ctx.cname, type(e).__name__), repr(e)[:120])
            return
        c2, c3 = s2.count, s3.count
        ctx.draws(d2, s2, 2)
        if d2.stream is not s2 or s3.count != c3:
            ctx.fail("copy-shares-state:%s" % ctx.cname, {"original drew from the stream of its copy": s3.count - c3,
                                                         "stream property": d2.stream is s2})
            return
        c2 = s2.count
        ctx.draws(clone, s3, 2)
        if s2.count != c2:
            ctx.fail("copy-shares-state:%s" % ctx.cname, {"copy drew from the stream of the original": s2.count - c2})
            return
        out.label("copied-instance")
    carries_spare = ctx.cname in ("DistNormal", "DistLogNormal") and n % 2 == 1
    if carries_spare:
        # (the polar method produces normal variates in pairs: after an odd number of draws the instance holds the
        # second variate of the last pair, which no stream operation can take back - by design)
        out.label("reseed-skipped:spare-variate-held")
    if not s1.scripted and not out.disc and not carries_spare:
        # "equally seeded" also when the stream of a used distribution is seeded again - with the seed it has (a seed
        # updater that serves replication r twice) or through reset(): the draws start over
        for how in ("set_seed", "reset"):
            try:
                if how == "set_seed":
                    s1.set_seed(s1.seed())
                else:
                    s1.reset()
            except Exception as e:                                # noqa: BLE001
                ctx.fail("reseed-raises:%s:%s" % (ctx.cname, type(e).__name__), repr(e))
                return
            again = ctx.draws(d1, s1, n)
            _cmp(ctx, "reseeded-stream-differs:%s" % ctx.cname, ref, again, {"how": how})
        out.label("stream-seeded-again")


def _scen_interleave(out, ctx, case, n, ref, info):
    """clause 2: another instance on another stream, interleaved, changes nothing - for either of them"""
    other = case.get("other")
    if other in (None, "same"):
        octx = _Ctx(out, ctx.cname, dict(ctx.p))
        octx.either = ctx.either
        out.label("other=same-class-same-params")
    else:
        octx = _Ctx(out, other["cls"], _decode_params(other["params"]))
        if classify(octx.cname, octx.p)[0] != "valid":      # borderline or invalid: use a copy instead
            octx = _Ctx(out, ctx.cname, dict(ctx.p))
            octx.either = ctx.either
        out.label("other=same-class" if octx.cname == ctx.cname else "other=other-class")
    pattern = [1 if b else 0 for b in case.get("pattern") or [0, 1]]
    zeros = pattern.count(0)
    if zeros < n:                      # make the pattern carry exactly n draws of the instance under test
        pattern = pattern + [0] * (n - zeros)
    m = pattern.count(1)
    ospec = case.get("ostream") or case["stream"]
    # reference of the other instance, alone
    so_ref = _mk_stream(ospec, max(1, m))
    do_ref = octx.make_valid(so_ref)
    if do_ref is None:
        return
    oref = octx.draws(do_ref, so_ref, m)
    s1 = _mk_stream(case["stream"], n)
    s2 = _mk_stream(ospec, max(1, m))
    d1 = ctx.make_valid(s1)
    d2 = octx.make_valid(s2)
    if d1 is None or d2 is None:
        return
    r1, r2 = [], []
    dead1 = dead2 = False
    took = 0
    switches = 0
    last = None
    for b in pattern:
        if b == 0:
            if took >= n or dead1:
                continue
            took += 1
            r = ctx.draws(d1, s1, 1)
            r1.extend(r)
            dead1 = r[-1][0] == "raise"
        else:
            if dead2:
                continue
            r = octx.draws(d2, s2, 1)
            r2.extend(r)
            dead2 = r[-1][0] == "raise"
        if last is not None and last != b:
            switches += 1
        last = b
    _cmp(ctx, "interleave-differs:%s" % ctx.cname, ref[:len(r1)] if dead1 else ref, r1,
         {"other": octx.cname, "pattern": pattern})
    _cmp(octx, "interleave-differs:%s:other" % octx.cname, oref[:len(r2)] if dead2 else oref, r2,
         {"first": ctx.cname, "pattern": pattern})
    info["switches"] = switches
    if len(r1) + len(r2) >= 5 and len(r1) >= 2 and len(r2) >= 2 and switches >= 2:
        out.nontrivial = True
        out.label("interleave>=5")
    if octx.extreme_delivered:
        ctx.extreme_delivered = True


def _scen_repoint(out, ctx, case, n, ref, info):
    """clause 3: after `dist.stream = s2` every old stream stays untouched and the draws are those of a
    fresh instance on an equally positioned stream"""
    segs = case.get("segments") or [[{"k": "mt", "seed": 1}, 3]]
    s_cur = _mk_stream(case["stream"], n)
    d = ctx.make_valid(s_cur)
    if d is None:
        return
    r0 = ctx.draws(d, s_cur, n)
    _cmp(ctx, "twin-differs:%s" % ctx.cname, ref, r0, {"which": "before re-pointing"})
    if r0 and r0[-1][0] == "raise":
        out.label("raised-before-repoint")
        return
    old = []
    cur_spec = case["stream"]
    before = n
    total = n
    # a REFUSED stream assignment (not a stream object) changes nothing: the next draws are those of an instance
    # that drew the same numbers and was never touched
    s_ctl = _mk_stream(case["stream"], n + 2)
    d_ctl = ctx.make_valid(s_ctl)
    if d_ctl is not None:
        ctx.draws(d_ctl, s_ctl, n)
        for bad in ("not a stream", None):
            try:
                d.stream = bad
                ctx.fail("bad-stream-accepted:%s" % ctx.cname, repr(bad))
                return
            except Inconclusive:
                raise
            except Exception:      # noqa: BLE001
                pass
        if d.stream is not s_cur:
            ctx.fail("repoint-stream-property:%s" % ctx.cname, "stream changed by a refused assignment")
            return
        want2 = ctx.draws(d_ctl, s_ctl, 2)
        got2 = ctx.draws(d, s_cur, 2)
        _cmp(ctx, "refused-stream-assignment-changed-draws:%s" % ctx.cname, want2, got2, {"draws_before": n})
        if got2 and got2[-1][0] == "raise":
            return
        before = total = n + 2
        out.label("refused-stream-assignment")
    for spec, m in segs:
        m = max(1, int(m))
        if spec == "same":
            # same stream object again: the fresh twin needs a stream at the same position
            s_new = s_cur
            s_twin = _mk_stream(cur_spec, total + m)
            _advance(s_twin, s_cur.log)
            out.label("repoint=same-stream")
        else:
            s_new = _mk_stream(spec, m)
            s_twin = _mk_stream(spec, m)
            cur_spec = spec
            old.append(s_cur)
            s_cur.frozen = True
            out.label("repoint=new-stream")
        if ctx.cname in NORMAL_FAMILY and before % 2 == 1:
            out.nontrivial = True
            out.label("repoint-after-odd-normal-draws")
        try:
            d.stream = s_new
        except Inconclusive:
            raise
        except Exception as e:      # noqa: BLE001
            ctx.fail("repoint-raises:%s:%s" % (ctx.cname, type(e).__name__), str(e)[:120])
            return
        if d.stream is not s_new:
            ctx.fail("repoint-stream-property:%s" % ctx.cname, "dist.stream is not the stream just set")
        mark = len(s_new.log)
        got = ctx.draws(d, s_new, m)
        consumed_new = len(s_new.log) - mark
        d_twin = ctx.make_valid(s_twin)
        if d_twin is None:
            return
        want = ctx.draws(d_twin, s_twin, m)
        _cmp(ctx, "repoint-differs:%s" % ctx.cname, want, got,
             {"draws_before": before, "target": "same" if spec == "same" else spec["k"]})
        for so in old:
            if so.consumed_while_frozen:
                ctx.fail("repoint-old-stream-consumed:%s" % ctx.cname,
                         {"params": _show(ctx.p), "numbers_taken_from_old_stream": so.consumed_while_frozen,
                          "draws_before": before})
        if got and got[-1][0] == "raise":
            break
        if consumed_new == 0 and sum(r[2] for r in ref) > 0:
            ctx.fail("repoint-new-stream-unused:%s" % ctx.cname,
                     {"params": _show(ctx.p), "note": "draws after re-pointing took no number from the new stream"})
        s_cur = s_new
        before = m
        total += m
    info["segments"] = len(segs)
    if total >= 5:
        out.nontrivial = True
        out.label("repoint>=5")


def _scen_replay(out, ctx, case, n, ref, s_ref):
    """the draws depend on the stream only through the numbers it delivers (clause 4, stronger form)"""
    from props._scripted_stream import ReplayStream
    rs = ReplayStream(s_ref.log, 12345, 30000 + 4000 * n)
    rs.scripted = False
    d = ctx.make_valid(rs)
    if d is None:
        return
    got = ctx.draws(d, rs, n)
    if rs.mismatch is not None:
        ctx.fail("replay-call-mismatch:%s" % ctx.cname, rs.mismatch)
    _cmp(ctx, "replay-differs:%s" % ctx.cname, ref, got, {"recorded_numbers": len(s_ref.log)})


def _wrappers():
    import inspect
    import pydsol.core.units as U
    return sorted((c for _, c in inspect.getmembers(U, inspect.isclass)
                   if issubclass(c, U.QuantityDist) and hasattr(c, "quantity")), key=lambda c: c.__name__)


SI_UNITS = ["m/s", "kgm/s2", "s", "m2", "kgm2/s3A", "mol/m3", "/s"]


def _scen_wrapper(out, ctx, case, n, ref):
    """clause 8: wrapper draw == Quantity(inner draw, unit)"""
    import pydsol.core.units as U
    wi, ui = case.get("wrapper") or [0, 0]
    s1 = _mk_stream(case["stream"], n)
    d1 = ctx.make_valid(s1)
    if d1 is None:
        return
    if wi < 0:
        wname, unit, Q = "SIDist", SI_UNITS[ui % len(SI_UNITS)], U.SI
        factor = 1.0
    else:
        ws = _wrappers()
        W = ws[wi % len(ws)]
        Q = W.quantity
        units = list(Q._units)
        unit = units[ui % len(units)]
        wname = W.__name__
        factor = Q._units[unit]
    out.label("wrapper=" + wname)
    try:
        w = U.SIDist(d1, unit) if wi < 0 else W(d1, unit)
    except Exception as e:      # noqa: BLE001
        ctx.fail("wrapper-differs:%s:construct-%s" % (wname, type(e).__name__), {"unit": unit, "error": str(e)[:100]})
        return
    qs = []

    def drawer():
        q = w.draw()
        qs.append(q)
        return float(q)

    got = ctx.draws(d1, s1, n, drawer=drawer)
    for i, q in enumerate(qs):
        r = ref[i] if i < len(ref) else None
        if r is None or r[0] == "raise":
            break
        x = float.fromhex(r[1]) if r[0] == "float" and r[1] != "nan" else (int(r[1]) if r[0] == "int" else None)
        if x is None:
            break
        what = None
        try:
            want = Q(x, unit)
        except Exception:       # noqa: BLE001
            break
        if type(q) is not Q:
            what = "type-" + type(q).__name__
        elif _bits(float(q)) != _bits(float(want)) or _bits(float(q)) != _bits(float(x * factor)):
            what = "value"
        elif wi >= 0 and q.unit != unit:
            what = "unit"
        elif wi < 0 and (q._sisig != want._sisig or q._unit != want._unit):
            what = "unit"
        if what:
            ctx.fail("wrapper-differs:%s:%s" % (wname, what),
                     {"unit": unit, "inner_draw": r[1], "got": repr(q), "got_unit": getattr(q, "_unit", None),
                      "want": repr(want)})
            break
    # the consumption must be that of the inner distribution
    a = [(r[0] if r[0] == "raise" else "ok", r[2]) for r in ref]
    b = [(r[0] if r[0] == "raise" else "ok", r[2]) for r in got]
    if a[:len(b)] != b and not any(r[0] == "raise" for r in got):
        ctx.fail("wrapper-differs:%s:consumption" % wname, {"reference": a[:4], "got": b[:4]})


# ------------------------------------------------------------------ strategy
def _logpos():
    return st.floats(min_value=-3.0, max_value=3.0).map(lambda e: min(1e3, max(1e-3, 10.0 ** e)))


def _val(kind):
    if kind == "pos":
        return st.one_of(st.sampled_from([1e-3, 1e3, 1.0, 0.5, 2.0, 1.5, 0.05, 0.01, 1, 2, 10, 500, 0.999, 1.0000000000000002]),
                         _logpos(), _logpos(), st.integers(1, 500))
    if kind == "real":
        return st.one_of(st.sampled_from([0.0, 1.0, -1.0, 1e3, -1e3, 0, 5, -7, 1e-3, -1e-3]),
                         _logpos(), _logpos().map(lambda x: -x), st.integers(-500, 500))
    if kind == "prob":
        return st.one_of(st.sampled_from([0.0, 1.0, 0.5, 1e-3, 1.0 - 1e-3, 2.0 ** -53, 1.0 - 2.0 ** -53]),
                         st.floats(min_value=1e-3, max_value=1.0 - 1e-3))
    if kind == "cnt":
        return st.one_of(st.sampled_from([1, 2, 9, 10, 11, 500]), st.integers(1, 40), st.integers(1, 500))
    return st.integers(-500, 500)


@st.composite
def _valid_params(draw, cname):
    spec = SPECS[cname]
    p = {name: draw(_val(kind)) for name, kind in spec}
    if cname in ("DistDiscreteUniform", "DistUniform"):
        lo, hi = sorted([p["lo"], p["hi"]])
        if lo == hi:
            hi = lo + 1
        p["lo"], p["hi"] = lo, hi
    elif cname == "DistTriangular":
        lo, mid, hi = sorted([p["lo"], p["mode"], p["hi"]])
        if lo == hi:
            hi = lo + 1
        sel = draw(st.sampled_from(["lo", "hi", "mid", "mid"]))
        p["lo"], p["hi"] = lo, hi
        p["mode"] = lo if sel == "lo" else hi if sel == "hi" else mid
    elif cname == "DistNormalTrunc":
        mu, sigma = float(p["mu"]), float(p["sigma"])
        shape = draw(st.sampled_from(["two", "two", "lo-only", "hi-only", "none", "zero-lo", "zero-hi", "free"]))
        z = draw(st.floats(min_value=-3.0, max_value=3.0))
        h = draw(st.one_of(st.sampled_from([0.005, 0.01, 1.0, 3.0]), st.floats(min_value=0.005, max_value=4.0)))
        if shape == "two":
            p["lo"], p["hi"] = mu + sigma * (z - h), mu + sigma * (z + h)
        elif shape == "lo-only":
            p["lo"], p["hi"] = mu + sigma * z, math.inf
        elif shape == "hi-only":
            p["lo"], p["hi"] = -math.inf, mu + sigma * z
        elif shape == "none":
            p["lo"], p["hi"] = -math.inf, math.inf
        elif shape == "zero-lo":
            p["mu"] = mu = -z * sigma
            p["lo"], p["hi"] = 0.0, draw(st.sampled_from([math.inf, 2 * h * sigma]))
        elif shape == "zero-hi":
            p["mu"] = mu = -z * sigma
            p["lo"], p["hi"] = draw(st.sampled_from([-math.inf, -2 * h * sigma])), 0.0
        # "free": whatever was drawn; classify() decides
    return {k: _enc(v) for k, v in p.items()}


def _invalid_alternatives(kind):
    alts = [["str", "1.0"], ["none"], ["list"], ["complex"]]
    if kind in ("pos", "prob"):
        alts += ["nan", "nan"]
    if kind == "pos":
        alts += [0, _hx(0.0), _hx(-1.0), -3, _hx(-1e-3)]
    elif kind == "prob":
        alts += [_hx(-0.1), _hx(1.1), _hx(-5e-324), _hx(1.0000000000000002), 1, 0]
    elif kind == "cnt":
        alts += [0, -1, _hx(2.0)]
    elif kind == "int":
        alts += [_hx(1.5), _hx(2.0)]
    return alts


def _relational_invalid(cname):
    """(description, params) sets that violate a documented relation between parameters"""
    out = []
    if cname == "DistDiscreteUniform":
        out += [{"lo": 3, "hi": 3}, {"lo": 4, "hi": 3}]
    if cname == "DistUniform":
        out += [{"lo": _hx(1.0), "hi": _hx(1.0)}, {"lo": _hx(2.0), "hi": _hx(1.0)}, {"lo": 2, "hi": 2}]
    if cname == "DistTriangular":
        out += [{"lo": _hx(0.0), "mode": _hx(-0.5), "hi": _hx(1.0)}, {"lo": _hx(0.0), "mode": _hx(1.5), "hi": _hx(1.0)},
                {"lo": _hx(1.0), "mode": _hx(1.0), "hi": _hx(1.0)}, {"lo": _hx(2.0), "mode": _hx(1.5), "hi": _hx(1.0)}]
    if cname == "DistNormalTrunc":
        out += [{"mu": _hx(0.0), "sigma": _hx(1.0), "lo": _hx(1.0), "hi": _hx(1.0)},
                {"mu": _hx(0.0), "sigma": _hx(1.0), "lo": _hx(2.0), "hi": _hx(1.0)},
                {"mu": _hx(0.0), "sigma": _hx(1.0), "lo": _hx(6.0), "hi": _hx(7.0)},
                {"mu": _hx(0.0), "sigma": _hx(1.0), "lo": _hx(-math.inf), "hi": _hx(-6.0)},
                {"mu": _hx(5.0), "sigma": _hx(1e-3), "lo": _hx(6.0), "hi": _hx(math.inf)},
                {"mu": _hx(0.0), "sigma": _hx(1.0), "lo": _hx(0.0), "hi": _hx(1e-7)}]
    return out


def _stream_spec():
    mt = st.integers(0, 2 ** 32).map(lambda s: {"k": "mt", "seed": s})
    u = st.one_of(st.sampled_from(EXTREMES), st.sampled_from(EXTREMES),
                  st.floats(min_value=0.0, max_value=1.0, exclude_max=True))
    motif = st.sampled_from([[0.5, 0.5], [0.3, 0.5, 0.5], [0.0], [0.3, 0.0], [0.3, 0.3, 0.0], [5e-324, 5e-324],
                             [1e-300, 1e-300], [1e-200, 1e-200], [1.0 - 2.0 ** -53], [0.3, 1.0 - 2.0 ** -53],
                             [2.0 ** -53, 2.0 ** -53], [1e-17, 1e-17, 1e-17]])
    chunk = st.one_of(u.map(lambda x: [x]), motif)
    scr = st.tuples(st.lists(chunk, min_size=1, max_size=4), st.integers(0, 10 ** 6)).map(
        lambda t: {"k": "scr", "prefix": [_hx(x) for c in t[0] for x in c][:10], "tail": t[1]})
    return st.one_of(mt, scr, scr)


def strategy(tier):
    nmax = 12 if tier == "quick" else 24

    @st.composite
    def case(draw):
        cname = draw(st.sampled_from(CLASSES))
        params = draw(_valid_params(cname))
        c = {"cls": cname, "params": params, "bad_stream": False,
             "stream": draw(_stream_spec()), "n": draw(st.integers(1, nmax))}
        if draw(st.sampled_from([True] + [False] * 7)):
            # spoil one parameter (or a relation, or the stream)
            c["scen"] = "twin"
            rel = _relational_invalid(cname)
            how = draw(st.sampled_from([0, 1, 2, 3, 4, 5, 6, 7, 8, 9]))
            if how == 0:
                c["bad_stream"] = True
            elif how <= 2 and rel:
                c["params"] = dict(params, **draw(st.sampled_from(rel)))
            else:
                name, kind = draw(st.sampled_from(SPECS[cname]))
                c["params"] = dict(params)
                c["params"][name] = draw(st.sampled_from(_invalid_alternatives(kind)))
            return c
        scen = draw(st.sampled_from(["twin", "twin", "interleave", "interleave", "interleave", "repoint",
                                     "repoint", "repoint", "replay", "wrapper"]))
        c["scen"] = scen
        if scen == "interleave":
            o = draw(st.sampled_from([0, 1, 2, 3]))
            if o <= 1:
                c["other"] = "same"
            else:
                oc = cname if o == 2 else draw(st.sampled_from(CLASSES))
                c["other"] = {"cls": oc, "params": draw(_valid_params(oc))}
            c["ostream"] = draw(st.one_of(st.just(c["stream"]), _stream_spec()))
            c["pattern"] = draw(st.lists(st.integers(0, 1), min_size=2, max_size=2 * nmax))
        elif scen == "repoint":
            seg = st.tuples(st.one_of(_stream_spec(), _stream_spec(), st.just("same")),
                            st.integers(1, nmax)).map(list)
            c["segments"] = draw(st.lists(seg, min_size=1, max_size=3))
            c["n"] = draw(st.one_of(st.sampled_from([1, 3, 5]), st.integers(1, nmax)))
        elif scen == "replay":
            c["stream"] = {"k": "mt", "seed": draw(st.integers(0, 2 ** 32))}
        elif scen == "wrapper":
            c["wrapper"] = [draw(st.sampled_from(list(range(-1, 41)))), draw(st.integers(0, 60))]
        return c

    return case()


# ------------------------------------------------------------------ enumerated sub-domain
def _e(d):
    return {k: _enc(v) for k, v in d.items()}


ENUM_PARAMS = {
    "DistBernoulli": [{"p": 0.0}, {"p": 0.5}, {"p": 1.0}],
    "DistBeta": [{"alpha1": 0.5, "alpha2": 0.5}, {"alpha1": 1.0, "alpha2": 1.0}, {"alpha1": 2.0, "alpha2": 3.0},
                 {"alpha1": 0.5, "alpha2": 2}],
    "DistBinomial": [{"n": 1, "p": 0.0}, {"n": 10, "p": 0.5}, {"n": 7, "p": 1.0}],
    "DistConstant": [{"constant": 0}, {"constant": 2.5}, {"constant": -0.0},
                     {"constant": 2 ** 53 + 1}, {"constant": 10 ** 30 + 7}],      # ints that no double represents
    "DistDiscreteUniform": [{"lo": 0, "hi": 1}, {"lo": -500, "hi": 500}, {"lo": 1, "hi": 6}],
    "DistErlang": [{"scale": 1.0, "k": 1}, {"scale": 2.0, "k": 9}, {"scale": 0.5, "k": 10}, {"scale": 3, "k": 2}],
    "DistExponential": [{"mean": 1.0}, {"mean": 1e-3}, {"mean": 1000}],
    "DistGamma": [{"shape": 0.5, "scale": 1.0}, {"shape": 1.0, "scale": 2.0}, {"shape": 2.5, "scale": 1.0},
                  {"shape": 1, "scale": 1}],
    "DistGeometric": [{"p": 0.0}, {"p": 0.5}, {"p": 1.0}, {"p": 1e-3}],
    "DistLogNormal": [{"mu": 0.0, "sigma": 1.0}, {"mu": -1.0, "sigma": 0.5}, {"mu": 2, "sigma": 2}],
    "DistNegBinomial": [{"s": 1, "p": 0.0}, {"s": 3, "p": 0.5}, {"s": 2, "p": 1.0}, {"s": 5, "p": 0.25}],
    "DistNormal": [{"mu": 0.0, "sigma": 1.0}, {"mu": -1000.0, "sigma": 1e-3}, {"mu": 5, "sigma": 2}],
    "DistNormalTrunc": [{"mu": 0.0, "sigma": 1.0, "lo": -1.0, "hi": 1.0},
                        {"mu": 0.0, "sigma": 1.0, "lo": 1.0, "hi": math.inf},
                        {"mu": 0.0, "sigma": 1.0, "lo": -math.inf, "hi": -1.0},
                        {"mu": 0.0, "sigma": 1.0, "lo": -math.inf, "hi": math.inf},
                        {"mu": 10.0, "sigma": 2.0, "lo": 9, "hi": 12},
                        # bounds 6 - 8.3 sigma away: the cumulative probability there is within 1e-9..1e-16 of 0 / 1
                        {"mu": 0.0, "sigma": 1.0, "lo": 0.0, "hi": 7.1},
                        {"mu": 0.0, "sigma": 1.0, "lo": -7.5, "hi": 0.5},
                        {"mu": 0.0, "sigma": 1.0, "lo": -8.2, "hi": 8.2},
                        {"mu": 10.0, "sigma": 2.0, "lo": -3.0, "hi": 10.0},
                        {"mu": 0.0, "sigma": 1.0, "lo": -6.1, "hi": 6.4}],
    "DistPearson5": [{"alpha": 0.5, "beta": 1.0}, {"alpha": 1.0, "beta": 2.0}, {"alpha": 3.0, "beta": 0.5}],
    "DistPearson6": [{"alpha1": 0.5, "alpha2": 0.5, "beta": 1.0}, {"alpha1": 1.0, "alpha2": 1.0, "beta": 2.0},
                     {"alpha1": 2.0, "alpha2": 3.0, "beta": 0.5}],
    "DistPoisson": [{"rate": 0.5}, {"rate": 4.0}, {"rate": 30}],
    "DistTriangular": [{"lo": 0.0, "mode": 0.0, "hi": 1.0}, {"lo": 0.0, "mode": 1.0, "hi": 1.0},
                       {"lo": -1.0, "mode": 0.5, "hi": 2.0}, {"lo": 1, "mode": 2, "hi": 4},
                       {"lo": 1.7e9, "mode": 1.7e9 + 0.25, "hi": 1.7e9 + 0.5}, {"lo": 1.0, "mode": 1.0, "hi": 1.0000000001}],
    "DistUniform": [{"lo": 0.0, "hi": 1.0}, {"lo": -1000.0, "hi": 1e-3}, {"lo": 1, "hi": 3},
                    # valid intervals that are narrow compared with the magnitude of their bounds
                    {"lo": 1.7e9, "hi": 1.7e9 + 0.5}, {"lo": 1.0, "hi": 1.0000000001},
                    {"lo": 1e15, "hi": 1e15 + 1.0}, {"lo": 3.0, "hi": math.nextafter(3.0, 4.0)},
                    {"lo": -29.0, "hi": math.nextafter(-29.0, 0.0)}, {"lo": 83.7, "hi": 84.2},
                    {"lo": -1e308, "hi": 1e308}],
    "DistWeibull": [{"alpha": 1.0, "beta": 1.0}, {"alpha": 0.5, "beta": 2.0}, {"alpha": 3, "beta": 1e-3}],
}


def enumerate_cases(tier):
    cases = []
    mt = {"k": "mt", "seed": 20240926}
    # 1. extreme uniforms at every early position
    for cname in CLASSES:
        for p in ENUM_PARAMS[cname]:
            for x in EXTREMES:
                for prefix in ([x], [0.3, x], [x, x], [0.3, 0.3, x]):
                    cases.append({"cls": cname, "params": _e(p), "bad_stream": False, "scen": "twin",
                                  "stream": {"k": "scr", "prefix": [_hx(u) for u in prefix], "tail": 7}, "n": 3})
    # 1b. long runs of one and the same (or two alternating) uniforms: the gamma-based rejection samplers give up
    #     after 1000 candidates and must still hand out a value of the support (the polar method of the normal
    #     family has no such bound and is not driven this way)
    for cname in ("DistGamma", "DistErlang", "DistBeta", "DistPearson5", "DistPearson6"):
        for p in ENUM_PARAMS[cname]:
            for run in ([1.0 - 2.0 ** -53], [0.999999], [0.99, 1.0 - 2.0 ** -53], [0.5]):
                cases.append({"cls": cname, "params": _e(p), "bad_stream": False, "scen": "twin",
                              "stream": {"k": "scr", "prefix": [_hx(u) for u in run * (4400 // len(run))], "tail": 7},
                              "n": 1})
    # 1c. scale families: the scale parameter times 2**k, k down to the subnormal range and up to 2**1000
    for cname, pname in SCALE_PARAM.items():
        for p in ENUM_PARAMS[cname]:
            for seed in (5, 6):
                cases.append({"cls": cname, "params": _e(dict(p, **{pname: 1.0})), "bad_stream": False, "scen": "scale",
                              "stream": {"k": "mt", "seed": seed}, "n": 12,
                              "shifts": [-1060, -1000, -30, -1, 1, 30, 900, 1000]})
    # 2. every invalid alternative of every parameter, every violated relation, a non-stream
    for cname in CLASSES:
        base = _e(ENUM_PARAMS[cname][1])
        for name, kind in SPECS[cname]:
            for alt in _invalid_alternatives(kind):
                q = dict(base)
                q[name] = alt
                cases.append({"cls": cname, "params": q, "bad_stream": False, "scen": "twin", "stream": mt, "n": 1})
        for rel in _relational_invalid(cname):
            cases.append({"cls": cname, "params": dict(base, **rel), "bad_stream": False, "scen": "twin",
                          "stream": mt, "n": 1})
        cases.append({"cls": cname, "params": base, "bad_stream": True, "scen": "twin", "stream": mt, "n": 1})
    # 3. re-pointing after 1, 2, 3 draws (new stream, then the same stream), alternating interleaving, replay
    for cname in CLASSES:
        for p in ENUM_PARAMS[cname][1:3]:
            for k in (1, 2, 3):
                cases.append({"cls": cname, "params": _e(p), "bad_stream": False, "scen": "repoint", "stream": mt,
                              "n": k, "segments": [[{"k": "mt", "seed": 77}, 3], ["same", 2],
                                                   [{"k": "scr", "prefix": [_hx(0.3)], "tail": 5}, 2]]})
            cases.append({"cls": cname, "params": _e(p), "bad_stream": False, "scen": "interleave", "stream": mt,
                          "n": 4, "other": "same", "ostream": {"k": "mt", "seed": 4242},
                          "pattern": [0, 1, 0, 1, 1, 0, 1, 0]})
            cases.append({"cls": cname, "params": _e(p), "bad_stream": False, "scen": "interleave", "stream": mt,
                          "n": 3, "other": "same", "ostream": mt, "pattern": [0, 1, 1, 0, 0, 1]})
            cases.append({"cls": cname, "params": _e(p), "bad_stream": False, "scen": "replay", "stream": mt, "n": 5})
        # same class, other parameters, built after / drawn between (class-level helper state)
        sets = [q for q in ENUM_PARAMS[cname] if not _p_boundary(cname, q)]
        for a, b in ((sets[0], sets[-1]), (sets[-1], sets[0])):
            cases.append({"cls": cname, "params": _e(a), "bad_stream": False, "scen": "interleave", "stream": mt,
                          "n": 3, "other": {"cls": cname, "params": _e(b)}, "ostream": {"k": "mt", "seed": 99},
                          "pattern": [1, 0, 1, 0, 0, 1]})
    # 4. every quantity wrapper x every unit (+ SIDist)
    try:
        ws = _wrappers()
    except Exception:       # noqa: BLE001 - reported by run_case as a harness error anyway
        ws = []
    inner = _e({"lo": 1, "hi": 3})
    for wi, W in enumerate(ws):
        for ui in range(len(W.quantity._units)):
            cases.append({"cls": "DistUniform", "params": inner, "bad_stream": False, "scen": "wrapper",
                          "stream": mt, "n": 2, "wrapper": [wi, ui]})
    for ui in range(len(SI_UNITS)):
        cases.append({"cls": "DistUniform", "params": inner, "bad_stream": False, "scen": "wrapper",
                      "stream": mt, "n": 2, "wrapper": [-1, ui]})
    for cname in CLASSES:
        cases.append({"cls": cname, "params": _e(ENUM_PARAMS[cname][1]), "bad_stream": False, "scen": "wrapper",
                      "stream": mt, "n": 3, "wrapper": [CLASSES.index(cname), 1]})
    return cases


RULE = RULE + " " + 'Later additions: twin scenario - the used stream is seeded again (set_seed with its own seed, reset()) and the draws start over (Normal / LogNormal after an even number of draws only: the polar method holds a spare variate).'
