"""C07 helper: build and run one stochastic fan-out program under a configuration -> digest.
Used in-process (props/c07_reproducibility.py) and in child interpreters (props/_c07_child.py)."""
from vlib import stoch
from vlib.simharness import Harness, RefSim, enc_obs, dec_ref, dec_sut
from vlib.runner import Inconclusive

LAST_CLOCK_ADVANCES = None
_TYPES = []
_PRIOR_COUNTER = [0]


def bus_types():
    from pydsol.core.pubsub import EventType
    if not _TYPES:
        for i in range(4):
            _TYPES.append(EventType("C07_BUS_EVENT_%d" % i))
    return _TYPES


def install(model, case, reuse_streams=False):
    """stoch hooks + pub/sub bus with scripted listeners (subscribed in the generated order)"""
    stoch.install(model, case["seeds"], with_stats=True, reuse_streams=reuse_streams,
                  default_info=bool(case.get("default_info")))
    base_construct = model.extra_construct
    base_action = model.extra_action
    bus = case["bus"]

    def construct(m):
        from pydsol.core.pubsub import EventProducer, EventListener
        base_construct(m)
        m.bus = EventProducer()
        m.deliveries = []
        types = bus_types()

        class L(EventListener):
            def __init__(self, idx, script):
                self.idx, self.script = idx, script

            def notify(self, event):
                m.deliveries.append([self.idx, types.index(event.event_type), enc_obs(m.simulator.simulator_time)])
                m._actions(self.script, -2)

        m.listeners = [L(i, l["script"]) for i, l in enumerate(bus["listeners"])]
        for li, ti in bus["order"]:
            if m.listeners:
                m.bus.add_listener(types[ti % len(types)], m.listeners[li % len(m.listeners)])

    def action(m, a):
        if a[0] == "rotate":
            # unsubscribe a listener and subscribe it again at once: same number of listeners, new order
            action(m, ["unsub", a[1], a[2]])
            action(m, ["sub", a[1], a[2]])
            return
        if a[0] == "unsub_all":
            # remove_all_listeners(listener=L): the listener leaves every type, the others keep their order
            types = bus_types()
            if not m.listeners:
                return
            li = a[1] % len(m.listeners)
            for ti in range(len(types)):
                m.deliveries.append(["UNSUB", ti, li])
            m.bus.remove_all_listeners(listener=m.listeners[li])
            return
        if a[0] in ("unsub", "sub"):
            types = bus_types()
            if not m.listeners:
                return
            li, ti = a[1] % len(m.listeners), a[2] % len(types)
            m.deliveries.append([a[0].upper(), ti, li])
            if a[0] == "unsub":
                m.bus.remove_listener(types[ti], m.listeners[li])
            else:
                m.bus.add_listener(types[ti], m.listeners[li])
        elif a[0] == "fire":
            types = bus_types()
            ti = a[1] % len(types)
            m.deliveries.append(["FIRE", ti, None])
            m.bus.fire(types[ti], a[1])
        else:
            base_action(m, a)

    model.extra_construct = construct
    model.extra_action = action


def prior_activity(n):
    """unrelated earlier work in the process: SimEvents (id counter), EventTypes, objects (addresses)"""
    if n <= 0:
        return
    from pydsol.core.simevent import SimEvent
    from pydsol.core.pubsub import EventType

    class T:
        def m(self):
            pass
    keep = []
    t = T()
    for i in range(n):
        keep.append(SimEvent(float(i), t, "m", i % 7))
        keep.append(object())
        if i % 50 == 0:
            _PRIOR_COUNTER[0] += 1
            keep.append(EventType("C07_PRIOR_%d" % _PRIOR_COUNTER[0]))
            keep.append({str(i): [i] * (i % 13)})
    # ... and the stream administration of some other experiment: seed lists for names that this model uses too
    from pydsol.core.streams import StreamSeedInformation, MersenneTwister
    other = StreamSeedInformation()
    for j, nm in enumerate(["default", "arrivals", "service", "routing", "x", "Y", "failures", "repair", "0", ""]):
        if nm != "default":
            other.add_stream(nm, MersenneTwister(1000 + j))
        other.add_seed_values(nm, [900 + 10 * j + k for k in range(6)])
    keep.append(other)
    del keep[::3]
    return keep


def initial_method_probe():
    """earlier work in the process: another simulator on which an initial method was registered (never initialised).
    Returns (simulator, object); object.calls must stay 0 whatever other simulators do."""
    from pydsol.core.simulator import DEVSSimulatorFloat

    class Probe:
        calls = 0

        def hit(self, who=None):
            Probe.calls += 1
    sim = DEVSSimulatorFloat("c07-earlier-simulator")
    obj = Probe()
    sim.add_initial_method(obj, "hit", who="earlier")
    return sim, Probe


def _tval(x):
    """numeric value of an encoded time (0.0 and -0.0 are the same time)"""
    return float.fromhex(x) if isinstance(x, str) else (float.fromhex(x[0]) if isinstance(x, list) else x)


def seeds_through_updater(case):
    """the seeds of the model's streams as an experiment would install them: named streams, a StreamSeedUpdater
    with a seed table for the first name and a user-defined, order-sensitive fallback updater (a master stream
    hands out the seeds in the order in which update_seeds visits the streams = the listing order)"""
    u = case.get("updater")
    if not u:
        return list(case["seeds"])
    from pydsol.core.streams import MersenneTwister, StreamSeedUpdater, StreamUpdater
    names = u["names"][:max(1, len(case["seeds"]))]
    while len(names) < len(case["seeds"]):
        names.append("stream-%d" % len(names))
    streams = {}
    for n, sd in zip(names, case["seeds"]):
        streams[n] = MersenneTwister(sd)

    class MasterUpdater(StreamUpdater):
        def __init__(self, seed):
            self.master = MersenneTwister(seed)

        def update_seed(self, key, stream, replication_nr):
            stream.set_seed(self.master.next_int(0, 2 ** 31) + replication_nr)

    if u["master"] % 2:
        # the table is the one a StreamSeedInformation object holds (the normal wiring)
        from pydsol.core.streams import StreamSeedInformation
        info = StreamSeedInformation()
        for n in names:
            if n != "default":
                info.add_stream(n, streams[n])
        info.add_seed_values(names[0], [11, 22, 33, 44, 55])
        upd = StreamSeedUpdater(info.get_seeds())
    else:
        upd = StreamSeedUpdater({names[0]: [11, 22, 33, 44, 55]})
    if u.get("fallback", "master") == "master":
        upd.set_fallback_stream_updater(MasterUpdater(u["master"]))
    elif case.get("apply_history"):
        # the library's default fallback derives the seed from name, ORIGINAL seed and replication number only:
        # replications prepared earlier with the same updater and stream objects do not matter
        for r0 in u.get("history", []):
            upd.update_seeds(streams, r0 % 5)
    upd.update_seeds(streams, u["r"] % 5)
    return [streams[n].seed() for n in names]


def run_program(case, drive, twice=False):
    """drive: ["plain"] | ["pause", k] | ["bounded", frac] | ["steps", k]  -> digest dict.
    twice: the same simulator, model and (re-seeded) stream objects first run an earlier replication to its end"""
    from vlib.simharness import Recorder
    prog = case["prog"]
    h = Harness(prog)
    if case.get("updater"):
        case = dict(case, seeds=seeds_through_updater(case))
    install(h.model, case, reuse_streams=twice)
    try:
        h.initialize()
        stale = None
        if twice == "abandon":
            # the earlier replication is abandoned half-way (paused, cleanup()) and the simulator is used again
            h.start_pause_after(3, ["start"])
            h.sim.cleanup()
            h.rec = Recorder()
            h.initialize()
        elif twice:
            h.run_piece(["start"])
            stale = (h.rec, [h.model.stats[k] for k in sorted(h.model.stats)] if getattr(h.model, "stats", None) else [])
            h.rec = Recorder()
            # (in half of the cases with the very replication object of the first run)
            h.initialize(same_object=bool(case["seeds"]) and case["seeds"][0] % 2 == 1)
            stale_mark = len(stale[0].log)
        starting_log = []
        if drive[0] in ("slow-listener", "fast-listener"):
            # two STARTING listeners: the first one is slow (it yields the processor n times) and then draws from a
            # stream shared with the model; the second one looks whether the run has already begun.  The speed of
            # a listener must not change the run.
            import time as _t
            from pydsol.core.pubsub import EventListener
            from pydsol.core.interfaces import SimulatorInterface
            model = h.model
            n_yield = drive[1] if drive[0] == "slow-listener" else 0

            class A(EventListener):
                def notify(self, event):
                    for _ in range(n_yield):
                        _t.sleep(0)
                    if model.streams:
                        starting_log.append(["A", float(model.streams[0].next_float()).hex()])

            class B(EventListener):
                def notify(self, event):
                    starting_log.append(["B", len(model.trace), sum(1 for e in h.rec.log if e[0] == "START")])
            keep_listeners = (A(), B())
            for l_ in keep_listeners:
                h.sim.add_listener(SimulatorInterface.STARTING_EVENT, l_)
        if drive[0] in ("slow-stop-listener", "fast-stop-listener"):
            # the same for the listeners of the STOP notification of a pause: the user waits until the simulator
            # says it has stopped (polling run_state, as user code does) and resumes at once.  However long a STOP
            # listener takes, it has finished before the simulator says so.
            import time as _t
            from pydsol.core.pubsub import EventListener
            from pydsol.core.interfaces import SimulatorInterface
            from pydsol.core.simulator import RunState as _RS
            model = h.model
            nap = drive[1] if drive[0] == "slow-stop-listener" else 0.0

            class SA(EventListener):
                def notify(self, event):
                    if nap:
                        _t.sleep(nap)
                    if model.streams:
                        starting_log.append(["A", float(model.streams[0].next_float()).hex(), len(model.trace)])

            class SB(EventListener):
                def notify(self, event):
                    starting_log.append(["B", len(model.trace)])
            keep_listeners = (SA(), SB())
            for l_ in keep_listeners:
                h.sim.add_listener(SimulatorInterface.STOP_EVENT, l_)
            s, ln = dec_ref(prog["rep"]["start"]), dec_ref(prog["rep"]["length"])
            if prog["clock"] == "int":
                b = s + (ln * drive[2]) // 10
            else:
                b = s + ln * (drive[2] / 10.0)
                b = [float(b).hex(), "s"] if prog["clock"] == "duration" else float(b).hex()
            h.sim.run_up_to(dec_sut(b))
            deadline = _t.monotonic() + 20.0
            while h.sim.run_state not in (_RS.STOPPED, _RS.ENDED):
                if _t.monotonic() > deadline:
                    raise Inconclusive("no pause within 20 s")
                _t.sleep(0)
            if h.sim.run_state == _RS.STOPPED:
                # one event by step() - carried out by the calling thread - then the rest of the run
                for cmd in (h.sim.step, h.sim.start):
                    if h.sim.run_state != _RS.STOPPED:
                        break
                    try:
                        cmd()
                    except Exception as e:            # (refused: the digest says so)
                        starting_log.append(["refused", cmd.__name__, type(e).__name__])
            h.settle(allow_limbo=True)
        slow_probe = {}
        if drive[0] == "pause-slow":
            # the event after which the run is paused takes longer than stop() is willing to wait (1 s): until the
            # run thread has really left the event, the simulator is still stopping and takes no start/step
            def probe():
                slow_probe["state"] = h.sim.run_state.name
                try:
                    h.sim.step()
                    slow_probe["step"] = "accepted"
                except Exception as e:
                    slow_probe["step"] = type(e).__name__
            h.start_pause_after(drive[1], ["start"], hold_until_stop_returned=True, while_held=probe)
        elif drive[0] == "pause":
            h.start_pause_after(drive[1], ["start"])
            # what a pause is for: the user looks at the simulator (prints the event list, its events, the clock)
            el_ = h.sim.eventlist()
            starting_log.append(["looked", len(str(el_) + repr(el_)) > 0, str(h.sim.simulator_time) != ""])
            for st_ in (getattr(h.model, "stats", None) or {}).values():
                starting_log.append(stoch.stat_digest(st_))          # ... and at every statistic
            del starting_log[:]
        elif drive[0] == "pause-tc":
            # the pause is requested by a TIME_CHANGED listener (a breakpoint on the clock)
            h.start_stop_at_time_change(drive[1], ["start"])
        elif drive[0] == "pause-other":
            # while this run is paused, unrelated work in the process initialises and runs ANOTHER simulator
            h.start_pause_after(drive[1], ["start"])
            other_prog = {"clock": "float", "cap": 40, "rep": {"start": (0.0).hex(), "warmup": (0.0).hex(),
                                                                "length": (5.0).hex()},
                          "root": [["rel", (1.0).hex(), 0, 5], ["now", 0, 5]], "nodes": [[["rel", (1.0).hex(), 0, 5]]]}
            ho = Harness(other_prog)
            try:
                ho.initialize()
                ho.run_piece(["start"])
            finally:
                ho.finish()
        elif drive[0] == "bounded":
            s, ln = dec_ref(prog["rep"]["start"]), dec_ref(prog["rep"]["length"])
            if prog["clock"] == "int":
                b = s + (ln * drive[1]) // 10
            else:
                b = s + ln * (drive[1] / 10.0)
                b = [float(b).hex(), "s"] if prog["clock"] == "duration" else float(b).hex()
            h.run_piece(["run_up_to_incl", b])
        elif drive[0] == "bounded-x":
            # an exclusive bound inside the replication, then an exclusive bound beyond its end: everything up to and
            # including the end is carried out
            s, ln = dec_ref(prog["rep"]["start"]), dec_ref(prog["rep"]["length"])
            if prog["clock"] == "int":
                b, far = s + (ln * drive[1]) // 10, s + ln + 7
            else:
                b, far = s + ln * (drive[1] / 10.0), s + ln * 1.5 + 1.0
                if prog["clock"] == "duration":
                    b, far = [float(b).hex(), "s"], [float(far).hex(), "s"]
                else:
                    b, far = float(b).hex(), float(far).hex()
            h.run_piece(["run_up_to", b])
            h.run_piece(["run_up_to", far])
        elif drive[0] == "steps":
            for _ in range(drive[1]):
                h.run_piece(["step"])
        from pydsol.core.simulator import RunState
        for _ in range(2):
            if h.sim.run_state != RunState.ENDED:
                h.run_piece(["start"])
        d = stoch.full_digest(h)
        d["deliveries"] = h.model.deliveries
        d["seeds_used"] = list(case["seeds"])
        d["starting_listeners"] = starting_log
        if stale is not None and len(stale[0].log) != stale_mark:
            # listeners of the previous replication (removed by initialize) were notified again
            d["stale_listener_notifications"] = len(stale[0].log) - stale_mark
        # the clock a TIME_CHANGED listener reads: announcements that do change the time, with the old clock value
        # (side channel, not part of the digest: after a bounded run the old clock legitimately is the bound)
        global LAST_CLOCK_ADVANCES
        LAST_CLOCK_ADVANCES = [[_tval(x[0]), _tval(x[1])] for x in h.rec.tc_seen if _tval(x[0]) != _tval(x[1])]
        if slow_probe:
            d["slow_probe"] = slow_probe
        # the pause/segmentation changes START/STOP notifications by design: normalise them away
        d["notifications"] = [e for e in d["notifications"] if e[0] in
                              ("START_REPLICATION", "TIME_CHANGED", "WARMUP", "END_REPLICATION")]
        # a time that is announced again after a pause is not a difference: keep each TIME_CHANGED value once
        tval = _tval
        norm = []
        last_tc = tval(enc_obs(h.replication.start_sim_time))     # (step() also announces a time that is no change)
        for e in d["notifications"]:
            if e[0] == "TIME_CHANGED":
                if last_tc == tval(e[1]):
                    continue
                last_tc = tval(e[1])
            norm.append(e)
        d["notifications"] = norm
        return d
    finally:
        h.finish()
