"""child interpreter of C07: argv = infile outfile prior drive-json ; prints nothing"""
import hashlib
import json
import os
import sys

sys.dont_write_bytecode = True
HERE = os.path.dirname(os.path.dirname(os.path.abspath(__file__)))
sys.path.insert(0, HERE)
import vlib  # noqa: E402,F401

from props import _c07_common as common  # noqa: E402


def main():
    infile, outfile, prior, drive = sys.argv[1], sys.argv[2], int(sys.argv[3]), json.loads(sys.argv[4])
    devnull = open(os.devnull, "w")
    sys.stdout = devnull
    sys.stderr = devnull
    keep = common.prior_activity(prior)
    cases = json.load(open(infile))
    res = []
    for c in cases:
        try:
            d = common.run_program(c, drive)
            s = json.dumps(d, sort_keys=True, default=repr)
            res.append({"sha": hashlib.sha256(s.encode()).hexdigest(), "digest": d if os.environ.get("C07_FULL") else None,
                        "executed": len(d["trace"]), "deliveries": len(d["deliveries"])})
        except Exception as e:
            res.append({"sha": "error:" + type(e).__name__ + ":" + str(e)[:200], "digest": None, "executed": 0,
                        "deliveries": 0})
    with open(outfile, "w") as f:
        json.dump(res, f)
    del keep


if __name__ == "__main__":
    main()
