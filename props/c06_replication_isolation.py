"""C06 - replications are isolated: re-initialising gives a fresh, reproducible run."""
import copy

from hypothesis import strategies as st

from vlib import progs, stoch
from vlib.runner import Inconclusive, Outcome
from vlib.simharness import Harness, Recorder, dec_ref, enc_obs

ID = "C06"
RULE = ("Hypothesis (stochastic program, seeds, prior history) triples: program = C02-style handlers plus random "
        "delays drawn from seeded MersenneTwister streams, stream draws, observations to SimCounter/SimTally/"
        "SimWeightedTally/SimPersistent that are created in construct_model (as documented) and listen to one or two event types of producers that live for one replication or for the whole model, and attempts to "
        "initialize from a running handler, and cancel_event on handles kept from the previous replication; prior history in {none, initialised only, k steps, stop() after event k, "
        "bounded run, ended, paused by a handler fault, cleanup} with other seeds / other replication settings. "
        "Oracle (differential): trace, final clock, notification stream, stream draws and every statistics getter "
        "(hex floats) of the replication after the prior history equal those of the same replication on a brand-new "
        "simulator and model; clock == replication start and pending events == construct-model events + one "
        "warm-up right after initialize; initialize from a handler raises DSOLError and the run equals the run of "
        "the program without those attempts. Non-trivial = the prior history left >=1 pending event and >=1 "
        "statistic with n>0 (or was a fault/stop pause).")
ASSUMPTIONS = [
    "statistics and streams are created in construct_model (the documented way)",
    "getter exceptions are compared as values here; totality is judged by C09/C10",
]
NONTRIVIAL_FLOOR = 0.10

PRIORS = ["none", "init", "steps", "pause", "bounded", "ended", "fault", "cleanup", "steps", "pause", "bounded",
          "endrep"]        # endrep: a bounded run, then the replication is ended early with end_replication()


def budget(tier):
    if tier == "quick":
        return {"examples": 4000, "shards": 16}
    return {"examples": 60000, "shards": 16}


def strategy(tier):
    prog = progs.program_strategy(max_nodes=12 if tier == "quick" else 24, illegal=False, cap=120,
                                  extra_actions=stoch.stoch_actions(with_stats=True, reinit=True, cancel_old=True))
    seeds = st.lists(st.one_of(st.integers(0, 50), st.integers()), min_size=1, max_size=3)
    return st.fixed_dictionaries({
        "prog": prog, "seeds": seeds, "n_initial": st.integers(0, 2), "reuse_streams": st.sampled_from([False, False, True, "updater", "simple"]),
        "container_model": st.sampled_from([False, False, True]),
        "long_lived_producers": st.sampled_from([False, False, False, True, True]),
        "two_types": st.booleans(),
        # stream 0 is the "default" stream of a StreamInformation() that the model creates in construct_model
        "default_info": st.sampled_from([False, False, True]),
        "same_rep_object": st.booleans(),
        "drive2": st.sampled_from(["start", "start", "steps", "bounded"]), "k2": st.integers(1, 6),
        "reinit_listener": st.sampled_from([None, None, "START_REPLICATION", "STARTING", "START", "TIME_CHANGED",
                                            "WARMUP", "STOP", "STOP"]),
        "prior": st.fixed_dictionaries({
            "kind": st.sampled_from(PRIORS), "k": st.integers(1, 12), "seeds": seeds, "same_seeds": st.booleans(),
            "other_rep": st.booleans(), "frac": st.integers(1, 9)}),
    })


def _add_initial(h, n):
    """register n initial methods (executed at the end of every initialize()); they schedule 'now' events"""
    h.program.setdefault("initial", [[["now", i, 5]] for i in range(2)])
    for i in range(n):
        h.sim.add_initial_method(h.model, "initial", idx=i)


def _fresh_run(prog, seeds, n_initial=0, reuse=False, llp=False, case=None):
    case = case or {}
    if case.get("container_model"):
        prog = dict(prog, container_model=True)
    h = Harness(prog)
    stoch.install(h.model, seeds, reuse_streams=reuse, long_lived_producers=llp,
                  two_types=bool(case.get("two_types")), default_info=bool(case.get("default_info")))
    _add_initial(h, n_initial)
    try:
        h.initialize()
        after_init = (enc_obs(h.sim.simulator_time), h.sim.eventlist().size())
        _listener_reinit(h, case)
        err = _drive(h, prog, case)
        d = stoch.full_digest(h)
        d["reinit_log"] = list(h.model.reinit_log)
        d["start_err"] = repr(err) if err else None
    finally:
        leaked = h.finish()
    return d, after_init, leaked


def _drive(h, prog, case):
    """drive the replication under test to its end: start, or k single steps first, or a bounded run first"""
    d = case.get("drive2", "start")
    err = None
    if d == "steps":
        for _ in range(case.get("k2", 1)):
            h.run_piece(["step"])
    elif d == "bounded":
        h.run_piece(["run_up_to_incl", _bound(prog, prog["rep"], case.get("k2", 1))])
    from pydsol.core.simulator import RunState
    for _ in range(2):
        if h.sim.run_state != RunState.ENDED:
            err = h.run_piece(["start"])
    return err


def _listener_reinit(h, case):
    """a listener of the given simulator notification tries to initialize the simulator (must be refused)"""
    name = case.get("reinit_listener")
    if not name:
        return
    model = h.model
    sim = h.sim
    prev = h.rec.hooks.get(name)

    def hook(entry):
        if prev is not None:
            prev(entry)
        # only 'initialising while the run thread is active' is specified: STARTING, STARTED, or STOPPING (the
        # state in which STOP_EVENT is fired, before the worker publishes STOPPED)
        # (the other notifications are only fired by a starting / running simulator)
        import threading
        from pydsol.core.simulator import SimulatorWorkerThread
        on_run_thread = isinstance(threading.current_thread(), SimulatorWorkerThread)
        # (a STOP notification delivered BY the run thread: that thread is obviously still active, whatever the
        #  state variable says at that moment)
        if len(model.reinit_log) < 3 and (name != "STOP" or on_run_thread or
                                          sim.run_state.name in ("STARTING", "STARTED", "STOPPING")):
            before = sim.eventlist().size()
            try:
                sim.initialize(model, sim.replication)
                model.reinit_log.append("accepted@" + name)
            except Exception as e:
                model.reinit_log.append(type(e).__name__)
            if sim.eventlist().size() != before:      # a refused request changes nothing
                model.reinit_log.append("refused-but-pending-events-%d->%d" % (before, sim.eventlist().size()))
    h.rec.hooks[name] = hook


def _strip_reinit(prog):
    p = copy.deepcopy(prog)
    p["root"] = [a if a[0] != "reinit" else ["noop"] for a in p["root"]]
    p["nodes"] = [[a if a[0] != "reinit" else ["noop"] for a in n] for n in p["nodes"]]
    return p


def _bound(prog, rep, frac):
    ck = prog["clock"]
    s, l = dec_ref(rep["start"]), dec_ref(rep["length"])
    if ck == "int":
        return s + (l * frac) // 10
    b = s + l * (frac / 10.0)
    return [float(b).hex(), "s"] if ck == "duration" else float(b).hex()


_LONG = {"clock": "float", "cap": 10 ** 6, "rep": {"start": (0.0).hex(), "warmup": (10.0).hex(), "length": (2500.0).hex()},
         "root": [["rel", (1.0).hex(), 0, 5], ["rel", (0.5).hex(), 1, 5]],
         "nodes": [[["rel", (1.0).hex(), 0, 5], ["obs_c", 1], ["obs_t_rand", 0]],
                   [["rel_rand", 0, (2.0).hex(), 1, 5], ["obs_p_rand", 0]]]}


def enumerate_cases(tier):
    """two fixed scenarios in which the thread of the PREVIOUS run is still around when the next replication begins"""
    return [{"kind": "reinit-from-end-listener"}, {"kind": "init-while-slow-handler-after-stop"},
            {"kind": "init-after-stop-inside-slow-handler"}, {"kind": "cleanup-during-slow-handler"}]


def _run_fixed(case, out):
    from pydsol.core.utils import DSOLError
    prog = copy.deepcopy(_LONG)
    want, _ai, leaked = _fresh_run(prog, [7], 0, False, False, {})
    if leaked:
        out.fail("thread-leak", "fresh run")
    h = Harness(prog)
    stoch.install(h.model, [7])
    out.nontrivial = True
    out.label("fixed:" + case["kind"])
    try:
        h.initialize()
        if case["kind"] == "reinit-from-end-listener":
            # the next replication is initialised AND started by a listener of END_REPLICATION (a controller that
            # chains replications): the thread of the ended run must not touch the new run any more
            box = {}

            def at_end(entry):
                if "done" in box:
                    return
                box["done"] = True
                try:
                    h.rec = Recorder()
                    h.initialize()
                    h.sim.start()
                except Exception as e:
                    box["err"] = e
            h.rec.hooks["END_REPLICATION"] = at_end
            h.run_piece(["start"])
            if "err" in box:
                out.fail("second-initialize-raised-" + type(box["err"]).__name__, repr(box["err"]))
                return
            h.settle(allow_limbo=True)
        elif case["kind"] == "cleanup-during-slow-handler":
            # cleanup() while an event handler is busy for a while (well within the time cleanup is prepared to
            # wait), then the next replication: what the old handler still does belongs to the old replication
            import threading
            import time as _time
            reached = threading.Event()
            state = {"armed": True}

            def on_exec(m, seq, node):
                if state["armed"] and len(m.trace) - 1 == 5:
                    state["armed"] = False
                    reached.set()
                    _time.sleep(0.3)
            h.model.on_exec = on_exec
            h.sim.start()
            if not reached.wait(20.0):
                raise Inconclusive("the run did not reach the sixth event")
            try:
                h.sim.cleanup()
            except Exception as e:
                out.fail("cleanup-raised-" + type(e).__name__, repr(e))
                return
            h.rec = Recorder()
            h.initialize()
            n_after = h.sim.eventlist().size()
            _time.sleep(0.4)
            if h.sim.eventlist().size() != n_after:
                out.fail("after-initialize", {"pending events changed while nothing ran": [n_after, h.sim.eventlist().size()]})
                return
            h.run_piece(["start"])
        elif case["kind"] == "init-after-stop-inside-slow-handler":
            # the handler of an event calls stop() itself and goes on working for a while; a driver that sees the
            # simulator "not running" initialises the next replication: refused until the handler has returned
            import threading
            reached, release = threading.Event(), threading.Event()
            probe = {}

            def on_done(m, seq, node):
                if len(m.trace) - 1 == 5 and "stopped" not in probe:
                    probe["stopped"] = True
                    try:
                        m.simulator.stop()
                    except Exception as e:
                        probe["stop_exc"] = repr(e)
                    reached.set()
                    release.wait(8.0)
            h.model.on_done = on_done
            h.sim.start()
            if not reached.wait(20.0):
                raise Inconclusive("the run did not reach the sixth event")
            n0 = h.sim.eventlist().size()
            probe["running"] = h.sim.is_starting_or_running()
            try:
                h.sim.initialize(h.model, h.replication)
                probe["init"] = "accepted"
            except DSOLError:
                probe["init"] = "refused"
            except Exception as e:
                probe["init"] = type(e).__name__
            probe["pending"] = [n0, h.sim.eventlist().size()]
            release.set()
            h.settle(allow_limbo=True)
            h.model.on_done = None
            if probe.get("init") != "refused" or probe["pending"][0] != probe["pending"][1]:
                out.fail("initialize-while-running", {"while the handler that called stop() was still working": probe})
                return
            h.rec = Recorder()
            h.initialize()
            h.run_piece(["start"])
        else:
            # stop() while an event takes longer than stop() waits; until the run thread has left that event the
            # simulator is still stopping: initialize is refused and the pending events stay
            probe = {}

            def while_held():
                n0 = h.sim.eventlist().size()
                try:
                    h.sim.initialize(h.model, h.replication)
                    probe["init"] = "accepted"
                except DSOLError:
                    probe["init"] = "refused"
                except Exception as e:
                    probe["init"] = type(e).__name__
                probe["pending"] = [n0, h.sim.eventlist().size()]
            h.start_pause_after(5, ["start"], hold_until_stop_returned=True, while_held=while_held)
            if probe.get("init") != "refused" or probe["pending"][0] != probe["pending"][1]:
                out.fail("initialize-while-running", {"while the run thread was still inside an event": probe})
                return
            h.rec = Recorder()
            h.initialize()
            h.run_piece(["start"])
        got = stoch.full_digest(h)
        for key in ("trace", "clock", "state", "draws", "notifications", "stats"):
            if got.get(key) != want.get(key):
                a, b = got.get(key), want.get(key)
                detail = {"len": [len(a), len(b)]} if isinstance(a, list) and isinstance(b, list) else \
                    {"got": str(a)[:200], "want": str(b)[:200]}
                out.fail("second-replication-" + key, detail)
    finally:
        if h.finish():
            out.fail("thread-leak", case["kind"])
    out.info = {"executed": len(want["trace"])}


def run_case(case):
    out = Outcome()
    if case.get("kind"):
        _run_fixed(case, out)
        return out
    prog = case["prog"]
    pr = case["prior"]
    out.label("clock=" + prog["clock"], "prior=" + pr["kind"])
    n_init = case.get("n_initial", 0)
    reuse = case.get("reuse_streams", False)
    if n_init:
        out.label("initial-methods")
    if reuse:
        out.label("streams-reused" if reuse is True else "streams-reused-through-updater")
    llp = bool(case.get("long_lived_producers"))
    if llp:
        out.label("long-lived-producers")
    want, want_init, leaked = _fresh_run(prog, case["seeds"], n_init, reuse, llp, case)
    out.label("drive2=" + case.get("drive2", "start"))
    if case.get("reinit_listener"):
        out.label("reinit-from-listener")
    if leaked:
        out.fail("thread-leak", "fresh run")

    if case.get("container_model"):
        prog = dict(prog, container_model=True)        # a model class with __len__ == 0 (falsy object)
        out.label("model-with-__len__")
    h = Harness(prog)
    prior_seeds = case["seeds"] if pr.get("same_seeds") else pr["seeds"]
    if pr.get("same_seeds"):
        out.label("prior-same-seeds")
    stoch.install(h.model, prior_seeds, reuse_streams=reuse, long_lived_producers=llp,
                  two_types=bool(case.get("two_types")), default_info=bool(case.get("default_info")))
    if case.get("two_types"):
        out.label("two-event-types-per-producer")
    if case.get("default_info"):
        out.label("default-stream-of-StreamInformation")
    # In half of the cases with a prior history the initial methods are registered only AFTER the first
    # initialize(): they belong to the replications initialised from then on (the one under test included)
    import zlib
    late = n_init and pr["kind"] != "none" and zlib.crc32(repr(sorted(case["seeds"])).encode()) % 2 == 0
    if not late:
        _add_initial(h, n_init)
    left_pending = left_stats = False
    try:
        kind = pr["kind"]
        if kind != "none":
            rep0 = dict(prog["rep"])
            if pr["other_rep"]:
                rep0["warmup"] = prog["rep"]["length"]      # warm-up at the very end
                out.label("prior-other-replication")
            h.initialize(rep0)
            if late:
                _add_initial(h, n_init)
                out.label("initial-methods-registered-after-the-first-initialize")
            if kind == "steps":
                for _ in range(pr["k"]):
                    h.run_piece(["step"])
            elif kind == "pause":
                h.start_pause_after(pr["k"], ["start"])
            elif kind == "bounded":
                h.run_piece(["run_up_to_incl", _bound(prog, rep0, pr["frac"])])
            elif kind == "endrep":
                h.run_piece(["run_up_to_incl", _bound(prog, rep0, pr["frac"])])
                from pydsol.core.simulator import RunState as _RS0
                if h.sim.run_state != _RS0.ENDED:
                    try:
                        h.sim.end_replication()
                    except Exception as e:
                        out.fail("end-replication-raised-" + type(e).__name__, repr(e))
                    h.settle(allow_limbo=True)
            elif kind in ("ended", "cleanup"):
                h.run_piece(["start"])
            elif kind == "fault":
                h.model.fault_idx = {pr["k"]}
                # a listener of the STOP notification of the fault pause (delivered by the run thread, which is
                # therefore still active) tries to initialize: refused, nothing changes
                attempt = {}

                def stop_hook(entry):
                    import threading
                    from pydsol.core.simulator import SimulatorWorkerThread
                    if "r" in attempt or not isinstance(threading.current_thread(), SimulatorWorkerThread):
                        return
                    n0 = h.sim.eventlist().size()
                    try:
                        h.sim.initialize(h.model, h.sim.replication)
                        attempt["r"] = "accepted"
                    except Exception as e:
                        attempt["r"] = type(e).__name__
                    attempt["pending"] = [n0, h.sim.eventlist().size()]
                h.rec.hooks["STOP"] = stop_hook
                h.run_piece(["start"])
                h.rec.hooks.pop("STOP", None)
                h.model.fault_idx = set()
                if attempt and (attempt["r"] != "DSOLError" or attempt["pending"][0] != attempt["pending"][1]):
                    out.fail("initialize-while-running", {"from a STOP listener on the run thread": attempt})
                    return out
            from pydsol.core.simulator import RunState
            left_pending = h.sim.run_state != RunState.ENDED and h.sim.eventlist().size() > 0
            left_stats = any(s.n() > 0 for s in h.model.stats.values())
            prior_state = h.sim.run_state.name
            out.label("prior-ended-in=" + prior_state)
            if llp:
                # an invalid observation offered to the long-lived tally producer between the replications: refused
                # by the statistic (the error reaches the caller), nothing else changes
                from pydsol.core.interfaces import StatEvents
                try:
                    h.model.prod["t"].fire(StatEvents.DATA_EVENT, float("nan"))
                    out.fail("invalid-observation-accepted", "NaN to the tally")
                except Exception:
                    pass
            if kind == "cleanup":
                h.sim.cleanup()
        # ---- the replication under test
        h.model.seeds = list(case["seeds"])
        h.rec = Recorder()
        same_obj = bool(case.get("same_rep_object")) and kind != "none" and not pr["other_rep"]
        if same_obj:
            out.label("same-replication-object")
        try:
            h.initialize(same_object=same_obj)
        except Exception as e:
            if llp and isinstance(e, ValueError) and "timestamp" in str(e):
                # (K-C06-1: a stale persistent of the previous replication rejects an earlier timestamp)
                out.fail("second-replication-differs:long-lived-producers", {"prior": kind, "err": repr(e)})
            else:
                out.fail("second-initialize-raised-" + type(e).__name__, {"prior": kind, "err": repr(e)})
            return out
        got_init = (enc_obs(h.sim.simulator_time), h.sim.eventlist().size())
        if got_init != want_init:
            out.fail("after-initialize", {"got": got_init, "want": want_init, "prior": kind})
        # every registered initial method was carried out for this replication (absolute: the methods are the same
        # method of the same object with different keyword arguments)
        ran = sorted(-3 - r[0] for r in h.model.reqlog if r[0] <= -3)
        if ran != list(range(n_init)):
            out.fail("initial-methods-carried-out", {"got": ran, "want": list(range(n_init)), "prior": kind})
        from pydsol.core.simulator import RunState, ReplicationState
        if h.sim.run_state != RunState.INITIALIZED or h.sim.replication_state != ReplicationState.INITIALIZED:
            out.fail("state-after-initialize", [h.sim.run_state.name, h.sim.replication_state.name])
        _listener_reinit(h, case)
        err = _drive(h, prog, case)
        got = stoch.full_digest(h)
        got["reinit_log"] = list(h.model.reinit_log)
        got["start_err"] = repr(err) if err else None
        # "schedules exactly one warm-up" (an absolute statement: a fresh run and a re-initialised run that both
        # lack it would agree with each other)
        if h.sim.run_state == RunState.ENDED:
            nw = sum(1 for e in h.rec.log if e[0] == "WARMUP")
            rp = prog["rep"]
            reached = dec_ref(rp["warmup"]) <= dec_ref(rp["length"])      # (a warm-up beyond the end never comes)
            if nw != (1 if reached else 0):
                out.fail("warm-up-notified-%d-times" % min(nw, 2), {"notifications": [e[0] for e in h.rec.log][:8],
                                                                    "replication": prog["rep"]})
        for key in ("start_err", "trace", "clock", "state", "draws", "notifications", "stats", "reinit_log"):
            if got.get(key) != want.get(key):
                detail = {"prior": kind}
                if isinstance(got.get(key), list) and isinstance(want.get(key), list):
                    a, b = got[key], want[key]
                    i = 0
                    while i < min(len(a), len(b)) and a[i] == b[i]:
                        i += 1
                    detail.update(first_diff_at=i, got=a[i:i + 3], want=b[i:i + 3], len_got=len(a), len_want=len(b))
                elif isinstance(got.get(key), dict):
                    for sk in got[key]:
                        if got[key][sk] != want[key].get(sk):
                            diff = {g: [got[key][sk][g], want[key][sk].get(g)] for g in got[key][sk]
                                    if got[key][sk][g] != want[key][sk].get(g)}
                            detail.update(stat=sk, diff=diff)
                            break
                else:
                    detail.update(got=got.get(key), want=want.get(key))
                out.fail("second-replication-" + key, detail)
        if any(x != "DSOLError" for x in got["reinit_log"]):
            out.fail("initialize-while-running", got["reinit_log"])
        nw = sum(1 for e in got["notifications"] if e[0] == "WARMUP")
        if nw > 1:
            out.fail("warmup-more-than-once", nw)
    finally:
        if h.finish():
            out.fail("thread-leak", "re-initialised run")
    # initialize-while-running is refused and changes nothing: compare with the program without the attempts
    if want["reinit_log"] and not out.disc:
        out.label("reinit-attempted")
        p2 = _strip_reinit(prog)
        c2 = dict(case, reinit_listener=None)
        w2, _, _ = _fresh_run(p2, case["seeds"], n_init, reuse, llp, c2)
        for key in ("trace", "clock", "state", "draws", "notifications", "stats"):
            if w2.get(key) != want.get(key):
                out.fail("reinit-attempt-changed-" + key, {"len": [len(str(w2.get(key))), len(str(want.get(key)))]})
    if llp and out.disc and pr["kind"] != "none":
        # data producers that outlive the replication keep the statistics of the previous replication subscribed
        # (known finding K-C06-1): report this sub-domain under ONE specific kind
        kinds = sorted({d["kind"] for d in out.disc})
        if all(k.startswith(("second-replication-", "warmup-more", "initialize-while-running")) for k in kinds):
            del out.disc[:]
            out.fail("second-replication-differs:long-lived-producers", {"prior": pr["kind"], "kinds": kinds})
    out.nontrivial = (left_pending and left_stats) or pr["kind"] in ("fault", "pause") and left_pending
    out.info = {"executed": len(want["trace"]), "prior": pr["kind"]}
    return out


RULE = RULE + " " + 'Later additions: stream 0 may be the default stream of a StreamInformation() built in construct_model; initial methods registered after the first initialize(); fixed scenarios on a long program (re-initialise from an END_REPLICATION listener, initialize while a slow handler finishes after stop() from another thread or from the handler itself).'
