import sys, time, collections, warnings, json
warnings.simplefilter("ignore")
sys.path.insert(0, "/verif")
import vlib
from props import c08_pubsub as m
from hypothesis import given, settings, HealthCheck, seed, Phase
lab = collections.Counter(); n=0; nt=0; fails=collections.Counter(); first={}
t0=time.time()
@seed(int(sys.argv[1]) if len(sys.argv)>1 else 1)
@settings(max_examples=500, database=None, deadline=None, suppress_health_check=list(HealthCheck), phases=[Phase.generate])
@given(m.strategy(sys.argv[2] if len(sys.argv)>2 else "quick"))
def go(case):
    global n, nt
    json.dumps(case)
    o = m.run_case(case)
    n+=1; nt+=o.nontrivial
    lab.update(o.labels)
    for d in o.disc:
        fails[d["kind"]]+=1
        first.setdefault(d["kind"], (case, d))
go()
print(n, nt, nt/n, time.time()-t0)
for k,v in sorted(lab.items()): print(" ", k, v)
print(fails)
for k,(c,d) in first.items(): print(k, d)
